"""TLC runner and output parser."""
import os
import re
import shutil
import time

from .common import SPEC, NCPU, run, mkdirs, log, CheckBroken

JAR = "/opt/veriftools/tla/tla2tools.jar:/opt/veriftools/tla/CommunityModules-deps.jar"


class TlcResult:
    def __init__(self):
        self.rc = None
        self.out = ""
        self.generated = 0
        self.distinct = 0
        self.depth = 0
        self.ok = False            # completed, no error
        self.violated = None       # name of violated invariant/property/postcondition
        self.error = None          # other error text
        self.wall = 0.0
        self.coverage = {}
        self.prints = []           # lines printed by PrintT / Print

    def __repr__(self):
        return "TlcResult(ok=%s violated=%s gen=%d distinct=%d depth=%d err=%s)" % (
            self.ok, self.violated, self.generated, self.distinct, self.depth, (self.error or "")[:200])


def run_tlc(module, cfg=None, env=None, workers=None, timeout=1800, xmx="12g", simulate=None, depth=None,
            seed=None, coverage=False, workdir=None, deadlock=None, extra=(), dfs=False, cwd=None, constants=None):
    """Run TLC on spec/<module>.tla with spec/<cfg> (default <module>.cfg).

    constants: optional dict name->TLA+ text; a derived cfg is written with `NAME = value` lines
    replacing/adding to the CONSTANTS of the base cfg.
    """
    cwd = cwd or SPEC
    cfg = cfg or (module + ".cfg")
    cfgpath = os.path.join(cwd, cfg)
    meta = mkdirs(os.path.join(workdir or "/tmp", "tlcmeta-%d-%d" % (os.getpid(), int(time.time() * 1e6) % 10 ** 9)))
    if constants:
        txt = open(cfgpath).read()
        for k in constants:
            txt = re.sub(r"(?m)^\s*%s\s*(=|<-).*$" % re.escape(k), "", txt)
        txt += "\nCONSTANTS\n" + "\n".join(" %s = %s" % (k, v) for k, v in constants.items()) + "\n"
        cfgpath = os.path.join(meta, "derived.cfg")
        open(cfgpath, "w").write(txt)
    w = str(workers or NCPU)
    cmd = ["java", "-XX:+UseParallelGC", "-Xmx" + xmx, "-Xss256m"]
    if dfs:
        cmd.append("-Dtlc2.tool.queue.IStateQueue=StateDeque")
    cmd += ["-cp", JAR, "tlc2.TLC", "-workers", w, "-metadir", meta, "-config", cfgpath, "-noGenerateSpecTE"]
    if simulate:
        cmd += ["-simulate", "num=%d" % simulate]
    if depth:
        cmd += ["-depth", str(depth)]
    if seed is not None:
        cmd += ["-seed", str(seed)]
    if coverage:
        cmd += ["-coverage", "1"]
    if deadlock is False:
        cmd += ["-deadlock"]
    cmd += list(extra) + [os.path.join(cwd, module + ".tla")]
    t0 = time.time()
    rc, out, err = run(cmd, timeout=timeout, env=env, cwd=cwd)
    r = parse(out + ("\n" + err if err and err != "TIMEOUT" else ""))
    r.rc = rc
    r.wall = time.time() - t0
    if err == "TIMEOUT":
        r.error = "TIMEOUT after %ss" % timeout
        r.ok = False
    shutil.rmtree(meta, ignore_errors=True)
    return r


def parse(out):
    r = TlcResult()
    r.out = out
    for m in re.finditer(r"(\d+) states generated, (\d+) distinct states found", out):
        r.generated, r.distinct = int(m.group(1)), int(m.group(2))
    m = re.search(r"depth of the complete state graph search is (\d+)", out)
    if m:
        r.depth = int(m.group(1))
    m = re.search(r"Invariant (\S+) is violated", out)
    if m:
        r.violated = m.group(1)
    m = re.search(r"(?:Action|Temporal) propert(?:y|ies) (\S*)\s*(?:is|were) violated", out)
    if m and not r.violated:
        r.violated = m.group(1) or "property"
    m = re.search(r"[Pp]ostcondition (\S+)?.*(?:violated|false)", out)
    if m and not r.violated:
        r.violated = m.group(1) or "postcondition"
    if "Temporal properties were violated" in out and not r.violated:
        r.violated = "temporal"
    if re.search(r"Deadlock reached", out) and not r.violated:
        r.violated = "deadlock"
    errs = re.findall(r"(?m)^Error: (.*(?:\n(?!\S).*)*)", out)
    if errs and not r.violated:
        r.error = " | ".join(e.strip()[:600] for e in errs[:3])
    if "Assumption" in out and "is false" in out and not r.violated:
        m = re.search(r"Assumption (.*) is false", out)
        r.violated = "assumption " + (m.group(1) if m else "")
    r.ok = ("No error has been found" in out or "Finished computing initial states" in out and not errs) and not r.violated and not r.error \
        and "No error has been found" in out
    # simulate mode has no "No error" line when stopped by num; treat clean exit
    if not r.ok and not r.violated and not r.error and re.search(r"(?m)^Finished in ", out) and "Running Random Simulation" in out:
        r.ok = True
    r.prints = [ln for ln in out.splitlines() if ln.startswith('"') or ln.startswith("<<") or ln.startswith("[")]
    for m in re.finditer(r"(?m)^<(\w+) line (\d+), col \d+ to line \d+, col \d+ of module (\w+)>: (\d+):(\d+)", out):
        r.coverage["%s.%s" % (m.group(3), m.group(1))] = (int(m.group(4)), int(m.group(5)))
    return r


def expect_ok(ctx, r, what):
    """A model-checking run that must complete without error on the specification itself."""
    if r.ok:
        ctx.add("states", r.distinct)
        ctx.add("transitions", r.generated)
        return True
    if r.violated:
        return False
    raise CheckBroken("TLC failed on %s: %s\n%s" % (what, r.error, r.out[-3000:]))


def sany(module, cwd=None):
    cwd = cwd or SPEC
    rc, out, err = run(["java", "-cp", JAR, "tla2sany.SANY", os.path.join(cwd, module + ".tla")], cwd=cwd, timeout=120)
    return rc == 0 and "Semantic errors" not in out and "Fatal" not in out and "rror" not in out.replace("errors: 0", ""), out + err
