"""Shared by C04 / C09: reduced RingScheme instances, model checking, replay on the real code, validation."""
import os

from . import build, tlc, table, ringdump
from .common import CheckBroken, run as sh

INST_A = {"W": 4, "NP": 8, "KK": 1, "LL": 2, "BGB": 2, "NN": 2, "T": 2, "BB": 2}
INST_B = {"W": 4, "NP": 8, "KK": 2, "LL": 2, "BGB": 2, "NN": 2, "T": 2, "BB": 2}
INST_C = {"W": 5, "NP": 16, "KK": 1, "LL": 1, "BGB": 5, "NN": 3, "T": 5, "BB": 1}
INST_D = {"W": 4, "NP": 8, "KK": 1, "LL": 4, "BGB": 1, "NN": 1, "T": 1, "BB": 4}
INST_E = {"W": 6, "NP": 8, "KK": 1, "LL": 3, "BGB": 2, "NN": 2, "T": 3, "BB": 2}       # ext/rot rows only: 2^W does not divide 2N', so the model's modulus switch is coarser than the code's
INST_C2 = {"W": 5, "NP": 16, "KK": 1, "LL": 1, "BGB": 5, "NN": 2, "T": 5, "BB": 1}      # the MachineC instance
INST_G = {"W": 4, "NP": 16, "KK": 1, "LL": 2, "BGB": 2, "NN": 2, "T": 2, "BB": 2}
# Replay note: with l*Bgbit = W the decomposition floors at the grid, so whole multi-step blind rotations are only replayed on instances whose model key is
# (1, 0) (n <= 2: A, B, D, E); on C (n = 3, key 1,0,1) h_boot replays the rotation one key element at a time, re-rounding the accumulator to the grid in between.


def mc(ctx, inst, mode, avals="{0,3,8,13}", mutant="none", expect=None, workers=None):
    c = dict(inst)
    c.update({"Mode": '"%s"' % mode, "AVals": avals, "Mutant": '"%s"' % mutant})
    r = tlc.run_tlc("MC_RingScheme", constants=c, workdir=ctx.dir, timeout=3000, workers=workers)
    if expect:
        if r.violated != expect:
            raise CheckBroken("spec mutant %s not rejected (%s): %r" % (mutant, expect, r))
        ctx.add("spec_mutants_rejected", 1)
        return r
    if not tlc.expect_ok(ctx, r, "MC_RingScheme %s" % mode):
        raise CheckBroken("specification RingScheme violates %s (%s, %s): %s" % (r.violated, mode, inst, r.out[-1200:]))
    return r


def replay(ctx, inst, tag, be, kind, kinds, seed, tol=256, take=1, before=None, threads=1):
    """run h_boot replay on the instance (optionally after another instance `before` = (inst, tag) in the same process),
    keep rows of the given kinds (every take-th), validate with Table_C04"""
    txt = ringdump.dump_instance(ctx, inst, tag)
    files = [txt]
    if before:
        files = [ringdump.dump_instance(ctx, before[0], before[1]), txt]
    exe = build.harness("h_boot", be, kind)
    raw = os.path.join(ctx.dir, "replay-%s-%s-%s.raw" % (tag, be, kind))
    with open(raw, "w") as f:
        rc, _, err = sh([exe, "replay"] + files + ["--seed", str(seed), "--threads", str(threads), "--only", ",".join("boot" if k.startswith("boot") else k for k in kinds)], stdout=f, timeout=3000)
    if rc != 0:
        return {"crash": "h_boot replay died rc=%s %s" % (rc, err[-300:])}, None
    rows = os.path.join(ctx.dir, "replay-%s-%s-%s.ndjson" % (tag, be, kind))
    n = 0
    with open(rows, "w") as out:
        for k, ln in enumerate(open(raw)):
            if ('"inst":"%s"' % txt) in ln and any(('"k":"%s"' % kk) in ln for kk in kinds) and (k % take == 0):
                out.write(ln); n += 1
    c = dict(inst); c["Tol"] = tol
    r = tlc.run_tlc("Table_C04", env={"TRACE": rows}, constants=c, workdir=ctx.dir, timeout=3000)
    if r.ok:
        ctx.add("rows_validated", n); ctx.add("distinct_rows", r.distinct - 16); ctx.add("traces_validated_against_impl", 1)
        return None, rows
    if r.violated:
        import re
        m = re.findall(r"(?m)^/\\ i = (\d+)", r.out)
        idx = int(m[-1]) if m else None
        r2 = tlc.run_tlc("Table_C04", env={"TRACE": rows}, constants=c, workdir=ctx.dir, timeout=3000, workers=4)
        if r2.ok:
            raise CheckBroken("TLC rejection did not repeat")
        return {"row_index": idx, "row": (table.nth_line(rows, idx) if idx else None), "rows_file": rows}, rows
    raise CheckBroken("TLC failed on replay rows: %s\n%s" % (r.error, r.out[-2000:]))
