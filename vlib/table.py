"""Validate a table of observations (ndjson) against a Table_* spec with TLC; run harness programs."""
import json
import os

from .common import run, CheckBroken, log
from . import tlc


def run_harness(ctx, exe, args, outfile, timeout=1800, env=None, ok_rcs=(0,)):
    with open(outfile, "w") as f:
        rc, _, err = run([exe] + [str(a) for a in args], timeout=timeout, stdout=f, env=env)
    if rc not in ok_rcs:
        return rc, err
    return rc, err


def count_lines(p):
    n = 0
    with open(p, "rb") as f:
        for _ in f:
            n += 1
    return n


def nth_line(p, n):
    with open(p) as f:
        for k, ln in enumerate(f, 1):
            if k == n:
                return ln.strip()
    return None


def validate_rows(ctx, module, rows_file, cfg=None, constants=None, what="", workers=None, timeout=1800, index_var="i"):
    """Returns None if every row satisfies the spec's row predicate, else dict(row_index, row, invariant)."""
    n = count_lines(rows_file)
    if n == 0:
        raise CheckBroken("harness produced no rows for %s" % what)
    r = tlc.run_tlc(module, cfg=cfg, env={"TRACE": rows_file}, constants=constants, workers=workers, timeout=timeout, workdir=ctx.dir)
    if r.ok:
        if r.distinct < 1:
            raise CheckBroken("TLC validated nothing for %s" % what)
        ctx.add("rows_validated", n)
        ctx.add("distinct_rows", r.distinct)
        ctx.add("traces_validated_against_impl", 1)
        return None
    if r.violated:
        import re
        m = re.search(r"(?m)^\s*(?:/\\ )?%s = (\d+)" % index_var, r.out)
        idx = int(m.group(1)) if m else None
        row = nth_line(rows_file, idx) if idx else None
        # a rejection is reported only if a re-run repeats it
        r2 = tlc.run_tlc(module, cfg=cfg, env={"TRACE": rows_file}, constants=constants, workers=1, timeout=timeout, workdir=ctx.dir)
        if r2.ok:
            raise CheckBroken("TLC rejection of %s did not repeat" % what)
        return {"row_index": idx, "row": row, "invariant": r.violated, "rows_file": rows_file}
    raise CheckBroken("TLC failed validating %s: %s\n%s" % (what, r.error, r.out[-2500:]))


def first_rows(p, n=2):
    out = []
    with open(p) as f:
        for k, ln in enumerate(f):
            if k >= n:
                break
            try:
                out.append(json.loads(ln))
            except ValueError:
                out.append(ln.strip())
    return out
