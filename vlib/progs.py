"""Gate programs for the register machine (text format of harness/h_gates.cpp)."""
import json
import random

BIN = ["NAND", "OR", "AND", "XOR", "XNOR", "NOR", "ANDNY", "ANDYN", "ORNY", "ORYN"]
INJ = 524288 - 8192          # 1/32 minus 16 sigma of the fresh noise, in units of 2^-24


class Prog:
    def __init__(self):
        self.lines = []
        self.gates = 0

    def key(self, lam, R, seed):
        self.lines.append("key %d %d %d" % (lam, R, seed)); self.R = R

    def load(self, d, bit, inj=0):
        self.lines.append("load %d %d %d" % (d, bit, inj))

    def gate(self, g, d, a, b=0, c=0):
        self.lines.append("gate %s %d %d %d %d" % (g, d, a, b, c)); self.gates += 1

    def steer(self, r, v):
        self.lines.append("steer %d %d" % (r, v))

    def const(self, d, v):
        self.lines.append("const %d %d" % (d, v))

    def dec(self, r):
        self.lines.append("dec %d" % r)

    def end(self):
        self.lines.append("end")

    def write(self, path):
        open(path, "w").write("\n".join(self.lines) + "\n")


def truth_table_sweep(p, lam, seed, rnd, kinds=None):
    """C01: every gate x every input tuple x six kinds of admissible inputs."""
    R = 8
    p.key(lam, R, seed)
    kinds = kinds or ["fresh", "boot", "++", "--", "+-", "-+", "const"]

    def put(r, bit, kind, which):
        if kind == "fresh":
            p.load(r, bit)
        elif kind == "const":                      # a noiseless output of bootsCONSTANT (every rounded mask coefficient is zero)
            p.const(r, bit)
        elif kind == "boot":                       # an output of an earlier gate: AND(x, 1)
            p.load(6, bit); p.const(7, 1); p.gate("AND", r, 6, 7)
        else:
            s = kind[which] if which < 2 else kind[0]
            p.load(r, bit, INJ if s == "+" else -INJ)

    for g in BIN:
        for x in (0, 1):
            for y in (0, 1):
                for k in kinds:
                    put(0, x, k, 0); put(1, y, k, 1)
                    p.gate(g, 2, 0, 1)
                    if rnd.random() < 0.1:
                        p.dec(2)
    for x in (0, 1):
        for y in (0, 1):
            for z in (0, 1):
                for k in kinds:
                    put(0, x, k, 0); put(1, y, k, 1); put(3, z, k, 2)
                    p.gate("MUX", 2, 0, 1, 3)
    for x in (0, 1):
        for k in kinds[:4]:
            put(0, x, k, 0)
            p.gate("NOT", 2, 0); p.gate("COPY", 3, 0); p.const(4, x); p.dec(2); p.dec(3); p.dec(4)
    # inputs re-randomised (same phases) so that the body of the combination the gate bootstraps is exactly 0: the rounded body barb = 0
    MU = 1 << 29
    KC = {"NAND": (1, -1), "OR": (1, 1), "AND": (-1, 1), "XOR": (2, 2), "XNOR": (-2, -2), "NOR": (-1, -1), "ANDNY": (-1, 1), "ANDYN": (-1, -1), "ORNY": (1, 1), "ORYN": (1, -1)}     # (K, CB) of spec/Gates.tla
    for g in BIN:
        x, y = rnd.randint(0, 1), rnd.randint(0, 1)
        K, cb = KC[g]
        p.load(0, x); p.load(1, y); p.steer(0, 0); p.steer(1, (-K * MU // cb) % (1 << 32)); p.gate(g, 2, 0, 1)
    p.load(0, 1); p.load(1, 0); p.load(3, 1); p.steer(0, 0); p.steer(1, MU); p.steer(3, MU); p.gate("MUX", 2, 0, 1, 3)
    # ... and so that the body lies exactly half-way between two multiples of 1/2N (a rounding tie of the modulus switch: low 21 bits = 2^20 for N = 1024)
    tie_inputs(p, rnd)
    # aliasing: result is one of the inputs, inputs equal
    for g in BIN:
        x, y = rnd.randint(0, 1), rnd.randint(0, 1)
        p.load(0, x); p.load(1, y); p.gate(g, 0, 0, 1); p.load(0, x); p.gate(g, 1, 0, 1); p.load(1, y); p.gate(g, 2, 0, 0); p.gate(g, 0, 0, 0)
    for x in (0, 1):                                   # NOT and COPY with the result being the input object itself
        p.load(0, x); p.gate("NOT", 0, 0); p.dec(0); p.gate("NOT", 0, 0); p.gate("COPY", 0, 0); p.dec(0)
    p.load(0, 1); p.load(1, 0); p.load(2, 1)
    p.gate("MUX", 0, 0, 1, 2); p.load(0, 1); p.gate("MUX", 1, 0, 1, 2); p.load(1, 0); p.gate("MUX", 2, 0, 1, 2); p.gate("MUX", 3, 0, 0, 0)
    p.end()


def tie_inputs(p, rnd):
    """every binary gate and MUX on inputs steered (same phases) so that the body of the combination that is bootstrapped is a rounding tie of modSwitchFromTorus32(., 2N)"""
    MU = 1 << 29
    KC = {"NAND": (1, -1), "OR": (1, 1), "AND": (-1, 1), "XOR": (2, 2), "XNOR": (-2, -2), "NOR": (-1, -1), "ANDNY": (-1, 1), "ANDYN": (-1, -1), "ORNY": (1, 1), "ORYN": (1, -1)}     # (K, CB) of spec/Gates.tla
    for tie in (1 << 20, 3 << 20, (1 << 32) - (1 << 20)):
        for g in BIN:
            x, y = rnd.randint(0, 1), rnd.randint(0, 1)
            K, cb = KC[g]
            p.load(0, x); p.load(1, y); p.steer(0, 0); p.steer(1, ((-K * MU + tie) // cb) % (1 << 32)); p.gate(g, 2, 0, 1)
        p.load(0, 1); p.load(1, 0); p.load(3, 1); p.steer(0, 0); p.steer(1, (MU + tie) % (1 << 32)); p.steer(3, (MU + tie) % (1 << 32)); p.gate("MUX", 2, 0, 1, 3)


def random_program(p, lam, seed, rnd, R, n, loads=True):
    p.key(lam, R, seed)
    for r in range(R):
        p.load(r, rnd.randint(0, 1), 0 if r % 3 else rnd.choice([-1, 1]) * INJ)
    G = BIN + ["MUX", "MUX", "NOT", "COPY"]
    for i in range(n):
        g = rnd.choice(G)
        p.gate(g, rnd.randrange(R), rnd.randrange(R), rnd.randrange(R), rnd.randrange(R))
        if i % 97 == 0:
            p.dec(rnd.randrange(R))
        if i % 53 == 0:
            r = rnd.randrange(R); p.load(r, rnd.randint(0, 1), rnd.choice([0, INJ, -INJ]))
    p.end()


def chain(p, lam, seed, rnd, depth):
    """a long chain through one register (in-place updates): depth = history length"""
    p.key(lam, 4, seed)
    p.load(0, rnd.randint(0, 1)); p.load(1, rnd.randint(0, 1)); p.load(2, rnd.randint(0, 1))
    for i in range(depth):
        p.gate(rnd.choice(BIN), 0, 0, 1 + (i % 2))
        if i % 10 == 9:
            p.gate("MUX", 0, 0, 1, 2)
    p.dec(0); p.end()


def adder(p, lam, seed, rnd, bits, rounds):
    """ripple-carry adder + comparator: a[i] in 0..bits-1, b[i] in bits..2bits-1, sum in 2bits..3bits-1, carry, tmp"""
    R = 3 * bits + 4
    p.key(lam, R, seed)
    cy, t1, t2, gt = 3 * bits, 3 * bits + 1, 3 * bits + 2, 3 * bits + 3
    for _ in range(rounds):
        for i in range(2 * bits):
            p.load(i, rnd.randint(0, 1))
        p.const(cy, 0); p.const(gt, 0)
        for i in range(bits):
            a, b, s = i, bits + i, 2 * bits + i
            p.gate("XOR", t1, a, b); p.gate("XOR", s, t1, cy)
            p.gate("AND", t2, a, b); p.gate("AND", t1, t1, cy); p.gate("OR", cy, t1, t2)
            p.gate("XNOR", t1, a, b); p.gate("MUX", gt, t1, gt, a)          # comparator: gt = (a==b) ? gt : a
        for i in range(bits):
            p.dec(2 * bits + i)
        p.dec(cy); p.dec(gt)
        # feed the sum back as an operand (deep re-use) and add again
        for i in range(bits):
            p.gate("COPY", i, 2 * bits + i)
        p.const(cy, 0)
        for i in range(bits):
            a, b, s = i, bits + i, 2 * bits + i
            p.gate("XOR", t1, a, b); p.gate("XOR", s, t1, cy)
            p.gate("AND", t2, a, b); p.gate("AND", t1, t1, cy); p.gate("OR", cy, t1, t2)
    p.end()


def mux_tree(p, lam, seed, rnd, levels, rounds):
    n = 1 << levels
    R = n + levels + 1
    p.key(lam, R, seed)
    for _ in range(rounds):
        for i in range(n):
            p.load(i, rnd.randint(0, 1))
        for j in range(levels):
            p.load(n + j, rnd.randint(0, 1), rnd.choice([0, INJ, -INJ]))
        width = n
        for j in range(levels):
            for i in range(width // 2):
                p.gate("MUX", i, n + j, 2 * i + 1, 2 * i)
            width //= 2
        p.dec(0)
        # heavy fan-out: one wire feeds every gate of a layer
        for i in range(1, n):
            p.gate(rnd.choice(BIN), i, 0, i)
    p.end()


def from_tlc_hist(path, p, lam, seed, R):
    """A behaviour written by Gen_MachineP (ndjson list of ops) as a program."""
    p.key(lam, R, seed)
    rnd = random.Random(seed)
    for r in range(R):
        p.load(r, rnd.randint(0, 1), 0)
    for ln in open(path):
        o = json.loads(ln)
        if o["op"] == "load":
            p.load(o["d"], o["bit"], o["inj"] * INJ)
        elif o["op"] == "gate":
            p.gate(o["g"], o["d"], o["a"], o["b"], o["c"])
        elif o["op"] == "const":
            p.const(o["d"], o["v"])
    p.end()
