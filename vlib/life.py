"""API lifecycles: TLC (Gen_Life) generates behaviours of spec/Life.tla, h_life replays them under the ledger, Trace_Life validates."""
import glob
import json
import os

from . import build, tlc, table
from .common import CheckBroken, run as sh

IO_OPS = ("ExportCloud", "ExportSecret", "ExportCts", "ImportCloud", "ImportSecret", "ImportCts")
ORDER = {"NewCt": ("a", "k"), "Encrypt": ("k", "a", "i", "b"), "Const": ("k", "a", "i", "b"),
         "Gate": ("k", "g", "a", "i", "a1", "i1", "a2", "i2"), "Mux": ("k", "a", "i", "a1", "i1", "a2", "i2", "a3", "i3"),
         "Decrypt": ("k", "a", "i"), "ExportCloud": ("k",), "ExportSecret": ("k",), "ExportCts": ("a",), "ImportCts": ("a",), "Delete": ("o",)}


def generate(ctx, kind, num, seed, budget=30):
    out = os.path.join(ctx.dir, "genlife-%s-%d" % (kind, seed))
    os.makedirs(out, exist_ok=True)
    r = tlc.run_tlc("Gen_Life", env={"GEN_OUT": os.path.join(out, "p")}, simulate=num, depth=budget + 40, seed=seed, workers=1, workdir=ctx.dir,
                    constants={"ParamKind": '"%s"' % kind, "Budget": budget}, timeout=900)
    fs = sorted(glob.glob(os.path.join(out, "p*.ndjson")))
    if not fs:
        raise CheckBroken("Gen_Life produced no programs: %s" % r.out[-1500:])
    return fs


def to_text(files, kind, seed, path, first_id=0):
    """ndjson behaviours -> the text format of h_life; returns (#programs, #steps)"""
    n = steps = 0
    with open(path, "w") as f:
        for q, fn in enumerate(files):
            cfg = 4 if kind == "default" else q % 4
            f.write("prog %d %d %d\n" % (first_id + q, cfg, seed * 1000 + q))
            for ln in open(fn):
                o = json.loads(ln)
                f.write(" ".join([("@" if o.get("th") == "helper" else "") + ("%" if o.get("tr") == "file" and o["op"] in IO_OPS else "") + o["op"]] + [str(o[k]) for k in ORDER.get(o["op"], ())]) + "\n")
                steps += 1
            f.write("end\n")
            n += 1
    return n, steps


def replay(ctx, be, kind_build, kind, num, seed, budget=30):
    """returns None or a dict describing the rejection"""
    files = generate(ctx, kind, num, seed, budget)
    pf = os.path.join(ctx.dir, "life-%s-%s-%s.txt" % (be, kind_build, kind))
    n, steps = to_text(files, kind, seed, pf)
    exe = build.harness("h_life", be, kind_build)
    tf = os.path.join(ctx.dir, "life-%s-%s-%s.ndjson" % (be, kind_build, kind))
    with open(tf, "w") as f:
        for fill in (0xA5, 0x5A):
            rc, _, err = sh([exe, "--progs", pf, "--fill", str(fill)], stdout=f, timeout=3000)
            if rc != 0:
                return {"crash": True, "rc": rc, "err": err[-300:], "files": [pf]}
    nev = sum(1 for _ in open(tf))
    r = tlc.run_tlc("Trace_Life", env={"TRACE": tf}, workers=1, workdir=ctx.dir, timeout=3000, constants={"ParamKind": '"%s"' % kind})
    if r.ok and r.depth == nev + 1:
        ctx.add("events_validated", nev); ctx.add("distinct_events", nev); ctx.add("traces_validated_against_impl", 1)
        ctx.add("lifecycles_replayed", n); ctx.add("lifecycle_steps", steps)
        return None
    if r.error and not r.violated and "ostcondition" not in r.out:
        raise CheckBroken("TLC failed on Trace_Life: %s\n%s" % (r.error, r.out[-1500:]))
    r2 = tlc.run_tlc("Trace_Life", env={"TRACE": tf}, workers=1, workdir=ctx.dir, timeout=3000, constants={"ParamKind": '"%s"' % kind})
    if r2.ok and r2.depth == nev + 1:
        raise CheckBroken("rejection by Trace_Life did not repeat")
    k = max(1, r.depth or 1)
    return {"crash": False, "violated": r.violated, "accepted_prefix": k - 1, "of": nev, "event": (table.nth_line(tf, k) or "")[:500], "files": [pf, tf]}
