"""Shared machinery of the /verif checks: paths, seeds, subprocesses, evidence, known findings.

Everything here is Python 3 standard library only.
"""
import fcntl
import hashlib
import json
import os
import shutil
import subprocess
import sys
import time

VERIF = os.path.dirname(os.path.dirname(os.path.abspath(__file__)))
REPO = os.environ.get("VERIF_REPO", "/repo")
WORK = os.path.join(VERIF, ".work")
SPEC = os.path.join(VERIF, "spec")
HARNESS = os.path.join(VERIF, "harness")
EVIDENCE = os.path.join(VERIF, "evidence") if REPO == "/repo" else os.path.join(WORK, "evidence-alt")
FINDINGS = os.path.join(VERIF, "known-findings.txt")
BACKENDS = ["spqlios-fma", "spqlios-avx", "nayuki-portable", "nayuki-avx", "fftw"]
KINDS = ["optim", "debug"]
NCPU = os.cpu_count() or 4


def seed():
    try:
        return int(os.environ.get("VERIF_SEED", "1"))
    except ValueError:
        return 1


def log(*a):
    print("[vcheck]", *a, file=sys.stderr, flush=True)


def mkdirs(p):
    os.makedirs(p, exist_ok=True)
    return p


def sha(s):
    return hashlib.sha256(s if isinstance(s, bytes) else s.encode()).hexdigest()


class Lock:
    def __init__(self, path):
        self.path = path

    def __enter__(self):
        mkdirs(os.path.dirname(self.path))
        self.f = open(self.path, "w")
        fcntl.flock(self.f, fcntl.LOCK_EX)
        return self

    def __exit__(self, *a):
        fcntl.flock(self.f, fcntl.LOCK_UN)
        self.f.close()


def run(cmd, timeout=None, env=None, cwd=None, stdout=None, stdin=None, check=False):
    """Run a command, return (rc, stdout_text, stderr_text).  rc=-9 on timeout."""
    e = dict(os.environ)
    if env:
        e.update({k: str(v) for k, v in env.items()})
    try:
        p = subprocess.run(cmd, timeout=timeout, env=e, cwd=cwd,
                           stdout=stdout if stdout is not None else subprocess.PIPE,
                           stderr=subprocess.PIPE, stdin=stdin, text=True, errors="replace")
        rc, out, err = p.returncode, p.stdout or "", p.stderr or ""
    except subprocess.TimeoutExpired as ex:
        rc = -9
        out = ex.stdout if isinstance(ex.stdout, str) else (ex.stdout or b"").decode("utf8", "replace") if ex.stdout else ""
        err = "TIMEOUT"
    if check and rc != 0:
        raise CheckBroken("command failed rc=%s: %s\n%s\n%s" % (rc, " ".join(map(str, cmd)), out[-2000:], err[-2000:]))
    return rc, out, err


class CheckBroken(Exception):
    """Infrastructure failure: the run decides nothing (reported, exit 2)."""


class Violation:
    def __init__(self, what, key=None, detail=None):
        self.what = what          # human-readable: what fails
        self.key = key or what    # exact identity used to match known-findings
        self.detail = detail or {}


def load_findings():
    """known-findings.txt -> (set of (prop, key) for 'finding:' lines, list of fixed lines)."""
    fs, fixed = set(), []
    if os.path.exists(FINDINGS):
        for ln in open(FINDINGS):
            ln = ln.strip()
            if ln.startswith("finding:"):
                rest = ln[len("finding:"):].strip()
                parts = rest.split(None, 1)
                if parts and parts[0].startswith("property="):
                    fs.add((parts[0][len("property="):], parts[1].strip() if len(parts) > 1 else ""))
            elif ln.startswith("fixed:"):
                fixed.append(ln)
    return fs, fixed


class Ctx:
    """One run of one check."""

    def __init__(self, pid, tier, level):
        self.pid, self.tier, self.level = pid, tier, level
        self.seed = seed()
        self.t0 = time.time()
        self.violations = []
        self.cov = {"samples": []}
        self.assumptions = []
        self.dir = mkdirs(os.path.join(WORK, "run", "%s-%s-%d" % (pid, tier, os.getpid())))
        self.replay_dir = mkdirs(os.path.join(WORK, "replay", pid))
        self.notes = []

    # ---- coverage bookkeeping --------------------------------------------------
    def add(self, key, n):
        self.cov[key] = self.cov.get(key, 0) + int(n)

    def sample(self, s, cap=6):
        if len(self.cov["samples"]) < cap:
            self.cov["samples"].append(s)

    def assume(self, s):
        if s not in self.assumptions:
            self.assumptions.append(s)

    def note(self, s):
        self.notes.append(s)
        log(s)

    def violation(self, what, key=None, detail=None, files=()):
        v = Violation(what, key, detail)
        # store replay material
        n = len(self.violations)
        rp = os.path.join(self.replay_dir, "%s-%s-%d.json" % (self.tier, self.seed, n))
        keep = []
        for f in files:
            if f and os.path.exists(f):
                dst = os.path.join(self.replay_dir, "%s-%s-%d-%s" % (self.tier, self.seed, n, os.path.basename(f)))
                try:
                    shutil.copyfile(f, dst)
                    keep.append(dst)
                except OSError:
                    pass
        json.dump({"property": self.pid, "what": what, "key": v.key, "detail": v.detail, "files": keep,
                   "seed": self.seed, "tier": self.tier}, open(rp, "w"), indent=1, default=str)
        v.replay = rp
        self.violations.append(v)
        log("violation:", what)
        return v

    # ---- finish ----------------------------------------------------------------
    def finish(self):
        known, _ = load_findings()
        new, old = [], []
        for v in self.violations:
            (old if (self.pid, v.key) in known else new).append(v)
        for v in old:
            print("KNOWN-FINDING: property=%s %s" % (self.pid, v.key))
        for v in new:
            print("VIOLATION property=%s replay=%s" % (self.pid, v.replay))
            print("  what: %s" % v.what)
        cov = dict(self.cov)
        if not cov.get("samples"):
            cov["samples"] = ["(none recorded)"]
        if self.notes:
            cov["notes"] = self.notes[:40]
        cov.setdefault("traces_validated_against_impl", 0)
        if self.level == "model_checking":
            cov["states"] = max(1, cov.get("states", 0))
            cov["transitions"] = max(1, cov.get("transitions", 0))
        cov.setdefault("evaluations", max(1, cov.get("rows_validated", 0) + cov.get("events_validated", 0) + cov.get("states", 0)))
        cov.setdefault("distinct_nontrivial", max(2, cov.get("distinct_rows", 0) + cov.get("distinct_events", 0) + cov.get("states", 0)))
        cov.setdefault("rule", "see level text in MANIFEST.json; counts are TLC's distinct states (model) and distinct validated rows/events (implementation)")
        if self.level == "other":
            cov.setdefault("explanation", "see MANIFEST.json level text")
        ev = {"property_id": self.pid, "tier": self.tier, "seed": self.seed, "level": self.level,
              "coverage": cov, "assumptions": self.assumptions, "wall_s": round(time.time() - self.t0, 2),
              "violations": len(new), "known_findings_matched": [v.key for v in old]}
        mkdirs(EVIDENCE)
        tmp = os.path.join(EVIDENCE, ".%s.%d.tmp" % (self.pid, os.getpid()))
        json.dump(ev, open(tmp, "w"), indent=1, default=str)
        os.replace(tmp, os.path.join(EVIDENCE, "%s.json" % self.pid))
        shutil.rmtree(self.dir, ignore_errors=True)
        return 1 if new else 0
