"""TGSW algebra: TLC (Gen_TGswAlg) generates behaviours of spec/TGswAlg.tla, h_tgsw executes them on the library, Trace_TGswAlg validates."""
import glob
import json
import os

from . import build, tlc, table
from .common import CheckBroken, run as sh

# reduced instances (W, NP, KK, LL, BGB): LL*BGB <= W; the message pool of the specification is for NP = 4
INSTANCES = [dict(W=8, NP=4, KK=1, LL=2, BGB=4), dict(W=8, NP=4, KK=2, LL=2, BGB=3), dict(W=9, NP=4, KK=1, LL=3, BGB=3)]


def consts(inst, extra=None):
    c = dict(inst); c.update({"NN": 1, "T": 2, "BB": 2}); c.update(extra or {})
    return c


def generate(ctx, inst, num, seed, depth=24):
    out = os.path.join(ctx.dir, "gentgsw-%d-%d-%d-%d" % (inst["W"], inst["KK"], inst["LL"], seed))
    os.makedirs(out, exist_ok=True)
    r = tlc.run_tlc("Gen_TGswAlg", env={"GEN_OUT": os.path.join(out, "p")}, simulate=num, depth=depth + 4, seed=seed, workers=1, workdir=ctx.dir,
                    constants=consts(inst, {"MaxOps": depth}), timeout=900)
    fs = sorted(glob.glob(os.path.join(out, "p*.ndjson")))
    if not fs:
        raise CheckBroken("Gen_TGswAlg produced no programs: %s" % r.out[-1500:])
    return fs


def to_text(files, path, first_id=0):
    n = steps = 0
    with open(path, "w") as f:
        for q, fn in enumerate(files):
            for ln in open(fn):
                o = json.loads(ln); op = o["op"]
                if op == "Key":
                    f.write("prog %d %d %d %d %d %d\n" % (first_id + q, o["W"], o["NP"], o["KK"], o["LL"], o["BGB"]))
                    f.write("key " + " ".join(str(b) for c in o["key"] for b in c) + "\n")
                    continue
                steps += 1
                if op in ("AddMuH", "Trivial"): f.write(op + " " + " ".join(str(v) for v in o["mu"]) + "\n")
                elif op == "AddMuIntH": f.write("%s %d\n" % (op, o["v"]))
                elif op == "EncInt": f.write("%s %d %d\n" % (op, o["v"], o["alog"]))
                elif op == "EncPoly": f.write(op + " " + " ".join(str(v) for v in o["mu"]) + " %d\n" % o["alog"])
                elif op == "MulXaiM1": f.write("%s %d\n" % (op, o["x"]))
                elif op == "Decrypt": f.write("%s %d\n" % (op, o["ms"]))          # (the expected plaintext stays behind)
                elif op == "Load": f.write("Load %d %d " % (o["k"], o["tag"]) + " ".join(str(v) for r in o["rows"] for c in r for v in c) + "\n")
                else: f.write(op + "\n")
            f.write("end\n"); n += 1
    return n, steps


def replay(ctx, be, kind_build, inst, num, seed, depth=24):
    files = generate(ctx, inst, num, seed, depth)
    tagn = "%s-%s-%d-%d-%d" % (be, kind_build, inst["W"], inst["KK"], inst["LL"])
    pf = os.path.join(ctx.dir, "tgsw-%s.txt" % tagn)
    n, steps = to_text(files, pf)
    exe = build.harness("h_tgsw", be, kind_build)
    tf = os.path.join(ctx.dir, "tgsw-%s.ndjson" % tagn)
    with open(tf, "w") as f:
        rc, _, err = sh([exe, "--progs", pf], stdout=f, timeout=1800)
    if rc != 0:
        return {"crash": True, "rc": rc, "err": err[-300:], "files": [pf]}
    nev = sum(1 for _ in open(tf))
    cs = consts(inst, {"MaxOps": 1000000})
    r = tlc.run_tlc("Trace_TGswAlg", env={"TRACE": tf}, workers=1, workdir=ctx.dir, timeout=1800, constants=cs)
    if r.ok and r.depth == nev + 1:
        ctx.add("events_validated", nev); ctx.add("distinct_events", nev); ctx.add("traces_validated_against_impl", 1)
        ctx.add("tgsw_programs_replayed", n); ctx.add("tgsw_program_steps", steps)
        return None
    if r.error and not r.violated and "ostcondition" not in r.out:
        raise CheckBroken("TLC failed on Trace_TGswAlg: %s\n%s" % (r.error, r.out[-1500:]))
    k = max(1, r.depth or 1)
    return {"crash": False, "violated": r.violated, "accepted_prefix": k - 1, "of": nev, "event": (table.nth_line(tf, k) or "")[:400], "files": [pf, tf]}
