"""Build /repo's current working tree (hooks on) and the harness; cached by content hash."""
import os
import shutil
import time

from .common import (REPO, WORK, HARNESS, BACKENDS, NCPU, Lock, run, mkdirs, sha, log, CheckBroken)

GUARD = "TFHE_VERIF"


def _tree_hash(root, skip=("googletest",)):
    h = []
    for d, dirs, files in os.walk(root):
        dirs[:] = sorted(x for x in dirs if x not in skip and not x.startswith("."))
        for f in sorted(files):
            p = os.path.join(d, f)
            try:
                h.append(os.path.relpath(p, root) + ":" + sha(open(p, "rb").read()))
            except OSError:
                pass
    return sha("\n".join(h))


_memo = {}


def lib_build(kind="optim", guard=True, extra_cxx="", tag=""):
    """Return directory containing libtfhe-<backend>.so for the current /repo/src working tree."""
    src = os.path.join(REPO, "src")
    flags = ("-D%s " % GUARD if guard else "") + extra_cxx
    key = sha(_tree_hash(src) + "|" + kind + "|" + flags)[:16]
    if key in _memo and os.path.exists(os.path.join(os.path.dirname(_memo[key]), ".ok")):
        try:
            os.utime(os.path.join(os.path.dirname(_memo[key]), ".ok"), None)      # still in use: keep it away from the pruner of concurrent runs
        except OSError:
            pass
        return _memo[key]
    root = mkdirs(os.path.join(WORK, "build"))
    bdir = os.path.join(root, "%s-%s%s" % (key, kind, tag))
    with Lock(os.path.join(root, ".lock-" + key)):
        ok = os.path.join(bdir, ".ok")
        if not os.path.exists(ok):
            shutil.rmtree(bdir, ignore_errors=True)
            mkdirs(bdir)
            t0 = time.time()
            cm = ["cmake", "-G", "Ninja", src, "-DCMAKE_BUILD_TYPE=" + kind, "-DENABLE_FFTW=on", "-DENABLE_TESTS=off",
                  "-DENABLE_NAYUKI_PORTABLE=on", "-DENABLE_NAYUKI_AVX=on", "-DENABLE_SPQLIOS_AVX=on", "-DENABLE_SPQLIOS_FMA=on",
                  "-DCMAKE_CXX_FLAGS=" + flags, "-DCMAKE_C_FLAGS=" + flags]
            rc, out, err = run(cm, cwd=bdir, timeout=600)
            if rc != 0:
                raise CheckBroken("cmake failed for /repo/src (%s):\n%s\n%s" % (kind, out[-3000:], err[-3000:]))
            rc, out, err = run(["ninja", "-j", str(NCPU)], cwd=bdir, timeout=1800)
            if rc != 0:
                raise CheckBroken("library build failed (%s):\n%s\n%s" % (kind, out[-4000:], err[-3000:]))
            open(ok, "w").write("built in %.1fs\n" % (time.time() - t0))
            log("built library %s in %.1fs -> %s" % (kind, time.time() - t0, bdir))
        os.utime(ok, None)
    _prune(root, keep=24)
    libdir = os.path.join(bdir, "libtfhe")
    _memo[key] = libdir
    return libdir


def _prune(root, keep):
    try:
        ds = [os.path.join(root, d) for d in os.listdir(root) if not d.startswith(".")]
        ds = [d for d in ds if os.path.exists(os.path.join(d, ".ok"))]
        ds.sort(key=lambda d: os.path.getmtime(os.path.join(d, ".ok")), reverse=True)
        for d in ds[keep:]:
            if time.time() - os.path.getmtime(os.path.join(d, ".ok")) > 4 * 3600:
                shutil.rmtree(d, ignore_errors=True)
    except OSError:
        pass


def harness(name, backend="spqlios-fma", kind="optim", srcs=None, extra=(), libs=(), lang="c++"):
    """Compile harness/<name>.cpp (or the given sources) against the freshly built library variant.

    Returns the path of the executable.  Harness objects are cached by source hash + library dir.
    """
    libdir = lib_build(kind)
    srcs = srcs or [name + (".cpp" if lang == "c++" else ".c")]
    paths = [os.path.join(HARNESS, s) for s in srcs]
    hdrs = [os.path.join(HARNESS, f) for f in sorted(os.listdir(HARNESS)) if f.endswith(".h")]
    inc = os.path.join(REPO, "src", "include")
    key = sha("|".join(sha(open(p, "rb").read()) for p in paths + hdrs) + libdir + backend + " ".join(extra) + " ".join(libs)
              + _tree_hash(inc))[:16]
    out_dir = mkdirs(os.path.join(WORK, "hbin"))
    exe = os.path.join(out_dir, "%s-%s-%s-%s" % (name, backend, kind, key))
    with Lock(os.path.join(out_dir, ".lock-" + key)):
        if not os.path.exists(exe):
            cc = ["g++", "-std=gnu++11"] if lang == "c++" else ["gcc", "-std=c99"]
            opt = ["-O1", "-g"] if kind == "optim" else ["-O0", "-g"]
            cmd = cc + opt + ["-D" + GUARD, "-Wall", "-I", inc, "-I", HARNESS] + list(extra) + paths + \
                  ["-L", libdir, "-ltfhe-" + backend, "-Wl,-rpath," + libdir, "-lpthread", "-ldl"] + list(libs) + ["-o", exe + ".tmp"]
            rc, out, err = run(cmd, timeout=600)
            if rc != 0:
                raise CheckBroken("harness build failed (%s, %s, %s):\n%s" % (name, backend, kind, err[-4000:]))
            os.replace(exe + ".tmp", exe)
        else:
            try:
                os.utime(exe, None)          # still in use: keep it away from the pruner of concurrent runs (the pruner goes by last use, not by build time)
            except OSError:
                pass
    _prune_files(out_dir, 400)
    return exe


def _prune_files(d, keep):
    try:
        fs = [os.path.join(d, f) for f in os.listdir(d) if not f.startswith(".")]
        fs.sort(key=os.path.getmtime, reverse=True)
        for f in fs[keep:]:
            if time.time() - os.path.getmtime(f) > 6 * 3600:
                os.remove(f)
    except OSError:
        pass
