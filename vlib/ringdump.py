"""Dump the key material of a RingScheme instance with TLC and flatten it for harness/h_boot.cpp."""
import json
import os

from . import tlc
from .common import CheckBroken


def dump_instance(ctx, consts, tag):
    out = os.path.join(ctx.dir, "dump-%s.json" % tag)
    r = tlc.run_tlc("Dump_RingScheme", env={"DUMP_OUT": out}, constants=consts, workers=1, workdir=ctx.dir, timeout=600)
    if not os.path.exists(out):
        raise CheckBroken("Dump_RingScheme failed: %s" % r.out[-1500:])
    d = json.load(open(out))
    v = [d[k] for k in ("W", "NP", "KK", "LL", "BGB", "NN", "T", "BB")]
    for s in d["skey"]:
        v += s
    v += d["lkey"]
    for g in d["bk"]:
        for row in g:
            for comp in row:
                v += comp
    for i in d["ks"]:
        for j in i:
            for h in j:
                v += h["a"] + [h["b"]]
    v.append(len(d["msgs"]))
    for m in d["msgs"]:
        v += [x % (1 << d["W"]) for x in m]
    for g in d["gsw"]:
        for row in g:
            for comp in row:
                v += comp
    for s in d["smp"]:
        for comp in s:
            v += comp
    txt = os.path.join(ctx.dir, "inst-%s.txt" % tag)
    open(txt, "w").write(" ".join(str(x) for x in v) + "\n")
    return txt
