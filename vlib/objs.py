"""The four-phase object API: TLC (Gen_ObjLife) generates call sequences of spec/ObjLife.tla, h_objs executes them under the ledger, Trace_ObjLife validates."""
import glob
import json
import os

from . import build, tlc, table
from .common import CheckBroken, run as sh

TYPES = ["LweParams", "LweKey", "LweSample", "LweKeySwitchKey", "LweBootstrappingKey", "LweBootstrappingKeyFFT", "TLweParams", "TLweKey", "TLweSample", "TLweSampleFFT",
         "TGswParams", "TGswKey", "TGswSample", "TGswSampleFFT", "IntPolynomial", "TorusPolynomial", "LagrangeHalfCPolynomial"]
COUNTS = [0, 1, 3]


def generate(ctx, num, seed, calls=40):
    out = os.path.join(ctx.dir, "genobj-%d" % seed)
    os.makedirs(out, exist_ok=True)
    r = tlc.run_tlc("Gen_ObjLife", env={"GEN_OUT": os.path.join(out, "p")}, simulate=num, depth=calls + 10, seed=seed, workers=1, workdir=ctx.dir, constants={"MaxCalls": calls}, timeout=900)
    fs = sorted(glob.glob(os.path.join(out, "p*.ndjson")))
    if not fs:
        raise CheckBroken("Gen_ObjLife produced no programs: %s" % r.out[-1500:])
    return fs


def to_text(files, path):
    n = steps = 0
    with open(path, "w") as f:
        # program 0: every (type, form) once through all six calls, so that every footprint rule has both of its sides in the trace
        f.write("prog 0\n")
        for t in TYPES:
            for c in COUNTS:
                for op in ("alloc", "init", "destroy", "free", "new", "delete"):
                    f.write("%s 1 %s %d\n" % (op, t, c)); steps += 1
        f.write("end\n")
        for q, fn in enumerate(files):
            f.write("prog %d\n" % (q + 1))
            for ln in open(fn):
                o = json.loads(ln)
                f.write("%s %d %s %d\n" % (o["op"], o["s"], o["t"], o["n"])); steps += 1
            f.write("end\n"); n += 1
    return n + 1, steps


def replay(ctx, be, kind_build, num, seed, fill=0xA5):
    files = generate(ctx, num, seed)
    pf = os.path.join(ctx.dir, "objs-%s-%s.txt" % (be, kind_build))
    n, steps = to_text(files, pf)
    exe = build.harness("h_objs", be, kind_build)
    tf = os.path.join(ctx.dir, "objs-%s-%s.ndjson" % (be, kind_build))
    with open(tf, "w") as f:
        rc, _, err = sh([exe, "--progs", pf, "--fill", str(fill)], stdout=f, timeout=1800)
    if rc != 0:
        return {"crash": True, "rc": rc, "err": err[-300:], "files": [pf]}
    nev = sum(1 for _ in open(tf))
    r = tlc.run_tlc("Trace_ObjLife", env={"TRACE": tf}, workers=1, workdir=ctx.dir, timeout=1800)
    if r.ok and r.depth == nev + 1:
        ctx.add("events_validated", nev); ctx.add("distinct_events", nev); ctx.add("traces_validated_against_impl", 1)
        ctx.add("object_api_programs", n); ctx.add("object_api_calls", steps)
        return None
    if r.error and not r.violated and "ostcondition" not in r.out:
        raise CheckBroken("TLC failed on Trace_ObjLife: %s\n%s" % (r.error, r.out[-1500:]))
    k = max(1, r.depth or 1)
    return {"crash": False, "violated": r.violated, "accepted_prefix": k - 1, "of": nev, "event": (table.nth_line(tf, k) or "")[:400], "files": [pf, tf]}
