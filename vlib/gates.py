"""Run gate programs on the real library and validate the recorded trace against MachineP with TLC."""
import json
import os
import re

from . import build, tlc
from .common import run, CheckBroken


def exec_program(ctx, prog, be, kind, tag, timeout=3000):
    exe = build.harness("h_gates", be, kind)
    pf = os.path.join(ctx.dir, "prog-%s.txt" % tag)
    tf = os.path.join(ctx.dir, "trace-%s.ndjson" % tag)
    prog.write(pf)
    with open(tf, "w") as f:
        rc, _, err = run([exe, pf], stdout=f, timeout=timeout)
    return rc, err, pf, tf


def validate_trace(ctx, tf, R, module="Trace_MachineP", extra_constants=None, what=""):
    """None if accepted; else dict describing the rejection (longest accepted prefix, offending event)."""
    n = sum(1 for _ in open(tf))
    consts = {"Regs": "{%s}" % ",".join(str(i) for i in range(R))}
    consts.update(extra_constants or {})
    r = tlc.run_tlc(module, env={"TRACE": tf}, constants=consts, workers=1, workdir=ctx.dir, timeout=3000)
    st = [ln for ln in r.out.splitlines() if "STATS" in ln]
    if st:
        ctx.cov["noise_stats_last"] = st[-1].replace('\\"', "'").strip('"')[:600]
    if r.ok and r.depth == n + 1:
        ctx.add("events_validated", n)
        ctx.add("distinct_events", r.distinct - 1)
        ctx.add("traces_validated_against_impl", 1)
        return None
    if r.error and not r.violated and not ("ostcondition" in r.out):
        raise CheckBroken("TLC failed validating %s: %s\n%s" % (what, r.error, r.out[-2000:]))
    # rejected: by an invariant (Correct/Admissible/StatsAccepted) or because no action matches the next event
    r2 = tlc.run_tlc(module, env={"TRACE": tf}, constants=consts, workers=1, workdir=ctx.dir, timeout=3000)
    if r2.ok and r2.depth == n + 1:
        raise CheckBroken("TLC rejection of %s did not repeat" % what)
    matched = max(0, (r.depth or 1) - 1)
    if r.violated and r.violated not in ("postcondition", "Accepted"):
        m = re.findall(r"(?m)^/\\ l = (\d+)", r.out)
        if m:
            matched = int(m[-1]) - 1
    ev = None
    with open(tf) as f:
        for k, ln in enumerate(f, 1):
            if k == (matched if (r.violated and r.violated not in ("postcondition", "Accepted")) else matched + 1):
                ev = ln.strip()
                break
    return {"violated": r.violated, "accepted_prefix": matched, "of": n, "event": ev}
