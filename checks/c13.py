"""C13 — torus rounding and modulus switch round to nearest exactly."""
import os

from vlib import build, tlc, table
from vlib.common import CheckBroken

LEVEL = "model_checking"
POW2_BIG = [65536, 1048576, 1073741824]      # up to 2^30: the largest power of two int32_t Msize can hold


def run(ctx):
    thorough = ctx.tier == "thorough"
    W = 15 if thorough else 12
    mset_model = [2, 3, 4, 5, 7, 8, 16, 100, 1024, 2048, 4096] + ([32768] if thorough else [])
    # 1. the specification itself: as-implemented operators satisfy the as-stated predicates, every phase
    r = tlc.run_tlc("MC_TorusW", constants={"W": W, "MSet": "{%s}" % ",".join(map(str, mset_model))}, workdir=ctx.dir)
    if not tlc.expect_ok(ctx, r, "MC_TorusW"):
        raise CheckBroken("specification TorusW violates %s: %s" % (r.violated, r.out[-1500:]))
    ctx.sample({"model": "MC_TorusW", "W": W, "MSet": mset_model, "distinct_states": r.distinct})
    # 1b. vacuity guard: a floor-instead-of-round design must be rejected by the same invariants
    rm = tlc.run_tlc("MC_TorusW", constants={"W": 8, "MSet": "{2,3,8,16}", "Mutant": '"floor"'}, workdir=ctx.dir, workers=2)
    if rm.violated != "RoundsToNearest":
        raise CheckBroken("spec mutant 'floor' not rejected: %r" % rm)
    ctx.add("spec_mutants_rejected", 1)
    # 2. the code on the same grid (embedded), and at full width around every kind of rounding edge
    pow2 = [m for m in mset_model if m & (m - 1) == 0]
    for be, kind in ([("spqlios-fma", "optim"), ("nayuki-portable", "debug")] if thorough else [("spqlios-fma", "optim")]):
        exe = build.harness("h_arith", be, kind)
        g = os.path.join(ctx.dir, "grid-%s.ndjson" % kind)
        rc, err = table.run_harness(ctx, exe, ["grid", "--W", W, "--M", ",".join(map(str, pow2 + [3, 5, 7, 100, 1000]))], g)
        if rc != 0:
            ctx.violation("harness h_arith grid died rc=%s: %s" % (rc, err[-300:]), key="h_arith grid crash")
            continue
        bad = table.validate_rows(ctx, "Table_C13", g, constants={"W": W}, what="C13 grid")
        if bad:
            ctx.violation("rounding routine disagrees with TorusW on the embedded grid: row %s" % bad["row"], detail=bad, files=[g])
        e = os.path.join(ctx.dir, "edges-%s.ndjson" % kind)
        ms = [2, 3, 4, 5, 7, 8, 16, 1000, 1024, 2048, 4096, 32768] + POW2_BIG
        rc, err = table.run_harness(ctx, exe, ["edges", "--M", ",".join(map(str, ms)), "--randM", 120 if thorough else 40,
                                               "--per", 128 if thorough else 64, "--seed", ctx.seed], e)
        if rc != 0:
            ctx.violation("harness h_arith edges died rc=%s: %s" % (rc, err[-300:]), key="h_arith edges crash")
            continue
        bad = table.validate_rows(ctx, "Table_C13", e, constants={"W": W}, what="C13 edges")
        if bad:
            ctx.violation("rounding routine violates nearest-rounding at full width: row %s" % bad["row"], detail=bad, files=[e])
        # histories: the three routines called for interleaved message-space sizes (state kept between calls shows here, a per-M sweep hides it)
        mx = os.path.join(ctx.dir, "mix-%s.ndjson" % kind)
        rc, err = table.run_harness(ctx, exe, ["mix", "--M", ",".join(map(str, ms + [6, 9, 100, 12345])), "--iters", 6000 if thorough else 2500, "--seed", ctx.seed + 7], mx)
        if rc != 0:
            ctx.violation("harness h_arith mix died rc=%s: %s" % (rc, err[-300:]), key="h_arith mix crash")
            continue
        bad = table.validate_rows(ctx, "Table_C13", mx, constants={"W": W}, what="C13 mix")
        if bad:
            ctx.violation("rounding routine gives a different answer when calls for different message-space sizes are interleaved: row %s" % bad["row"], detail=bad, files=[mx])
        for s in table.first_rows(e, 1) + table.first_rows(g, 1):
            ctx.sample(s)
    ctx.assume("M = 2^31 is not representable in the API's int32_t Msize; powers of two are covered up to 2^30")
    ctx.assume("TLC checks the W-bit model exhaustively; the 32-bit code is driven over the embedded W-bit grid and over edge families at full width")
