"""C11 — naive, Karatsuba and monomial multiplications are exact in the negacyclic ring."""
import os

from vlib import build, tlc, table
from vlib.common import CheckBroken

LEVEL = "model_checking"


def run(ctx):
    thorough = ctx.tier == "thorough"
    # 1. specification: code-shaped operators = ring definitions (all basis pairs, all a, extreme dense vectors)
    ns = "{1,2,4,8,16,32,64}" if thorough else "{1,2,4,8,16,32}"
    r = tlc.run_tlc("MC_Ring", constants={"NS": ns, "W": 8}, workdir=ctx.dir, timeout=3000)
    if not tlc.expect_ok(ctx, r, "MC_Ring"):
        raise CheckBroken("specification Ring violates %s: %s" % (r.violated, r.out[-1200:]))
    ctx.sample({"model": "MC_Ring", "NS": ns, "distinct_states": r.distinct})
    for mut, inv in (("karasplit", "KaratsubaIsProduct"), ("xaisign", "MonomialIsShift")):
        rm = tlc.run_tlc("MC_Ring", constants={"Mutant": '"%s"' % mut, "NS": "{8,16}"}, workdir=ctx.dir, workers=4)
        if rm.violated != inv:
            raise CheckBroken("spec mutant %s not rejected as expected: %r" % (mut, rm))
        ctx.add("spec_mutants_rejected", 1)
    # 2. the code, every degree N = 1..2048
    allN = "1,2,4,8,16,32,64,128,256,512,1024,2048"
    builds = [("spqlios-fma", "optim"), ("nayuki-portable", "debug")] if thorough else [("spqlios-fma", "optim"), ("nayuki-portable", "debug")]
    for be, kind in builds:
        exe = build.harness("h_ring", be, kind)
        full = thorough or kind == "optim"
        jobs = [
            ("mul", ["mul", "--N", allN if full else "1,2,8,16,32,1024", "--densemax", 64 if thorough else 32, "--sparse", 256 if thorough else 48,
                     "--pairsmax", 64 if thorough else 32, "--seed", ctx.seed]),
            ("xai", ["xai", "--N", allN if full else "1,2,8,32,1024", "--xdensemax", 64 if thorough else 16, "--xallmax", 2048 if thorough else (1024 if full else 32), "--seed", ctx.seed]),
            ("lin", ["lin", "--N", allN if full else "1,2,8,64,1024", "--seed", ctx.seed]),
        ]
        for name, args in jobs:
            f = os.path.join(ctx.dir, "%s-%s.ndjson" % (name, kind))
            rc, err = table.run_harness(ctx, exe, args, f)
            if rc != 0:
                ctx.violation("h_ring %s (%s) died rc=%s %s" % (name, kind, rc, err[-300:]), key="h_ring %s crash %s" % (name, kind))
                continue
            bad = table.validate_rows(ctx, "Table_C11", f, what="C11 %s %s" % (name, kind), timeout=3000)
            if bad:
                row = bad["row"] or ""
                ctx.violation("polynomial routine (%s, %s build) disagrees with the ring definition: row %s" % (name, kind, row[:300]), detail={k: (v[:2000] if isinstance(v, str) else v) for k, v in bad.items()}, files=[f])
            else:
                s = table.first_rows(f, 1)[0]
                ctx.sample({k: (v if not isinstance(v, list) or len(v) < 8 else v[:8] + ["..."]) for k, v in s.items()})
    ctx.assume("bilinear routines: all basis pairs for N <= 32 (64 thorough), boundary pairs + few-term extreme polynomials for larger N, dense products for N <= 32/64; "
               "monomials: every a in [0,2N) (dense for small N, boundary-crossing spikes for large N)")
