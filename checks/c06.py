"""C06 — homomorphic evaluation is deterministic, thread-safe and history-independent."""
import os

from vlib import build, tlc, table
from vlib.common import CheckBroken, run as sh, BACKENDS

LEVEL = "model_checking"


def validate_threads(ctx, tf, what):
    n = sum(1 for _ in open(tf))
    r = tlc.run_tlc("Trace_Threads", env={"TRACE": tf}, workers=1, workdir=ctx.dir, timeout=3000)
    if r.ok and r.depth == n + 1:
        ctx.add("events_validated", n); ctx.add("distinct_events", r.distinct - 1); ctx.add("traces_validated_against_impl", 1)
        return None
    if r.error and not r.violated and "ostcondition" not in r.out:
        raise CheckBroken("TLC failed validating %s: %s\n%s" % (what, r.error, r.out[-2000:]))
    r2 = tlc.run_tlc("Trace_Threads", env={"TRACE": tf}, workers=1, workdir=ctx.dir, timeout=3000)
    if r2.ok and r2.depth == n + 1:
        raise CheckBroken("TLC rejection of %s did not repeat" % what)
    k = max(1, r.depth or 1)
    return {"violated": r.violated, "accepted_prefix": k - 1, "of": n, "event": (table.nth_line(tf, k) or "")[:400]}


def run(ctx):
    thorough = ctx.tier == "thorough"
    # 1. the design: every interleaving of 3 threads x 2 transforms x processor construction / thread exit, per back-end structure
    for cfg in ("Threads_fftw.cfg", "Threads_plain.cfg"):
        r = tlc.run_tlc("Threads", cfg=cfg, workdir=ctx.dir, timeout=1800)
        if not tlc.expect_ok(ctx, r, cfg):
            raise CheckBroken("specification Threads (%s) violates %s: %s" % (cfg, r.violated, r.out[-1200:]))
        ctx.sample({"model": "Threads", "cfg": cfg, "distinct_states": r.distinct})
    for cfg, inv in (("Threads_mut_fftw_unlocked.cfg", "PlannerExclusive"), ("Threads_mut_shared.cfg", None),
                     ("Threads_mut_tables.cfg", "TablesAlive"),          # twiddle tables published once and freed by the processor that built them
                     ("Threads_mut_statictmp.cfg", "Deterministic")):    # evaluation temporaries shared by all callers
        rm = tlc.run_tlc("Threads", cfg=cfg, workdir=ctx.dir, workers=4)
        if not rm.violated or (inv and rm.violated != inv):
            raise CheckBroken("design mutant %s not rejected: %r" % (cfg, rm))
        ctx.add("spec_mutants_rejected", 1)
    # 2. the code: 1..64 threads (oversubscribed), threads created and destroyed repeatedly, different histories, one key generation alongside
    cfgs = [("spqlios-fma", "optim"), ("nayuki-portable", "optim"), ("fftw", "optim")]
    if thorough:
        cfgs = [(be, "optim") for be in BACKENDS] + [("fftw", "debug"), ("spqlios-avx", "debug"), ("nayuki-avx", "debug")]
    for be, kind in cfgs:
        exe = build.harness("h_threads", be, kind, extra=["-I", os.path.join(os.environ.get("VERIF_REPO", "/repo"), "src", "libtfhe")])
        for lam, threads, rounds in ([(80, "1,3,16,64", 2)] if not thorough else [(80, "1,2,5,16,64", 4), (128, "2,7,32", 2)]):
            if kind == "debug":
                threads, rounds = "2,8", 1
            tf = os.path.join(ctx.dir, "threads-%s-%s-%d.ndjson" % (be, kind, lam))
            # every other run: the library's first user in the process is a helper thread (key generation + reference) that has exited before the workers start
            helper = "1" if (lam == 128 or be.startswith("nayuki") or kind == "debug") else "0"
            # storm: eight evaluators released together before every evaluation, a client thread encrypting / decrypting / encoding alongside
            storm = (150 if kind == "optim" else 30) * (3 if thorough else 1)
            with open(tf, "w") as f:
                rc, _, err = sh([exe, "--lambda", str(lam), "--threads", threads, "--rounds", str(rounds), "--count", "3", "--seed", str(ctx.seed), "--helper", helper, "--storm", str(storm)], stdout=f, timeout=3000)
            if rc != 0:
                ctx.violation("h_threads died on %s/%s rc=%s %s" % (be, kind, rc, err[-300:]), key="h_threads crash %s %s" % (be, kind), files=[tf])
                continue
            bad = validate_threads(ctx, tf, "C06 %s %s" % (be, kind))
            if bad:
                ctx.violation("multi-threaded execution on %s/%s is not a behaviour of Threads/Trace_Eval (%s): accepted %d of %d events, rejected event %s" %
                              (be, kind, bad["violated"] or "no matching action", bad["accepted_prefix"], bad["of"], bad["event"][:300]), detail=bad, files=[tf])
            elif (be, kind) == cfgs[0]:
                for s in table.first_rows(tf, 30)[-2:]:
                    ctx.sample(s)
    # 3. first use: the very first thing a process does with the library is eight threads creating their first Lagrange polynomial at the same moment
    #    (SharedInit.tla: exactly one process-lifetime processor is built, nobody sees it half built); Trace_Threads!PShared accepts one ProcShared per process
    for c in ("SharedInit_once.cfg", "SharedInit_once_plain.cfg"):
        r = tlc.run_tlc("SharedInit", cfg=c, workdir=ctx.dir, workers=2)
        if not tlc.expect_ok(ctx, r, c):
            raise CheckBroken("SharedInit (%s) violates %s" % (c, r.violated))
    for c, inv in (("SharedInit_none.cfg", "OneShared"), ("SharedInit_early.cfg", "NoHalfBuilt")):
        rm = tlc.run_tlc("SharedInit", cfg=c, workdir=ctx.dir, workers=2)
        if rm.violated != inv:
            raise CheckBroken("design mutant %s not rejected by %s: %r" % (c, inv, rm))
        ctx.add("spec_mutants_rejected", 1)
    for be, kind in cfgs:
        exe = build.harness("h_threads", be, kind, extra=["-I", os.path.join(os.environ.get("VERIF_REPO", "/repo"), "src", "libtfhe")])
        for rep in range(6 if thorough else 3):          # the first use happens once per process: several processes
            tf = os.path.join(ctx.dir, "firstuse-%s-%s-%d.ndjson" % (be, kind, rep))
            with open(tf, "w") as f:
                rc, _, err = sh([exe, "--probe", "2", "--seed", str(ctx.seed + rep)], stdout=f, timeout=600)
            if rc != 0:
                ctx.violation("h_threads (concurrent first use) died on %s/%s rc=%s %s" % (be, kind, rc, err[-300:]), key="h_threads first-use crash %s %s" % (be, kind), files=[tf])
                break
            bad = validate_threads(ctx, tf, "C06 first use %s %s" % (be, kind))
            if bad:
                ctx.violation("concurrent first use of the library on %s/%s is not a behaviour of Threads/SharedInit (%s): accepted %d of %d events, rejected event %s" %
                              (be, kind, bad["violated"] or "no matching action", bad["accepted_prefix"], bad["of"], bad["event"][:300]), detail=bad, files=[tf])
                break
    ctx.assume("'forall interleavings' is exhaustive for the model; for the code, schedules are sampled but ownership and lock discipline are judged by identity (which thread constructed the processor a thread uses; who holds the planner mutex), not by timing")
    ctx.assume("races inside uninstrumented assembly that leave identities and results intact are invisible")
