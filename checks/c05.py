"""C05 — export followed by import reproduces every object exactly, on both transports."""
import os

from vlib import build, tlc, table
from vlib.common import CheckBroken, run as sh
from checks.c15 import validate_eval

LEVEL = "model_checking"


def validate_serial(ctx, tf, what):
    n = sum(1 for _ in open(tf))
    r = tlc.run_tlc("Trace_Serial", env={"TRACE": tf}, workers=1, workdir=ctx.dir, timeout=3000)
    if r.ok and r.depth == n + 1:
        ctx.add("events_validated", n); ctx.add("distinct_events", r.distinct - 1); ctx.add("traces_validated_against_impl", 1)
        return None
    if r.error and "ostcondition" not in r.out:
        raise CheckBroken("TLC failed validating %s: %s\n%s" % (what, r.error, r.out[-2000:]))
    r2 = tlc.run_tlc("Trace_Serial", env={"TRACE": tf}, workers=1, workdir=ctx.dir, timeout=3000)
    if r2.ok and r2.depth == n + 1:
        raise CheckBroken("TLC rejection of %s did not repeat" % what)
    k = max(1, r.depth or 1)
    # context: the export the rejected event belongs to
    last_export = None
    with open(tf) as f:
        for i, ln in enumerate(f, 1):
            if i > k:
                break
            if '"e":"Export"' in ln:
                last_export = ln.strip()[:240]
    return {"accepted_prefix": k - 1, "of": n, "event": (table.nth_line(tf, k) or "")[:400], "in_export": last_export}


def run(ctx):
    thorough = ctx.tier == "thorough"
    # 1. specification: exports of all 15 object types are well-formed call sequences; cloud/secret structure
    r = tlc.run_tlc("MC_Serial", workdir=ctx.dir)
    if not tlc.expect_ok(ctx, r, "MC_Serial"):
        raise CheckBroken("specification Serial violates %s" % r.violated)
    ctx.sample({"model": "MC_Serial", "distinct_states": r.distinct})
    # 1b. the transports under the grammar (Transport.tla): whole-array and block-wise writers put out exactly the bytes of the calls; the two wrong designs
    #     (block loop one iteration short on exact multiples; zero-byte read accepted at end of file) are rejected
    for cfg, want in (("Transport_whole.cfg", None), ("Transport_blocks.cfg", None), ("Transport_mut_short.cfg", "ExportExact"), ("Transport_mut_eofok.cfg", "NoSilentAccept")):
        rt = tlc.run_tlc("Transport", cfg=cfg, workdir=ctx.dir, workers=4)
        if want is None:
            if not tlc.expect_ok(ctx, rt, "Transport/" + cfg):
                raise CheckBroken("specification Transport (%s) violates %s" % (cfg, rt.violated))
        elif rt.ok or want not in (rt.violated or ""):
            raise CheckBroken("specification Transport (%s) does not reject the wrong design (expected %s, got %s)" % (cfg, want, rt.violated))
        ctx.sample({"model": "Transport", "cfg": cfg, "distinct_states": rt.distinct, "expected": want or "ok"})
    # 2. round trips on the real library: every type, both transports, alone and back to back, parameter values incl. the default noise levels
    cfgs = [("spqlios-fma", "optim"), ("nayuki-portable", "debug")] + ([("fftw", "optim"), ("spqlios-avx", "debug"), ("nayuki-avx", "optim")] if thorough else [])
    for be, kind in cfgs:
        exe = build.harness("h_io", be, kind)
        tf = os.path.join(ctx.dir, "io-%s-%s.ndjson" % (be, kind))
        args = ["--sets", 10 if thorough else 5, "--ksets", 3 if thorough else 1, "--seed", ctx.seed] + (["--defaults", 1] if thorough and kind == "optim" else [])
        with open(tf, "w") as f:
            rc, _, err = sh([exe] + [str(a) for a in args], stdout=f, timeout=3000)
        if rc != 0:
            ctx.violation("h_io died on %s/%s rc=%s %s" % (be, kind, rc, err[-300:]), key="h_io crash %s %s" % (be, kind), files=[tf])
            continue
        bad = validate_serial(ctx, tf, "C05 %s %s" % (be, kind))
        if bad:
            ctx.violation("export/import round trip on %s/%s is not a behaviour of Serial: accepted %d of %d events; rejected event %s; within %s" %
                          (be, kind, bad["accepted_prefix"], bad["of"], bad["event"][:260], bad["in_export"]), detail=bad, files=[tf])
        elif (be, kind) == cfgs[0]:
            for s in table.first_rows(tf, 4)[1:4]:
                ctx.sample(s)
    # 3. functional equivalence: a re-imported cloud key evaluates gates to bit-identical ciphertexts, a re-imported secret key decrypts identically
    for be, kind, lam, trn in ([("spqlios-fma", "optim", 128, 0)] + ([("spqlios-fma", "optim", 80, 1), ("fftw", "optim", 128, 1), ("nayuki-portable", "optim", 80, 0)] if thorough else [])):
        exe = build.harness("h_io", be, kind)
        tf = os.path.join(ctx.dir, "equiv-%s-%d-%d.ndjson" % (be, lam, trn))
        with open(tf, "w") as f:
            rc, _, err = sh([exe, "--equiv", str(lam), "--transport", str(trn), "--seed", str(ctx.seed)], stdout=f, timeout=3000)
        if rc != 0:
            ctx.violation("h_io --equiv died on %s lambda=%d rc=%s %s" % (be, lam, rc, err[-300:]), key="h_io equiv crash %s %d" % (be, lam))
            continue
        bad = validate_eval(ctx, tf, "C05 equivalence %s %d" % (be, lam))
        if bad:
            ctx.violation("re-imported key set is not functionally equivalent (%s, lambda=%d, transport %d): %s" % (be, lam, trn, (bad["event"] or "")[:300]), detail=bad, files=[tf])
    ctx.assume("field-for-field equality of coefficient arrays is decided on 62-bit content hashes; scalar fields and real-valued parameters are compared exactly (IEEE mantissa/exponent)")
    ctx.assume("key sets are exercised at N = 1024 (the importer builds the FFT key); other types at N in 2..16")
