"""C18 — truncated or mistyped serialized input is never accepted silently."""
import os

from vlib import build, tlc, table
from vlib.common import CheckBroken, run as sh

LEVEL = "fault_enumeration"


def run(ctx):
    thorough = ctx.tier == "thorough"
    r = tlc.run_tlc("MC_Serial", workdir=ctx.dir)
    if not tlc.expect_ok(ctx, r, "MC_Serial"):
        raise CheckBroken("specification Serial violates %s" % r.violated)
    total = 0
    kinds = {}
    cfgs = [("spqlios-fma", "optim", 1), ("nayuki-portable", "debug", 0)] + ([("fftw", "optim", 1), ("spqlios-avx", "debug", 1)] if thorough else [])
    for be, kind, keysets in cfgs:
        exe = build.harness("h_trunc", be, kind)
        for sd in ([ctx.seed, ctx.seed + 1, ctx.seed + 2] if thorough else [ctx.seed]):
            f = os.path.join(ctx.dir, "trunc-%s-%s-%d.ndjson" % (be, kind, sd))
            with open(f, "w") as out:
                rc, _, err = sh([exe, "--seed", str(sd), "--keysets", str(keysets), "--stride", "97" if thorough else "613"], stdout=out, timeout=3000)
            if rc != 0:
                ctx.violation("h_trunc died on %s/%s rc=%s %s" % (be, kind, rc, err[-300:]), key="h_trunc crash %s %s" % (be, kind))
                continue
            bad = table.validate_rows(ctx, "Table_C18", f, what="C18 %s %s" % (be, kind))
            if bad:
                ctx.violation("damaged input accepted silently (or intact input rejected) on %s/%s: %s" % (be, kind, (bad["row"] or "")[:400]), detail=bad, files=[f])
            import json
            for ln in open(f):
                o = json.loads(ln)
                k = (o["kind"], o["tr"], o["outcome"])
                kinds[k] = kinds.get(k, 0) + 1
                total += 1
            ctx.sample(table.first_rows(f, 3)[2])
    ctx.cov["evaluations"] = total
    ctx.cov["distinct_nontrivial"] = total
    ctx.cov["rule"] = ("one case = (importer type, source bytes, transport): every byte offset of the export of each of 13 small-parameter object types (exhaustive), text parts / section boundaries / tags / a stride for "
                       "key sets at N = 1024, every A-for-B substitution, every single-byte corruption of tag bytes and title lines; each imported in a forked child; all cases are distinct by construction")
    ctx.cov["outcome_histogram"] = {"%s/%s/%s" % k: v for k, v in sorted(kinds.items())}
    ctx.cov["exhaustive"] = True
    ctx.assume("allowed outcomes: process termination (signal / non-zero exit) or a failed C++ stream; the only accepted damaged input is the named AcceptMissingFinalNewline case (stream transport, complete object)")
    ctx.assume("out-of-bounds accesses while importing are not decided here (see C16)")
