"""C19 — default parameter selection is monotone and matches the documented sets."""
import os

from vlib import build, tlc, table
from vlib.common import CheckBroken

LEVEL = "model_checking"


def run(ctx):
    # 1. specification: the transcribed dispatch agrees with the documented thresholds for every lambda; sets are structurally sound; noise formulas leave 12 sigma
    r = tlc.run_tlc("MC_Params", workdir=ctx.dir, workers=4)
    if not tlc.expect_ok(ctx, r, "MC_Params"):
        raise CheckBroken("specification Params violates %s: %s" % (r.violated, r.out[-1200:]))
    ctx.sample({"model": "MC_Params", "lambdas": "-5..300, INT32_MIN+1, INT32_MAX", "distinct_states": r.distinct})
    for mut, inv in (("off80", "MatchesDocumentedThresholds"), ("weak", "MatchesDocumentedThresholds")):
        rm = tlc.run_tlc("MC_Params", constants={"Mutant": '"%s"' % mut}, workdir=ctx.dir, workers=2)
        if rm.violated != inv:
            raise CheckBroken("spec mutant %s not rejected: %r" % (mut, rm))
        ctx.add("spec_mutants_rejected", 1)
    # 2. the real function, every lambda, every field
    cfgs = [("spqlios-fma", "optim"), ("nayuki-portable", "debug")] + ([("fftw", "optim"), ("nayuki-avx", "debug"), ("spqlios-avx", "optim")] if ctx.tier == "thorough" else [])
    for be, kind in cfgs:
        exe = build.harness("h_params", be, kind)
        f = os.path.join(ctx.dir, "params-%s-%s.ndjson" % (be, kind))
        rc, err = table.run_harness(ctx, exe, [], f)
        if rc != 0:
            ctx.violation("h_params died rc=%s %s" % (rc, err[-200:]), key="h_params crash %s %s" % (be, kind))
            continue
        bad = table.validate_rows(ctx, "Table_C19", f, what="C19 %s %s" % (be, kind), workers=4)
        if bad:
            ctx.violation("default parameter selection deviates from the documented sets (%s %s): %s" % (be, kind, (bad["row"] or "")[:400]), detail=bad, files=[f])
        else:
            ctx.sample(table.first_rows(f, 8)[7])
    ctx.assume("128-bit set documented in README.md (n=630, 2^-15; N=1024, 2^-25); 80-bit set documented in the source comments (historic 2016 set)")
    ctx.assume("noise formulas: average-case digits; gate-output variance must stay below the bound the property quotes (0.0037 / 0.0047) and leave 12 sigma at every gate incl. XOR and the modulus-switch rounding")
