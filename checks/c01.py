"""C01 — every homomorphic gate computes its Boolean function."""
import random

from vlib import tlc, gates, progs
from vlib.common import CheckBroken, BACKENDS

LEVEL = "model_checking"


def model(ctx):
    r = tlc.run_tlc("MachineP", workdir=ctx.dir, timeout=1800)
    if not tlc.expect_ok(ctx, r, "MachineP"):
        raise CheckBroken("specification MachineP violates %s: %s" % (r.violated, r.out[-1500:]))
    ctx.sample({"model": "MachineP", "regs": 3, "distinct_states": r.distinct, "transitions": r.generated})
    for mut in ("AndConst", "XorConst"):
        rm = tlc.run_tlc("MachineP", constants={"Mutant": '"%s"' % mut}, workdir=ctx.dir, workers=4)
        if rm.violated != "Correct":
            raise CheckBroken("spec mutant %s not rejected: %r" % (mut, rm))
        ctx.add("spec_mutants_rejected", 1)
    # the caps are tight: with A1 relaxed to 1/16 the truth tables no longer follow
    rm = tlc.run_tlc("MachineP", constants={"ECap": 1048576}, workdir=ctx.dir, workers=4)
    if rm.violated != "Correct":
        raise CheckBroken("relaxed cap not rejected: %r" % rm)
    ctx.add("spec_mutants_rejected", 1)


def model_c(ctx, thorough):
    """MachineC: the bit-exact reduced-size gate algorithm decrypts to the truth tables and refines MachineP"""
    r = tlc.run_tlc("MC_MachineC", constants={"AVals": "{0, 13}" if thorough else "{13}"}, workdir=ctx.dir, timeout=3000, xmx="12g")
    if not tlc.expect_ok(ctx, r, "MC_MachineC"):
        raise CheckBroken("MachineC violates %s: %s" % (r.violated, r.out[-1500:]))
    ctx.sample({"model": "MC_MachineC (W=5, N'=16, n=2, l*Bgbit=5, t*basebit=5)", "gate_evaluations": r.distinct - 16,
                "invariants": "TruthTable, RefinesMachineP (phase projection of every concrete gate step is a MachineP step)"})


def run(ctx):
    thorough = ctx.tier == "thorough"
    model(ctx)
    model_c(ctx, thorough)
    # the concrete gate level bound to the code: the real gate functions on a cloud key set built from the embedded key material of the MachineC instance;
    # TLC recomputes the bit-exact reduced gate (linear combination, modulus switch, blind rotation, extraction, key switch) for every recorded call
    from vlib import ringreplay as rr
    for inst, tag, be, kind in [(rr.INST_C2, "C2", "spqlios-fma", "optim"), (rr.INST_A, "A", "nayuki-portable", "debug")] + ([(rr.INST_B, "B", "fftw", "optim"), (rr.INST_C2, "C2", "nayuki-avx", "optim"), (rr.INST_G, "G", "spqlios-avx", "debug")] if thorough else []):
        bad, rows = rr.replay(ctx, inst, tag, be, kind, ("gate",), ctx.seed)
        if bad and "crash" in bad:
            ctx.violation("%s (%s/%s, gate calls on instance %s)" % (bad["crash"], be, kind, tag), key="h_boot gate replay crash %s %s %s" % (tag, be, kind))
        elif bad:
            ctx.violation("a gate function on %s/%s deviates from the bit-exact reduced gate of MachineC (instance %s): row %s" % (be, kind, tag, (bad["row"] or "")[:300]), detail=bad, files=[bad["rows_file"]])
    full = None
    some = ["--", "boot", "const"]
    if thorough:
        cfgs = [(be, k, (128, 80, 128), full if k == "optim" or be.startswith("spqlios") else some) for be in BACKENDS for k in ("optim", "debug")]
    else:
        cfgs = [("spqlios-fma", "optim", (128, 80, 128), full), ("nayuki-portable", "optim", (80,), some), ("spqlios-fma", "debug", (80, 128), some)]
    seeds = [ctx.seed, ctx.seed + 101, ctx.seed + 202] if thorough else [ctx.seed]
    for be, kind, lams, kinds in cfgs:
        for sd in (seeds if kinds is full else seeds[:1]):
            rnd = random.Random(sd * 7919 + len(be))
            p = progs.Prog()
            for lam in lams:                 # both orders of the parameter sets in one process
                progs.truth_table_sweep(p, lam, sd, rnd, kinds)
            tag = "%s-%s-%d" % (be, kind, sd)
            rc, err, pf, tf = gates.exec_program(ctx, p, be, kind, tag)
            if rc != 0:
                ctx.violation("gate program died on %s/%s rc=%s %s" % (be, kind, rc, err[-300:]), key="h_gates crash %s %s" % (be, kind), files=[pf])
                continue
            bad = gates.validate_trace(ctx, tf, 8, what="C01 %s" % tag)
            if bad:
                ctx.violation("gate execution on %s/%s is not a MachineP step (%s): accepted %d of %d events, offending event %s" %
                              (be, kind, bad["violated"] or "no matching action", bad["accepted_prefix"], bad["of"], (bad["event"] or "")[:260]),
                              detail=bad, files=[pf, tf])
            ctx.add("gate_evaluations", p.gates)
    ctx.sample({"program": "truth_table_sweep", "first_ops": p.lines[:12]})
    ctx.assume("A1 (|gate output error| < 3/64) and A2 (|modulus switch rounding| < 1/32) are assumptions of the model; every recorded gate execution is checked against them")
    ctx.assume("key seeds are sampled; inputs cover fresh, bootstrapped and +-(1/32 - 16 sigma) injected errors in all sign patterns")
