"""C07 — fresh ciphertexts and key rows carry exactly the configured noise, fresh masks."""
import os

from vlib import build, tlc, table
from vlib.common import CheckBroken, run as sh

LEVEL = "exploration"


def run(ctx):
    thorough = ctx.tier == "thorough"
    total = 0
    cfgs = [("spqlios-fma", "optim")] + ([("nayuki-portable", "optim"), ("fftw", "optim"), ("spqlios-avx", "debug")] if thorough else [("nayuki-portable", "optim")])
    for be, kind in cfgs:
        for sd, lambdas in ([(ctx.seed, "80,128")] if not thorough else [(ctx.seed, "80,128"), (ctx.seed + 1, "128,80"), (ctx.seed + 2, "80,128,80")]):
            exe = build.harness("h_noise", be, kind)
            tf = os.path.join(ctx.dir, "noise-%s-%s-%d.ndjson" % (be, kind, sd))
            first = (be, kind) == cfgs[0]
            with open(tf, "w") as f:
                rc, _, err = sh([exe, "--seed", str(sd), "--per", "8192" if thorough else "2048", "--bkrows", "64" if thorough else "24", "--lambdas", lambdas if (first or thorough) else "128"], stdout=f, timeout=3000)
            if rc != 0:
                ctx.violation("h_noise died on %s/%s rc=%s %s" % (be, kind, rc, err[-300:]), key="h_noise crash %s %s" % (be, kind))
                continue
            n = sum(1 for _ in open(tf))
            r = tlc.run_tlc("Trace_Noise", env={"TRACE": tf}, workers=1, workdir=ctx.dir, timeout=3000)
            if r.ok and r.depth == n + 1:
                ctx.add("events_validated", n); ctx.add("traces_validated_against_impl", 1)
                import json
                for ln in open(tf):
                    if '"Errs"' in ln:
                        total += len(json.loads(ln)["v"])
                    elif '"Rand"' in ln:
                        total += 1
                continue
            if r.error and not r.violated and "ostcondition" not in r.out:
                raise CheckBroken("TLC failed on Trace_Noise: %s\n%s" % (r.error, r.out[-2000:]))
            r2 = tlc.run_tlc("Trace_Noise", env={"TRACE": tf}, workers=1, workdir=ctx.dir, timeout=3000)
            if r2.ok and r2.depth == n + 1:
                raise CheckBroken("TLC rejection did not repeat")
            k = max(1, r.depth or 1)
            if r.violated == "StatsAccepted":
                k = k - 1
            ev = (table.nth_line(tf, k) or "")[:400]
            what = "a noise stream / mask histogram / key balance is outside its acceptance region" if r.violated == "StatsAccepted" else "the generator is not the only source of randomness (Functional / Fresh / Seed violated)"
            ctx.violation("%s on %s/%s: event %s" % (what, be, kind, ev), detail={"violated": r.violated, "accepted_prefix": k - 1, "of": n, "event": ev}, files=[tf])
    for s in table.first_rows(tf, 60)[-2:]:
        ctx.sample({k: (v if not isinstance(v, list) or len(v) < 10 else v[:10] + ["..."]) for k, v in s.items()})
    ctx.cov["evaluations"] = max(1, total)
    ctx.cov["distinct_nontrivial"] = max(2, total)
    ctx.cov["rule"] = ("one evaluation = one phase-error sample of a fresh LWE/TLWE/TGSW encryption (alpha sweep 2^-30..2^-5 and 0) or of a generated key row (every non-zero-digit row of the key-switching key, a sample of "
                       "bootstrapping-key rows x 1024 coefficients, both default sets generated in one process), or one randomised call of the generator chain (same seed twice, different seeds, repeated encryptions)")
    ctx.assume("hypothesis testing expressed as a trace postcondition: all regions are >= 8 estimator sigma wide; shape beyond mean, variance, maximum and a 16-bucket mask histogram is not decided")
    ctx.assume("errors are logged in units of alpha/64; the 2^-32 discretisation of the sampler is allowed for as 2/(alpha*2^32) relative")
