"""Single source of MANIFEST.json: run `bin/mkmanifest` after editing."""

CHECKS = {
    "C13": dict(
        category="model_checking",
        technique="TLA+ spec TorusW (as-implemented vs as-stated operators) checked exhaustively by TLC over the W-bit torus; "
                  "rows recorded from the real routines on the embedded grid and on full-width edge families validated by TLC (Table_C13)",
        text="TLC enumerates every phase of a W-bit torus (W=12 quick, 15 thorough) for each listed M and checks nearest-rounding, range, "
             "approxPhase = to o from, encode/decode identity on the as-implemented transcription; the real 32-bit functions are then driven "
             "over the same grid (embedded by x -> x*2^(32-W), where the W-bit routine is the 32-bit routine for power-of-two M) and over "
             "full-width neighbourhoods of every kind of rounding edge for M in the property's list and random M <= 2^15; every observed row "
             "is decided by TLC against the specification (equality with the model on the grid, nearest-rounding in exact limb arithmetic at full width).",
        note="Trusted: TLC, the harness printing what the functions return. M = 2^31 is not representable in int32_t Msize (covered up to 2^30). "
             "Full 2^32 enumeration of phases is not done at full width; the embedding argument plus edge families stand in for it.",
        design="§6 C13"),
    "C12": dict(
        category="model_checking",
        technique="TLA+ spec Gadget (as-implemented decomposition incl. the dirty-buffer window) checked exhaustively by TLC; "
                  "rows recorded from tGswTorus32PolynomialDecompH / tGswTLweDecompH (optim AVX2 asm and debug scalar builds) validated by TLC (Table_C12)",
        text="TLC checks, for every value of the W-bit torus and a grid of layouts (W = l*Bgbit+1 and W = l*Bgbit), that the transcribed decomposition yields balanced digits "
             "recomposing within the truncation bound, and on a small buffer machine that the input is dirty only inside the add-offset/remove-offset window and restored at the end. "
             "The real routines are driven over the embedded grids (equality with the model, digit for digit) and, for 15 layouts incl. l*Bgbit = 32 and Bgbit in {1,2,16}, over full-width "
             "carry/wrap/random families at degrees 8,16,64,1024 and through the TLWE wrapper (k = 1,2); each coefficient row (input, digits, input-after) is decided by TLC.",
        note="Trusted: TLC; harness prints what the routine leaves in memory. The 2^32 full-width enumeration is replaced by the embedding argument (exact for W >= l*Bgbit) plus edge families; "
             "default layouts (3,7),(2,10) are enumerated on the code with a stride in the quick tier.",
        design="§6 C12"),
    "C11": dict(
        category="model_checking",
        technique="TLA+ spec Ring (definitional negacyclic product vs transcribed schoolbook/Karatsuba/monomial loops) model-checked by TLC; "
                  "rows recorded from the real routines at N = 1..2048 validated by TLC in exact Word32 arithmetic (Table_C11)",
        text="TLC proves on the specification that the code-shaped operators (two-loop schoolbook, Karatsuba recursion with cut-off and hand-zeroed middle slot, reduction, two-case monomial loops) "
             "equal the ring definitions for all basis pairs, all exponents a in [0,2N) and extreme dense vectors at N <= 32/64, incl. X^a X^b = X^(a+b), X^N = -1. The real degree-generic routines are run at "
             "every N in {1,...,2048}: all basis pairs (small N), boundary pairs and few-term extreme polynomials (large N), dense products (N <= 32/64), every a in [0,2N) for the three monomial routines, "
             "and the coefficient-wise operations with p incl. INT32_MIN; TLC recomputes each result from the definition with 16-bit-limb arithmetic and compares exactly.",
        note="Trusted: TLC, Word32 limb arithmetic (itself exercised by all rows). Dense 1024-term products are not recomputed by TLC (cost); large N is covered through bilinearity-style sparse inputs.",
        design="§6 C11"),
}

NOT_YET = {}
