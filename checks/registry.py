"""Single source of MANIFEST.json: run `bin/mkmanifest` after editing."""

CHECKS = {
    "C13": dict(
        category="model_checking",
        technique="TLA+ spec TorusW (as-implemented vs as-stated operators) checked exhaustively by TLC over the W-bit torus; "
                  "rows recorded from the real routines on the embedded grid and on full-width edge families validated by TLC (Table_C13)",
        text="TLC enumerates every phase of a W-bit torus (W=12 quick, 15 thorough) for each listed M and checks nearest-rounding, range, "
             "approxPhase = to o from, encode/decode identity on the as-implemented transcription; the real 32-bit functions are then driven "
             "over the same grid (embedded by x -> x*2^(32-W), where the W-bit routine is the 32-bit routine for power-of-two M) and over "
             "full-width neighbourhoods of every kind of rounding edge for M in the property's list and random M <= 2^15; every observed row "
             "is decided by TLC against the specification (equality with the model on the grid, nearest-rounding in exact limb arithmetic at full width). A third family interleaves the calls that make up a row with calls for other message-space sizes (state kept between calls). dtot32 is checked for periodicity at magnitudes 2^20 to 2^51 (arguments chosen so that the sum is exact in a double).",
        note="Trusted: TLC, the harness printing what the functions return. M = 2^31 is not representable in int32_t Msize (covered up to 2^30). "
             "Full 2^32 enumeration of phases is not done at full width; the embedding argument plus edge families stand in for it.",
        design="§6 C13"),
    "C12": dict(
        category="model_checking",
        technique="TLA+ spec Gadget (as-implemented decomposition incl. the dirty-buffer window) checked exhaustively by TLC; "
                  "rows recorded from tGswTorus32PolynomialDecompH / tGswTLweDecompH (optim AVX2 asm and debug scalar builds) validated by TLC (Table_C12)",
        text="TLC checks, for every value of the W-bit torus and a grid of layouts (W = l*Bgbit+1 and W = l*Bgbit), that the transcribed decomposition yields balanced digits "
             "recomposing within the truncation bound, and on a small buffer machine that the input is dirty only inside the add-offset/remove-offset window and restored at the end. "
             "The real routines are driven over the embedded grids (equality with the model, digit for digit) and, for 15 layouts incl. l*Bgbit = 32 and Bgbit in {1,2,16}, over full-width "
             "carry/wrap/random families at degrees 8,16,64,1024 and through the TLWE wrapper (k = 1,2); each coefficient row (input, digits, input-after) is decided by TLC. The TLWE wrapper is also driven with every pattern of identically zero polynomials into a pre-filled output buffer, all layouts back to back in one process (forward and reversed), and by four threads at once.",
        note="Trusted: TLC; harness prints what the routine leaves in memory. The 2^32 full-width enumeration is replaced by the embedding argument (exact for W >= l*Bgbit) plus edge families; "
             "default layouts (3,7),(2,10) are enumerated on the code with a stride in the quick tier.",
        design="§6 C12"),
    "C11": dict(
        category="model_checking",
        technique="TLA+ spec Ring (definitional negacyclic product vs transcribed schoolbook/Karatsuba/monomial loops) model-checked by TLC; "
                  "rows recorded from the real routines at N = 1..2048 validated by TLC in exact Word32 arithmetic (Table_C11)",
        text="TLC proves on the specification that the code-shaped operators (two-loop schoolbook, Karatsuba recursion with cut-off and hand-zeroed middle slot, reduction, two-case monomial loops) "
             "equal the ring definitions for all basis pairs, all exponents a in [0,2N) and extreme dense vectors at N <= 32/64, incl. X^a X^b = X^(a+b), X^N = -1. The real degree-generic routines are run at "
             "every N in {1,...,2048}: all basis pairs (small N), boundary pairs and few-term extreme polynomials (large N), dense products (N <= 32/64), every a in [0,2N) for the three monomial routines, "
             "and the coefficient-wise operations with p incl. INT32_MIN; TLC recomputes each result from the definition with 16-bit-limb arithmetic and compares exactly. The Karatsuba entry points are also called with the result being the torus operand, and the outputs of from-scratch routines are pre-filled with garbage."
             " Norms and distances (sum of squares in both implementations, largest integer distance, largest torus distance with the wrap at 1/2) are rows of the same table.",
        note="Trusted: TLC, Word32 limb arithmetic (itself exercised by all rows). Dense 1024-term products are not recomputed by TLC (cost); large N is covered through bilinearity-style sparse inputs.",
        design="§6 C11"),
    "C14": dict(
        category="model_checking",
        technique="TLA+ spec LweScheme (operations + the AVX2 subtraction's footprint) model-checked by TLC; rows from the real LWE/TLWE routines with red-zoned arrays, "
                  "every n in 1..40 and {500,630,1023,1024,1025,2048}, every extraction index, validated by TLC at full width (Table_C14)",
        text="TLC checks on all samples/keys/multipliers of a small instance that each LWE operation is a phase homomorphism with the stated variance rule, and that the 8-lane subtraction "
             "of the optimised build touches exactly words 0..n-1 for every n (the pinned do-while variant is rejected: that is defect D2, repaired). The real routines (optim AVX2 and debug builds) are run "
             "on random and extreme samples for every listed dimension with masks placed in red-zoned buffers; TLC recomputes every output coefficient, the library's own lwePhase values, the variance "
             "annotation and requires zero damaged guard words. TLWE operations (N in 2..1024, k in 1..3, incl. X^a-1) and tLweExtractLweSampleIndex for every j (dense with true TLWE phase for small N incl. "
             "non powers of two, boundary-crossing sparse samples for large N) are validated the same way. Negate and copy are also called with the result being the operand itself, and the TLWE monomial product is run first at exponents exactly 0, N, 2N-1, 1, N-1, N+1 into a result that held other data.",
        note="Trusted: TLC and the Word32 limb arithmetic; red zones are 32 words each side (an overflow farther away is not seen). Coefficient equality is checked, which is stronger than phase equality.",
        design="§6 C14"),
    "C08": dict(
        category="model_checking",
        technique="TLA+ spec LweScheme.KeySwitchCode (digit extraction with prec_offset, skip of digit 0, subtraction of rows) model-checked by TLC per layout; "
                  "real lweKeySwitch on noiseless keys from the real generator validated row by row by TLC (Table_C08)",
        text="For each layout of a grid TLC enumerates every mask value of the W-bit torus (W = t*basebit+1/+2), all keys, n_in up to 3, and checks that the extracted digits recompose to the nearest multiple "
             "(ties either way, carries across digits, wrap at the top) and that the output phase equals b - sum s_i Round(a_i) exactly, hence differs from the input phase by at most 2^-(t*basebit+1) per set key bit. "
             "The real routine is run with key-switching keys produced by lweCreateKeySwitchKey at noise 0 for 15 layouts (incl. basebit 1, t*basebit = 31) and dimensions incl. 1, 3, 9, 13: inputs on half-points, grid points, "
             "all-ones digits, just below 1/2 and just below 1; TLC checks the exact relation, the stated bound, every generated key row (digit-0 rows trivial), lwePhase consistency and intact red zones. One sample in eight is a noiseless trivial sample and one has every coefficient below the rounding precision (no row selected), switched into a result object that held a mask."
             " On a noisy key from the real generator the relation is stated exactly as well: phase_out = phase_in - rounding - the noise of the rows actually used, with the digits recomputed by TLC and the row noises read off the key under the secret keys.",
        note="Noise statistics of noisy keys are not part of this check (see C02/C07). Full 2^32 enumeration at 32 bits is replaced by the exhaustive W-bit model + boundary families.",
        design="§6 C08"),
    "C03": dict(
        category="model_checking",
        technique="TLA+ spec LweScheme (Encrypt/Decrypt with draws as arguments) model-checked by TLC; real encrypt/decrypt API round trips and chosen-error decryptions validated by TLC (Table_C03)",
        text="TLC checks on every sample, key, message and error of a small instance that decryption returns the encoding of the message nearest to the phase and inverts encryption whenever M*|e| < 1/2 "
             "(non powers of two included), and that trivial samples decrypt under every key. The real API is then exercised: lweSymEncrypt/Decrypt over n in {1,2,3,8,9,500,501,630,1024}, 20 message-space sizes, "
             "all messages for small M, noise at the decryptable maximum (M*alpha = 1/20), tiny and zero, interleaved; samples with chosen mask and error right up to the decoding radius; trivial samples; "
             "bootsSymEncrypt/Decrypt for both parameter sets; TLWE constant and polynomial messages (k = 1,2); TGSW integer and polynomial messages for four (k,l,Bgbit) and every Msize = 2^j <= Bg. "
             "Each row (message, encoding, phase, sample when small, decryption) is decided by TLC: decryption equals the message exactly and is the nearest-message encoding of the observed phase. TLWE and TGSW round trips use three keys per key object (fresh, re-generated in place, deleted and re-created), and four TGSW layouts are kept alive at once with the same message-space size used under one layout right after another.",
        note="Keys/seeds are sampled (seeded from VERIF_SEED). TLWE/TGSW run at N = 1024 only (the FFT back-ends hard-wire it). The TLWE/TGSW model-level theorem lives in RingScheme (C09).",
        design="§6 C03"),
    "C01": dict(
        category="model_checking",
        technique="TLA+ spec MachineP (phase-level register machine over the gate table of boot-gates.cpp, independent truth tables, explicit caps A1/A2) model-checked by TLC; "
                  "every gate call of the real library with real keys recorded and validated step by step by TLC (Trace_MachineP)",
        text="TLC computes all reachable states of the 3-register machine under all 14 gates, all aliasing patterns, extreme admissible input errors (+-3/64, which contains the property's +-1/32), extreme modulus-switch "
             "rounding and extreme output errors, and checks that every register decrypts to the plaintext interpreter's bit (Correct) and stays admissible (closure). Wrong-constant designs and a relaxed cap are rejected. "
             "The real gate API is then run, for both parameter sets in both orders in one process, on every gate x every input tuple x six kinds of admissible inputs (fresh, bootstrapped, injected error +-(1/32 - 16 sigma) "
             "in all sign patterns) plus aliased calls; each call is one event carrying the phases of all registers under the secret key, and TLC accepts the trace only if every event is a MachineP step "
             "(sign consistent with the rounded linear combination, |output error| < 3/64, bystanders bit-identical, generator untouched) with Correct/Admissible in every state. Round-4 additions: constants (noiseless inputs) as a seventh input kind, and every gate once with operands re-randomised (same phases) so that the body of the bootstrapped combination is exactly 0 (rounded body 0, the branch a debug build asserts on). The concrete level is bound too: the real gate functions are called on a cloud key set built from the embedded key material of the MachineC instance, and TLC recomputes the bit-exact reduced gate (linear combination, modulus switch, blind rotation, extraction, key switch; MUX as two bootstraps, sum and one key switch) for every recorded call."
             " The sweep includes inputs steered to barb = 0 and to exact rounding ties of the modulus switch.",
        note="A1/A2 are assumptions of the model, monitored on every recorded execution. Keys are sampled (VERIF_SEED). Quick: spqlios-fma optim (full), nayuki-portable optim and spqlios-fma debug (reduced); thorough: 5 back-ends x 2 builds x 3 seeds. "
             "The bit-exact reduced-size algorithm (MachineC) is model-checked and replayed here (gate rows) and under C04/C09 (bootstrapping, external product).",
        design="§6 C01"),
    "C02": dict(
        category="model_checking",
        technique="TLC reachability fixpoint of MachineP (arbitrary gate sequences, fan-out, in-place) + TLC-generated and structured netlists executed on the real library, "
                  "every gate event validated by TLC against MachineP with noise statistics accumulated as specification state (Trace_MachineP + TraceStats)",
        text="The model has no depth or history variable: TLC reaches the fixpoint of all gate sequences on 3 (thorough: 4) registers and checks that every wire decrypts to the plaintext evaluation and stays admissible. "
             "Programs are produced by TLC itself (random behaviours of the model written out by Gen_MachineP) and by structured generators (long in-place chains, ripple-carry adder + comparator fed back into itself, "
             "multiplexer trees with heavy fan-out, random 8-register programs with re-loads incl. maximally noisy admissible inputs) and executed with real keys for both parameter sets; TLC validates every event as a MachineP "
             "step (so every wire of every circuit is decrypted against the plaintext interpreter), and accumulates per parameter set, gate family (binary / MUX) and input class (fresh / depth >= 10 / noisy / other) n, sum e, sum e^2, max; "
             "acceptance: sd <= bound(1+8/sqrt(2n)), |mean| <= bound/4 + 8 bound/sqrt(n), max < 3/64, class variances pairwise within 8 sigma. The quick tier runs one process per first-use order of the two parameter sets (80 then 128, 128 then 80); the repository's own integration programs test-addition-boot and test-long-run are built unmodified, recorded through an LD_PRELOAD shim of the gate API and validated as MachineP behaviours."
             " For the mean clause 'for all key seeds', separate processes run 2800 gates under one key each (three key seeds quick, twelve thorough) and every trace is validated on its own, so that a bias that belongs to a key is not diluted.",
        note="Statistical clauses are hypothesis tests with >= 8 sigma wide regions (quick: ~1500 gate outputs on spqlios-fma; thorough: five back-ends, ~10^4 outputs on the fast ones). Degradations below ~10-20 % of the bound are not detected.",
        design="§6 C02"),
    "C15": dict(
        category="model_checking",
        technique="Frame conditions of MachineP / MC_Gadget model-checked by TLC; every evaluation entry point of the real library called with every aliasing pattern, "
                  "content hashes of all inputs, keys, parameters and the generator before/after validated by TLC against Trace_Eval (frame + output-is-a-function memo) and Trace_MachineP",
        text="In the specification every evaluation action changes the destination register only and is enabled when the destination is one of the sources (TLC enumerates all aliasing patterns); the decomposition's "
             "dirty window on its const input closes inside the call (MC_Gadget). On the real library all 14 gates (patterns none, r=a, r=b, r=c, a=b, all), tfhe_bootstrap(_woKS)(_FFT), blindRotateAndExtract(_FFT) with an "
             "arbitrary test polynomial, blindRotate_FFT, lweKeySwitch, extraction and the three external products are called; each call is an event with 62-bit content hashes of every input, of the complete cloud key "
             "(bk, bkFFT incl. Lagrange data, both key-switching keys) and parameters before and after, of the output, and a generator-state comparison. TLC requires: non-aliased inputs, keys, parameters unchanged; generator "
             "unmoved; and the output equal to the memoised output of any earlier call with the same (operation, key, inputs) -- which makes every aliased call agree bit for bit with its non-aliased twin. The TGSW-level entry points (external product, both decompositions, the FFT external product in place) are run under eight layouts incl. l = 1, l*Bgbit = 32 and k = 2 with snapshots of the TLWE input, the TGSW sample and the parameters."
             " Inputs steered so that the body of the bootstrapped combination is exactly a rounding tie of the modulus switch are part of the program (a tie must not be broken by a draw from the generator).",
        note="Equality is decided on 62-bit hashes (collision probability negligible). Quick: 128-bit set on spqlios-fma and 80-bit set on nayuki-portable (optim); thorough: five back-ends, both sets, two debug builds.",
        design="§6 C15"),
    "C19": dict(
        category="model_checking",
        technique="TLA+ spec Params (transcribed lambda dispatch vs documented thresholds, documented sets as records, structural constraints, noise formulas in a rounded-up floating-point emulation) "
                  "model-checked by TLC for every lambda; every field returned by the real function for every lambda validated by TLC (Table_C19)",
        text="TLC checks for every lambda in [-5,300] and the int32 extremes that the transcribed selection equals the documented mapping (1..80 -> 80-bit set, 81..128 -> 128-bit set, otherwise abort), never returns a weaker set, "
             "is monotone, and that both documented sets satisfy the structural constraints and keep the analytic gate-output variance below the quoted bound with >= 12 sigma of margin at every gate (incl. XOR/XNOR and the "
             "modulus-switch rounding). The real function is called for every lambda in a forked child; the outcome (return / abort signal) and every field of the returned set -- dimensions, decomposition parameters, derived fields "
             "(Bg, halfBg, maskMod, kpl, h[], extracted n), and the noise levels as exact IEEE mantissa/exponent plus their decimal rendering -- are compared by TLC with the documented records, and the noise formulas are re-evaluated on the returned values.",
        note="The 80-bit set is documented only in the source comments. The noise formula is the standard average-case TFHE variance; the property's 'bound' constants are taken from the property text.",
        design="§6 C19"),
    "C05": dict(
        category="model_checking",
        technique="TLA+ specs Serial (the export grammar at the granularity of transport calls) and Transport (byte-level writer / cut / reader; block-wise writer and EOF-tolerant reader rejected) model-checked by TLC; recorded export/import/re-export round trips of the real library "
                  "validated call by call by TLC (Trace_Serial), functional equivalence of re-imported keys via the Trace_Eval memo",
        text="Serial describes, for each of the 15 exportable object types, the exact sequence of calls the writers make on the transport (text lines in std::map order, 4-byte tags, raw arrays, the variance stored once). "
             "The real API is driven through call-logging sinks (a streambuf for C++ streams, fopencookie for FILE): every type, both transports, parameter values incl. the default sets' 2^-15, 2^-25, 2.44e-5, 7.18e-9 and a sweep 1e-12..0.5, "
             "extreme coefficient contents, objects alone and 2-3 back to back in one stream, twin parameter sets and chains of sets that differ from the one imported just before in a single noise level, arrays of exactly 64 KiB, one word more, and 128 KiB. TLC validates that each call is the next call of Serial!Export, that every property line parses back to exactly the object's field (reals by IEEE mantissa/exponent), "
             "that import consumes exactly the object's bytes with a good stream and yields equal fields and contents (key rows with the common maximum variance, also when the maximum sits on a digit-0 row), and that re-export is byte-identical. "
             "A default-parameter secret key set is exported and re-imported (and its cloud part separately) and gates/decryptions under original and re-imported keys must agree bit for bit. Recorded exports are tokenised from their bytes (text sections line by line, each maximal binary stretch as one run with length and leading tag) and compared with Serial!Canon of the segment grammar, so the validation does not depend on how the writer groups its calls.",
        note="Contents are compared through 62-bit hashes. Defect D1 (reals printed with %.8lf) was found by this check and repaired (fix: commit in /repo). Default-size key sets are part of the call-level trace in the thorough tier only.",
        design="§6 C05"),
    "C17": dict(
        category="model_checking",
        technique="Serial!ExpCloud / ExpSecret model-checked by TLC (strict prefix, no secret section, size formula); real cloud and secret exports validated call by call (Trace_Serial) and by a content report (Table_C17)",
        text="TLC checks over a grid of parameters that the cloud export is a strict prefix of the secret export, contains no secret-key section and has the binary size given by the formula. On the real library, key sets generated by the real generator "
             "(small custom sets with n >= 32 and the default sets) are exported on both transports: the call sequence must be exactly Serial!ExpCloud (nothing appended or interleaved), the binary size must equal the formula, the cloud bytes must be a byte prefix of the secret bytes, "
             "the secret export must add exactly the LWE-key and TGSW-key sections, the LWE key bits and ring key coefficients must not occur in the cloud bytes in the int32 encoding the library uses nor byte-per-bit / bit-packed (a control search finds them in the secret export), "
             "and importing the cloud bytes consumes exactly them and yields a key that has both evaluation keys. The text part of an export is found in the bytes (BEGIN/END spans), not by write call. Three transports are observed: streams, FILE with secret before cloud, and FILE with both files open at once (cloud first, closed last); the cloud key is also exported while another thread exports the secret key set, and must have the bytes of the sequential export. A larger odd-sized set (n = 887, k = 2, l = 1) joins the small custom sets."
             " Custom key sets include key-switching layouts and noise levels at the extremes (31x1; 12x2 with noise 1e-3 and k = 2; 15x2).",
        note="'Contains no secret' is decided for the encodings searched; an arbitrary transformation of the key hidden in the mask coefficients is outside any byte search (the call-level grammar leaves no room for extra bytes, which bounds this).",
        design="§6 C17"),
    "C18": dict(
        category="fault_enumeration",
        technique="Fault enumeration over the Serial grammar: every byte offset (crash point of the writer), every A-for-B substitution, every single-byte corruption of tags and titles; "
                  "each case imported in a forked child; the observed outcome decided by TLC against Serial!AllowedOutcome (Table_C18)",
        text="For each of 13 small-parameter object types every proper prefix of the export (all byte offsets), for key sets at N = 1024 all offsets of the text parts, section boundaries, tags and a stride through the payload, "
             "on both transports; every export fed to every other type's importer; every byte of every tag and of every BEGIN/END line flipped. The import runs in a forked child and reports: terminated by signal / non-zero exit / "
             "returned with failed stream / returned clean (plus whether the object equals the original). TLC accepts 'clean' only for the intact stream (control: must be clean and equal), for a stream that begins with a complete well-typed "
             "export of the requested type (decided from Serial!Export), and for the one named deviation of the code (AcceptMissingFinalNewline: stream transport, trailing text section, only the final newline missing, complete object). A degenerate shape without mask polynomials (k = 0, key sections are a bare tag) is part of the small-parameter grid.",
        note="Exhaustive over offsets for small-parameter objects, strided for large ones. Memory safety of the importer while failing is not decided here.",
        design="§6 C18"),
    "C06": dict(
        category="model_checking",
        technique="TLA+ spec Threads (per-thread FFT processors with explicit scratch buffers, three-step transforms, FFTW planner mutex, thread exit) model-checked by TLC over all interleavings; "
                  "hook events + per-evaluation content hashes from real multi-threaded runs validated by TLC (Trace_Threads = ownership/lock discipline by identity + Trace_Eval function memo)",
        text="TLC explores every interleaving of three threads each constructing its processor, doing two transforms (load scratch / run / read scratch as separate steps) and exiting, for the structure of each back-end as implemented: "
             "scratch buffers are never shared, every transform returns its own data, at most one thread is inside the FFTW planner, all threads finish; the designs 'destructor outside the planner mutex' (the pinned code, defect D5, repaired) and "
             "'one shared processor', 'twiddle tables published once and freed by the processor that built them' (TablesAlive) and 'evaluation temporaries shared by all callers' (Deterministic) are rejected. On the real library 1..64 threads (oversubscribed, random yields, created and destroyed in rounds, four different histories per thread, one thread generating keys meanwhile; in every other run the library's first user is a helper thread that generates the key, computes the sequential reference and exits before any worker starts) evaluate gates and a "
             "1/4-message bootstrapping with one shared cloud key; hooks (guard TFHE_VERIF) report processor construction/destruction, which processor and scratch buffer each thread ran its transforms on, and the planner critical sections, ordered by a global atomic counter. "
             "TLC requires that every thread used only the processor it constructed itself (identity, not timing), that every planner call was made by the holder of the mutex, that joined threads' processors were destroyed, and that every output equals the memoised output "
             "of the same (operation, key, inputs) on any other thread, after any history, and in the sequential reference run. The evaluation mix includes the coefficient-domain bootstrapping (tGswExternMulToTLwe / tfhe_blindRotate), with its sequential reference. Workers also multiply in Lagrange workspaces that another thread allocated (the transforms must still run on the calling thread's processor: judged by identity through the hooks), and two inputs are re-randomised so that NAND's combination has body exactly 0."
             " A storm phase runs eight evaluators released together by a barrier before every single evaluation (150 each) while two client threads encrypt, decrypt and encode with other message spaces on the same keys; every result is held to the memoised reference. The very first use of the library in a fresh process by eight threads at once is specified in SharedInit.tla (guarded static initialisation of the process-lifetime processor; two wrong designs rejected) and validated on traces (one ProcShared event per process, every polynomial points at that processor).",
        note="Exhaustive for the model; sampled schedules for the code (quick: spqlios-fma, nayuki-portable, fftw; thorough: five back-ends + debug builds). Data races that change neither identities nor results are not observable this way.",
        design="§6 C06"),
    "C04": dict(
        category="model_checking",
        technique="TLA+ spec RingScheme (bit-exact reduced-size TLWE/TGSW, blind rotation with the code's loop structure, extraction, modulus switch, key switch) model-checked by TLC; "
                  "the same behaviours replayed on the real N = 1024 code through the embeddings x->x*2^(32-W), X->X^(1024/N') and validated row by row by TLC (Table_C04); full-size sweep on trivial key material (Table_C04F)",
        text="On reduced instances (W = 4..5, N' = 8..16, k in {1,2}, n in {1,2,3}) TLC evaluates the transcribed bootstrapping on every b of the grid, masks over a covering set and three output messages and checks that the phase under the extracted key is exactly "
             "+mu iff the rounded phase p lies in [0,N), that the key-switched result has the same phase, and that blind-rotate-and-extract with an arbitrary test polynomial returns the p-th coefficient of its anticyclic extension (a design with the test vector rotated "
             "the wrong way is rejected). Key material of the instance is then dumped by TLC and loaded into the real structures through the two embeddings; the real tfhe_bootstrap_woKS_FFT / _FFT / coefficient-domain variants and tfhe_blindRotateAndExtract(_FFT) run on the embedded inputs "
             "and TLC recomputes the model for every row and compares the observed phase under the embedded model keys within 256 units of 2^-32. At full size (N = 1024) on trivial key material, where the model state is only p, all 2N rounded phases, both rounding edges, masks steering p next to the "
             "sign boundaries, n in {1,2,8,630,1030 > N}, k in {1,2} and several (l,Bgbit) are swept; TLC recomputes p with the 32-bit modulus switch and requires +mu iff p in [0,N) and an untouched (zero) output mask. At full size with keys from the library's generator (uniform masks) the same rule on the rounded phase is checked under layouts up to Bgbit = 16 and k = 2 (rows 'real', 2^26-unit region with the stated noise budget), and the trivial-key sweep is repeated as a sequence of seven configurations in one process with the parameter objects re-initialised in the same storage.",
        note="Defect D3 (scratch array sized by N instead of n: heap corruption at n = 1030) was found by the full-size sweep and repaired. Real noisy keys at the real parameters are covered at the phase level by C01/C02. Inputs reaching through the ring embedding lie on the 2N' grid.",
        design="§6 C04"),
    "C09": dict(
        category="model_checking",
        technique="RingScheme external product / CMux / blind rotation model-checked by TLC (exact equalities on noiseless rows); real coefficient-domain and FFT-domain routines replayed through the embeddings and validated by TLC (Table_C04 rows ext/rot)",
        text="TLC checks on the reduced instances that phase(ExtProd(TGSW(m), c)) = m * phase(c) exactly for m in {0, 1, -1, X^j (every j), a small-norm polynomial}, every value and position of a chosen body coefficient and three mask sets, for k = 1 and 2, and that blind rotation "
             "multiplies the accumulator phase by X^(sum bara_i s_i) for exponent vectors incl. 0, 1, N'-1, N', N'+1, 2N'-1 entries. The TGSW samples, TLWE samples and bootstrapping key of the instance are embedded into the real structures; tGswExternMulToTLwe, tGswFFTExternMulToTLwe, tGswExternProduct, "
             "tfhe_blindRotate, tfhe_blindRotate_FFT (whole and one key element at a time) run on them; TLC recomputes the model per row and requires every coefficient of the observed phase on the embedded sub-ring to match within 256 units of 2^-32 and nothing to leak outside the sub-ring. "
             "Since FFT images are produced by the real tGswToFFTConvert from the coefficient-domain samples, agreement of both variants with the same model shows the FFT key is a faithful image. At full size, noiseless TGSW encryptions of +-X^j with uniform masks are multiplied (FFT in place, coefficient domain in place, coefficient domain into a separate result) with TLWE samples with random and extreme coefficients under seven (thorough: twelve) layouts incl. Bgbit = 16, l*Bgbit = 32, k = 2; TLC checks phase(product) = +-X^j phase(sample) at sampled positions within the analytic bound (decomposition + TGSW row noise + FFT). The reduced instance with three key elements is replayed one key element at a time, and one instance is replayed by four threads at once. The coefficient-domain external product into a separate result is repeated sixteen times on one const operand before its phase is taken (the operand must not drift)."
             " The TGSW sample itself is specified as an algebraic object (TGswAlg.tla over RingScheme: clear, + H, + mu*H, trivial, (X^a - 1)*, decryption, Lagrange image and back, gadget added in the Lagrange domain, fresh encryptions; invariants WellFormed and DecryptReadsMessage, exhaustive for short sequences at k = 1, 2); TLC-generated operation sequences are executed on the library at N = 1024 through the embeddings and every step is validated (Trace_TGswAlg).",
        note="The noisy-row clause (statistical bound) is observed through the gate-output statistics of C02, not here. Exactness relies on LL*BGB = W in the replay instances (no truncation).",
        design="§6 C09"),
    "C10": dict(
        category="exploration",
        technique="TLA+ spec FFTLagrange (register machine whose Lagrange registers denote exact integer polynomials with an error budget); TLC-generated programs executed on each back-end and validated step by step by TLC (Trace_FFT); "
                  "dense input families validated against tolerances that are specification constants (Table_C10)",
        text="TLC generates random programs over the ten Lagrange-domain operations (both inverse transforms, forward transform, clear, add, multiply, multiply-add, multiply-subtract, set/add torus constant) from the specification; each program runs on all five back-ends "
             "through the embeddings and TLC replays it on the model, requiring every forward transform to return the register's exact content mod 2^32 within the register's budget (1 unit per round trip, 2 per product) and nothing outside the embedded sub-ring. "
             "For the dense families the property names (B in {1,2^6,2^9,2^15,2^20} x integer families x torus families incl. all INT32_MAX and alternating INT32_MIN/MAX) the FFT product, multiply-accumulate, multiply-subtract, the inverse/forward round trip and two Lagrange-domain "
             "compositions are compared with the library's exact Karatsuba routine (bound to the ring definition by C11); TLC accepts a row iff every deviation is within FftTol(B) = 2 (1 for the round trip), growing as 2B/2^9 above 2^9. Each dense case runs in its own child so that an assertion of a debug build is itself an observation. Generated programs may use the destination register as one of the operands of Mul / AddMul / SubMul.",
        note="Exploration level: inputs are sampled families, and why a kernel achieves 2 units is numerical analysis outside TLA+. Found and repaired: D7 (spqlios-avx SubMul register typo). Recorded finding D6: debug builds of the nayuki back-ends abort in check_alternate_real on large-magnitude inputs (see known-findings.txt).",
        design="§6 C10"),
    "C07": dict(
        category="exploration",
        technique="Trace specification Trace_Noise over TraceStats: running moments / maxima / histograms as TLA+ state with acceptance regions as predicates, and a memo formulation (Functional / Fresh / Seed) of the library generator as hidden state; "
                  "events recorded from the real sampler, encryptions and key generators validated by TLC",
        text="Generator: the harness re-seeds with the same seed twice and with different seeds, generates keys, encrypts the same message repeatedly and builds a complete gate key set; each randomised call is an event with the generator token before/after "
             "and hashes of arguments and output. TLC requires the output and next token to be a function of (call, token, arguments), the token to advance, outputs from different tokens to differ, and re-seeding to be a function of the seed -- so a second randomness source, "
             "state surviving a re-seed, or a reused mask are rejected. Distribution: phase errors (computed with the secret keys) of fresh LWE/TLWE/TGSW samples for alpha in {2^-30,...,2^-5, 0}, of every non-zero-digit row of the generated key-switching key and of sampled bootstrapping-key rows "
             "(x1024 coefficients) for both default sets generated in one process are streamed in units of alpha/64; TLC accumulates n, sum, sum of squares, max per stream and accepts iff sd = 64 within 8 estimator sigma plus the 2^-32 discretisation (both sides), |mean| <= 8 sigma/sqrt(n), "
             "max < 10 sigma, the mask top-bits histogram is uniform within 8 binomial sigma, alpha = 0 gives exactly zero error, key bits are balanced, and digit-0 key-switching rows are exactly trivial. Every mask is also compared coordinate by coordinate with the previous one (a repeated coordinate has probability 2^-32), for LWE dimensions 1, 7, 64, 501, 631, for lweSymEncryptWithExternalNoise, and for a key-switching key with odd output dimension from the public generator. Each stream also reports how many errors are exactly 0 (a clipped or skipped noise term shows as a pile of zeros), and the external-noise entry point is driven with messages at and next to 1/2 and caller-supplied noise of either sign."
             " Further statistics per stream: two equal errors in a row (repeated noise values), per-input-coefficient block sums of every key-switching key (noise centred over the key, not per coefficient), and key-switching keys with t*(base-1) = 1..4.",
        note="Statistical acceptance, not proof (false-alarm probability < 1e-14 per statistic; a 15 % change of a key row noise level is detected at the quick sample sizes). Distribution shape beyond two moments, maximum and a coarse histogram is not decided.",
        design="§6 C07"),
    "C16": dict(
        category="model_checking",
        technique="TLA+ spec Mem (footprints vs allocation sizes over the parameter matrix; ownership/lifecycle heap machine) + LweScheme!SubToFootprint + Threads!ReleasedOnExit model-checked by TLC; "
                  "API lifecycles over the matrix executed under an allocation ledger (red zones, two fill patterns, poison-on-free) and validated by TLC (Trace_Mem); "
                  "TLA+ spec Life (lifecycle machine of the public API) checked exhaustively by TLC, its TLC-sampled behaviours replayed on the library under the ledger and validated step by step (Trace_Life)",
        text="Specification: for every n of the matrix {1,...,1100} the bootstrapping scratch footprint lies inside its allocation (the pinned 'new int32_t[N]' design is rejected: defect D3), the 3-level key-switch index is in bounds and injective, Karatsuba's scratch fits its 16N bytes, "
             "the 8-lane subtraction touches exactly words 0..n-1 (pinned do-while design rejected: D2); the ownership machine of a key set (params, keys, bk, its key-switching key, the FFT key and its own copy) admits no use after free under any order of keygen/evaluate/delete calls "
             "(a design where the FFT key aliases bk's key-switching key is rejected), and a thread's processor allocations are all released at exit (the pinned spqlios destructor is rejected: D4). "
             "Code: an allocation ledger interposed in the harness (malloc/new/memalign..., 64-byte red zones, fresh memory filled with 0xA5 or 0x5A, freed memory poisoned and quarantined) runs, for each configuration of the matrix x k in {1,2} x four valid layouts, the whole lifecycle "
             "new/keygen/encrypt/all gate kinds/decrypt/export/import/evaluate with the imported key/delete in three orders (incl. deleting the coefficient key and continuing with the FFT key), the object allocation API, and thread create/exit; "
             "TLC requires zero damaged red-zone bytes, no double free, no crash, plaintext-correct results, identical result/export hashes under both fill patterns, and nothing alive once the thread that ran a whole lifecycle (after a first run in the same process) has exited; "
             "configuration sequences on one thread and gates on noiseless constants are part of the scenarios. 'Every order the API allows' is the TLA+ machine Life (6 objects, 3 blobs, the collector; guards = what must be alive): TLC checks NoDangling/DeadIsEmpty/NoStuck for all behaviours up to 9 (thorough: 11) calls and for both "
             "parameter kinds, samples ~20 (thorough: ~250) long behaviours, and every one is replayed by h_life; Trace_Life accepts a replay only if each step is an enabled Life action, each decryption returns Life's plaintext, gate outputs are one function of (key, gate, inputs) across generated and re-imported key objects and across runs, "
             "key exports are byte-identical, and the windows are clean. A third pass runs the small configurations, the sequences and a polynomial-routine scenario (monomial products at exponents 0, 1, N-1, N, N+1, 2N-1, Karatsuba, naive and FFT products) with every 1-64 KiB block ending on an inaccessible page."
             " The four-phase object API of all seventeen structure types (alloc / init / destroy / free, new / delete, single and array forms: 204 functions) is the slot machine ObjLife.tla; TLC-generated call sequences run under the ledger and Trace_ObjLife books the per-call readings on the slot and holds the account to conservation (an empty slot holds nothing; raw memory holds the same every time, so init / destroy cycles do not grow; nothing damaged or freed twice; nothing alive at the end). Life replays assign every step an executor (the run's thread or a one-step helper thread) and every export / import a transport (std::iostream or FILE*). Thread create / exit histories x object lifetimes: a Lagrange polynomial created by a thread that has exited and then used by another (probe 1) and the concurrent first use (probe 2) are decided by identity in Trace_Threads (PolyNew / PolyUse / PShared); Threads.tla keeps the pinned design (PolyProc = creator, violates PolyProcAlive: defect D8) and the repaired one.",
        note="PARTIAL: decides heap out-of-bounds writes within 64 bytes of a block, leaks, double frees, uses of uninitialised/freed heap memory that change a result or an export, and - in a third pass where every block of 1 to 64 KiB ends on an inaccessible page - any access (reads included) past the end of a coefficient or sample array. NOT decided: out-of-bounds reads before a block or past the end of smaller blocks, stack accesses, accesses far outside a block, "
             "anything inside hand-written assembly that stays in mapped memory. The ASan/UBSan/Valgrind configurations named by the property are a different technique and are not run. Found and repaired through this family of checks: D2, D3, D4, D8 (a Lagrange polynomial used after its creating thread exited read that thread's destroyed FFT processor; decided by identity in Trace_Threads!PolyUse; fix 0f4e6fe).",
        design="§6 C16, §7"),
    "C20": dict(
        category="other",
        technique="Cross-configuration conformance replay: one driver compiled as C99 and as C++11 against each of the ten library builds, exported-symbol tables, and a C99 link test, validated by a TLA+ memo specification (Trace_Compat)",
        text="The check prints, through a C99 and a C++11 compilation of the same driver, sizeof and offsetof of every field of the 20 public structures and the observations of one seeded API behaviour (key generation, encryption, a gate, decryption, reads of struct fields through the headers, export of the cloud key); "
             "it extracts the exported symbols of the five variants x two builds with nm, the functions the headers declare to a C99 compiler, and links a C99 program referencing every exported API function against every variant. TLC validates the event stream against a memo specification: layouts identical in both views, "
             "portable observations identical across all variants and views, back-end dependent ones identical across the views of a variant, no variant missing a function another one exports, no API function exported only with C++ linkage, every link succeeds. The driver also calls the public polynomial / Lagrange API (MultFFT, AddMulRFFT, SubMulRFFT, LagrangeHalfCPolynomialMul / AddMul / SubMul / AddTo / AddTorusConstant with the transforms) on inputs whose exact results lie on a 2^16 grid; the results rounded to that grid are portable observations across all ten builds and both views."
             " The Lagrange products are also observed with the result or the accumulator being one of the operands, under the key of the three-object call.",
        note="Conformance testing across configurations with very little specification content; level 'other'. The literal symbol-table and header-compilation clauses are observed through compilers and nm, which is outside what a TLA+ specification can derive.",
        design="§6 C20, §7"),
}

HOOK_COMMITS = ["f8e83e6", "cb256e3", "b91a02d"]

NOT_YET = {}
