"""Single source of MANIFEST.json: run `bin/mkmanifest` after editing."""

CHECKS = {
    "C13": dict(
        category="model_checking",
        technique="TLA+ spec TorusW (as-implemented vs as-stated operators) checked exhaustively by TLC over the W-bit torus; "
                  "rows recorded from the real routines on the embedded grid and on full-width edge families validated by TLC (Table_C13)",
        text="TLC enumerates every phase of a W-bit torus (W=12 quick, 15 thorough) for each listed M and checks nearest-rounding, range, "
             "approxPhase = to o from, encode/decode identity on the as-implemented transcription; the real 32-bit functions are then driven "
             "over the same grid (embedded by x -> x*2^(32-W), where the W-bit routine is the 32-bit routine for power-of-two M) and over "
             "full-width neighbourhoods of every kind of rounding edge for M in the property's list and random M <= 2^15; every observed row "
             "is decided by TLC against the specification (equality with the model on the grid, nearest-rounding in exact limb arithmetic at full width).",
        note="Trusted: TLC, the harness printing what the functions return. M = 2^31 is not representable in int32_t Msize (covered up to 2^30). "
             "Full 2^32 enumeration of phases is not done at full width; the embedding argument plus edge families stand in for it.",
        design="§6 C13"),
}

NOT_YET = {}
