"""C15 — evaluation leaves inputs and keys untouched, accepts aliased output, uses no RNG."""
import os
import random

from vlib import build, tlc, table, gates, progs
from vlib.common import CheckBroken, run as sh

LEVEL = "model_checking"


def eval_trace(ctx, be, kind, lam, reps, seed):
    exe = build.harness("h_eval", be, kind)
    tf = os.path.join(ctx.dir, "eval-%s-%s-%d.ndjson" % (be, kind, lam))
    with open(tf, "w") as f:
        rc, _, err = sh([exe, "--lambda", str(lam), "--reps", str(reps), "--seed", str(seed)], stdout=f, timeout=3000)
    return rc, err, tf


def validate_eval(ctx, tf, what, minhits=1):
    n = sum(1 for _ in open(tf))
    r = tlc.run_tlc("Trace_Eval", env={"TRACE": tf}, workers=1, workdir=ctx.dir, timeout=3000)
    if r.ok and r.depth == n + 1:
        ctx.add("events_validated", n); ctx.add("distinct_events", r.distinct - 1); ctx.add("traces_validated_against_impl", 1)
        return None
    if r.error and not r.violated and "ostcondition" not in r.out:
        raise CheckBroken("TLC failed validating %s: %s\n%s" % (what, r.error, r.out[-2000:]))
    r2 = tlc.run_tlc("Trace_Eval", env={"TRACE": tf}, workers=1, workdir=ctx.dir, timeout=3000)
    if r2.ok and r2.depth == n + 1:
        raise CheckBroken("TLC rejection of %s did not repeat" % what)
    k = max(1, r.depth or 1)
    ev = table.nth_line(tf, k)
    return {"violated": r.violated, "accepted_prefix": k - 1, "of": n, "event": ev}


def run(ctx):
    thorough = ctx.tier == "thorough"
    # 1. model: frame conditions are part of every MachineP action (all aliasing patterns enumerated); the decomposition's dirty window closes inside the call
    r = tlc.run_tlc("MachineP", workdir=ctx.dir, timeout=1800)
    if not tlc.expect_ok(ctx, r, "MachineP"):
        raise CheckBroken("MachineP violates %s" % r.violated)
    r = tlc.run_tlc("MC_Gadget", workdir=ctx.dir)
    if not tlc.expect_ok(ctx, r, "MC_Gadget"):
        raise CheckBroken("MC_Gadget violates %s" % r.violated)
    rm = tlc.run_tlc("MC_Gadget", constants={"Mutant": '"norestore"'}, workdir=ctx.dir, workers=2)
    if rm.violated != "DirtyOnlyInside":
        raise CheckBroken("spec mutant norestore not rejected: %r" % rm)
    ctx.add("spec_mutants_rejected", 1)
    ctx.sample({"model": "MachineP + MC_Gadget", "note": "every action leaves all registers but the destination unchanged; dst in srcs is enabled"})
    # 2. hash-level trace: every evaluation entry point, every aliasing pattern
    cfgs = [("spqlios-fma", "optim", 128, 1), ("nayuki-portable", "optim", 80, 1)]
    if thorough:
        cfgs = [(be, k, lam, 2) for be in ("spqlios-fma", "spqlios-avx", "nayuki-portable", "nayuki-avx", "fftw") for k, lam in (("optim", 128), ("optim", 80))] + [("spqlios-fma", "debug", 128, 1), ("fftw", "debug", 80, 1)]
    for be, kind, lam, reps in cfgs:
        rc, err, tf = eval_trace(ctx, be, kind, lam, reps, ctx.seed)
        if rc != 0:
            ctx.violation("h_eval died on %s/%s lambda=%d rc=%s %s" % (be, kind, lam, rc, err[-300:]), key="h_eval crash %s %s %d" % (be, kind, lam))
            continue
        bad = validate_eval(ctx, tf, "C15 %s %s %d" % (be, kind, lam))
        if bad:
            import json
            try:
                e = json.loads(bad["event"]); brief = {k: e[k] for k in ("op", "alias", "al", "rng")}
                brief["inputs_changed"] = [i for i in range(len(e["ins"])) if e["ins"][i] != e["insa"][i] and i not in e["al"]]
                brief["key_changed"] = e["key"] != e["keya"]; brief["params_changed"] = e["par"] != e["para"]
            except Exception:
                brief = (bad["event"] or "")[:300]
            ctx.violation("evaluation call violates frame/aliasing/no-RNG on %s/%s lambda=%d: %s (accepted %d of %d events)" % (be, kind, lam, brief, bad["accepted_prefix"], bad["of"]), detail=bad, files=[tf])
        else:
            ctx.sample(table.first_rows(tf, 1)[0])
    # 3. phase-level trace: bystander registers and the generator across a random program with in-place gates
    rnd = random.Random(ctx.seed)
    p = progs.Prog()
    progs.random_program(p, 128, ctx.seed, rnd, 8, 400 if thorough else 120)
    p.lines.pop()          # (re-open the segment) inputs whose combination is a rounding tie of the modulus switch: a tie must not be broken by a draw from the generator
    progs.tie_inputs(p, rnd); p.end()
    rc, err, pf, tf = gates.exec_program(ctx, p, "spqlios-fma", "optim", "frame")
    if rc != 0:
        ctx.violation("gate program died rc=%s %s" % (rc, err[-200:]), key="h_gates crash frame")
    else:
        bad = gates.validate_trace(ctx, tf, 8, what="C15 frame")
        if bad:
            ctx.violation("gate program rejected by Trace_MachineP (%s): accepted %d of %d, event %s" % (bad["violated"], bad["accepted_prefix"], bad["of"], (bad["event"] or "")[:200]), detail=bad, files=[pf, tf])
    ctx.assume("'bit-for-bit unchanged' is decided on 62-bit content hashes of every input object, of the whole cloud key (bk, bkFFT incl. Lagrange data, both key-switching keys) and of the parameters")
