"""C09 — external product multiplies messages; blind rotation rotates by the secret exponent."""
from vlib import table, tlc, tgsw, ringreplay as rr
from vlib.common import CheckBroken

LEVEL = "model_checking"


def run(ctx):
    thorough = ctx.tier == "thorough"
    r = rr.mc(ctx, rr.INST_A, "extprod")
    ctx.sample({"model": "MC_RingScheme extprod", "instance": rr.INST_A, "distinct_states": r.distinct})
    r = rr.mc(ctx, rr.INST_A, "rotate", avals="{0,1,7,8,9,15}" if not thorough else "{0,1,2,3,5,7,8,9,12,15}")       # exponent vectors incl. 0, N-1, N, 2N-1 entries
    ctx.sample({"model": "MC_RingScheme rotate", "distinct_states": r.distinct})
    rr.mc(ctx, rr.INST_B, "extprod")
    if thorough:
        rr.mc(ctx, rr.INST_B, "rotate", avals="{0,5,8,15}")
        rr.mc(ctx, rr.INST_C, "extprod")
        rr.mc(ctx, rr.INST_D, "extprod")
        rr.mc(ctx, rr.INST_E, "extprod")
        rr.mc(ctx, rr.INST_E, "rotate", avals="{0,1,7,8,9,15}")
    plans = [(rr.INST_A, "A", "spqlios-fma", "optim", 1), (rr.INST_B, "B", "nayuki-portable", "optim", 1), (rr.INST_A, "A", "fftw", "debug", 4),
             (rr.INST_C, "C", "spqlios-avx", "optim", 3)]          # n = 3 with key (1,0,1): rotation one key element at a time (see vlib/ringreplay.py)
    after_k2 = [("spqlios-fma", "optim"), ("nayuki-portable", "optim")] if not thorough else [("spqlios-fma", "optim"), ("spqlios-avx", "optim"), ("nayuki-portable", "optim"), ("nayuki-avx", "optim"), ("fftw", "optim")]
    if thorough:
        plans = [(rr.INST_A, "A", be, "optim", 1) for be in ("spqlios-fma", "spqlios-avx", "nayuki-portable", "nayuki-avx", "fftw")] + \
                [(rr.INST_B, "B", be, "optim", 1) for be in ("spqlios-fma", "fftw", "nayuki-avx")] + [(rr.INST_C, "C", "spqlios-avx", "optim", 2), (rr.INST_C, "C", "nayuki-portable", "optim", 3), (rr.INST_E, "E", "nayuki-avx", "optim", 2), (rr.INST_G, "G", "fftw", "optim", 3), (rr.INST_D, "D", "fftw", "debug", 1), (rr.INST_B, "B", "spqlios-fma", "debug", 2)]
    for inst, tag, be, kind, take in plans:
        bad, rows = rr.replay(ctx, inst, tag, be, kind, ("ext", "rot"), ctx.seed, take=take)
        if bad and "crash" in bad:
            ctx.violation("%s (%s/%s, instance %s)" % (bad["crash"], be, kind, tag), key="h_boot replay crash %s %s %s" % (tag, be, kind))
        elif bad:
            ctx.violation("external product / blind rotation on %s/%s deviates from the reduced model (instance %s): row %s" % (be, kind, tag, (bad["row"] or "")[:300]), detail=bad, files=[bad["rows_file"]])
        elif rows:
            ctx.sample(table.first_rows(rows, 1)[0])
    # a k = 1 instance right after a k = 2 instance in the same process and thread (scratch state kept between calls of different shapes)
    for be, kind in after_k2:
        bad, rows = rr.replay(ctx, rr.INST_A, "A2", be, kind, ("rot", "boot"), ctx.seed, take=3, before=(rr.INST_B, "B2"))
        if bad and "crash" in bad:
            ctx.violation("%s (%s/%s, k=1 after k=2)" % (bad["crash"], be, kind), key="h_boot replay crash A-after-B %s %s" % (be, kind))
        elif bad:
            ctx.violation("blind rotation / bootstrapping at k = 1 after a k = 2 evaluation in the same thread deviates from the model on %s/%s: row %s" % (be, kind, (bad["row"] or "")[:300]), detail=bad, files=[bad["rows_file"]])
    # the same instance replayed by four threads at once (evaluation temporaries shared between callers show here although every thread owns its data)
    for be, kind in after_k2[:2] if not thorough else after_k2:
        bad, rows = rr.replay(ctx, rr.INST_A, "A4", be, kind, ("ext", "rot"), ctx.seed, take=2, threads=4)
        if bad and "crash" in bad:
            ctx.violation("%s (%s/%s, four threads)" % (bad["crash"], be, kind), key="h_boot replay crash 4 threads %s %s" % (be, kind))
        elif bad:
            ctx.violation("external product / blind rotation evaluated by four threads at once deviates from the model on %s/%s: row %s" % (be, kind, (bad["row"] or "")[:300]), detail=bad, files=[bad["rows_file"]])
    # full size, real layouts (Bgbit up to 16, l*Bgbit up to 32, k = 2): noiseless TGSW encryptions of +-X^j with uniform masks, samples with random and
    # extreme coefficients; TLC checks phase(product) = +-X^j * phase(sample) position by position within the truncation bound of the layout
    from vlib import build
    from vlib.common import run as sh
    import os
    lays = [(1, 2, 10), (1, 3, 7), (1, 2, 16), (1, 1, 16), (2, 2, 15), (1, 2, 12), (2, 4, 8)] + ([(1, 3, 10), (2, 2, 10), (1, 4, 4), (2, 1, 16), (1, 8, 4)] if thorough else [])
    for be, kind in ([("spqlios-fma", "optim"), ("fftw", "optim")] if not thorough else [(b, "optim") for b in ("spqlios-fma", "spqlios-avx", "nayuki-portable", "nayuki-avx", "fftw")] + [("spqlios-fma", "debug"), ("fftw", "debug")]):
        exe = build.harness("h_boot", be, kind)
        f = os.path.join(ctx.dir, "extfull-%s-%s.ndjson" % (be, kind))
        with open(f, "w") as out:
            for (k, l, bg) in lays:
                rc, o, err = sh([exe, "extfull", "--k", str(k), "--l", str(l), "--bg", str(bg), "--cases", "36" if thorough else "18", "--seed", str(ctx.seed + l * 100 + bg)], timeout=3000)
                if rc != 0:
                    ctx.violation("full-size external product died (k=%d, l=%d, Bgbit=%d, %s/%s) rc=%s %s" % (k, l, bg, be, kind, rc, err[-200:]), key="h_boot extfull crash k=%d l=%d bg=%d %s %s" % (k, l, bg, be, kind))
                    continue
                out.write(o)
        bad = table.validate_rows(ctx, "Table_C04F", f, what="C09 extfull %s %s" % (be, kind))
        if bad:
            import json
            try:
                rw = json.loads(bad["row"]); brief = {q: rw[q] for q in ("f", "kk", "l", "bg", "j", "sgn", "pat")}
            except Exception:
                brief = (bad["row"] or "")[:200]
            ctx.violation("full-size external product (%s/%s) is not +-X^j * phase(sample) within the truncation bound: %s (f: 0 FFT, 1 coefficient domain in place, 2 coefficient domain)" % (be, kind, brief), detail={"row_index": bad["row_index"], "brief": brief}, files=[f])
    # "for every TGSW encryption of m": what a TGSW sample of m is, and that the library's own operations on TGSW samples (clear, + H, + mu*H, trivial,
    # (X^a - 1) *, decryption, the Lagrange-domain image and back) are the message maps of the specification: TGswAlg is checked exhaustively for short
    # operation sequences, TLC then samples long ones and h_tgsw executes them on the library (N = 1024, embedded values); Trace_TGswAlg validates every step
    for c in ("MC_TGswAlg.cfg", "MC_TGswAlg_k2.cfg"):
        r = tlc.run_tlc("MC_TGswAlg", cfg=c, workdir=ctx.dir, workers=4, timeout=1200)
        if not tlc.expect_ok(ctx, r, c):
            raise CheckBroken("specification TGswAlg (%s) violates %s" % (c, r.violated))
    ctx.sample({"model": "MC_TGswAlg", "distinct_states": r.distinct, "invariants": "WellFormed, DecryptReadsMessage"})
    rm = tlc.run_tlc("MC_TGswAlg", cfg="MC_TGswAlg_mut_bodyonly.cfg", workdir=ctx.dir, workers=2)
    if rm.violated != "WellFormed":
        raise CheckBroken("design mutant 'gadget added to the body block only' not rejected: %r" % rm)
    ctx.add("spec_mutants_rejected", 1)
    tplans = [("spqlios-fma", "optim", 0, 6), ("fftw", "debug", 1, 4), ("nayuki-portable", "optim", 2, 4)]
    if thorough:
        tplans = [(be, "optim", i, 24) for be in ("spqlios-fma", "spqlios-avx", "nayuki-portable", "nayuki-avx", "fftw") for i in (0, 1, 2)] + [("spqlios-fma", "debug", 1, 12), ("fftw", "debug", 2, 12)]
    for q, (be, kind, i, num) in enumerate(tplans):
        bad = tgsw.replay(ctx, be, kind, tgsw.INSTANCES[i], num, ctx.seed * 13 + q)
        if bad and bad.get("crash"):
            ctx.violation("h_tgsw died on %s/%s rc=%s %s" % (be, kind, bad["rc"], bad["err"]), key="h_tgsw crash %s %s" % (be, kind), files=bad["files"])
        elif bad:
            ctx.violation("TGSW operation sequence on %s/%s (instance %s) is not a behaviour of TGswAlg (%s): accepted %d of %d events, rejected event %s" %
                          (be, kind, tgsw.INSTANCES[i], bad["violated"] or "register contents / decrypted message / grid deviation differ from the specification",
                           bad["accepted_prefix"], bad["of"], bad["event"][:300]), detail={k: bad[k] for k in ("accepted_prefix", "of", "event")}, files=bad["files"])
    ctx.assume("noiseless TGSW rows with model-chosen masks give exact-up-to-FFT-rounding equalities (256 units of 2^-32); the statistical clause for noisy rows is covered by the gate-output statistics of C02")
    ctx.assume("coefficient-domain and FFT-domain variants, and blind rotation whole vs one key element at a time, are validated against the same model, hence agree")
