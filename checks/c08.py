"""C08 — key switching preserves the phase up to a bounded, unbiased error."""
import os

from vlib import build, tlc, table
from vlib.common import CheckBroken
from checks.c14 import mc

LEVEL = "model_checking"
LAYOUTS = [(8, 2), (15, 1), (31, 1), (2, 1), (16, 1), (1, 8), (3, 10), (5, 6), (14, 2), (4, 4), (2, 15), (10, 3), (7, 4), (1, 1), (6, 5)]


def run(ctx):
    thorough = ctx.tier == "thorough"
    # 1. specification: every mask value of the W-bit torus (W = t*bb+2 / +1), digits recompose to the nearest multiple, exact phase relation
    grid = [(2, 2, 6, 2), (4, 1, 6, 2), (1, 4, 6, 2), (3, 2, 8, 1), (8, 1, 10, 1), (2, 5, 12, 1), (3, 3, 10, 1), (1, 1, 3, 3), (5, 2, 11, 1)]
    if thorough:
        grid += [(8, 2, 18, 1), (7, 2, 16, 1), (3, 2, 7, 2), (2, 3, 7, 2), (1, 7, 8, 2)]
    tot = 0
    for (t, bb, W, nmax) in grid:
        r = mc(ctx, {"Mode": '"ks"', "W": W, "KT": t, "KB": bb, "NMax": nmax}, "MC_Lwe ks (%d,%d) W=%d" % (t, bb, W))
        tot += r.distinct
    ctx.sample({"model": "MC_Lwe", "mode": "ks", "layouts_W_nin": grid, "distinct_states": tot})
    mc(ctx, {"Mode": '"ks"', "W": 6, "Mutant": '"ksfloor"', "NMax": 1}, "ksfloor", expect="KSRoundsNearest", workers=2)
    # 2. the code: noiseless key from the real generator; boundary families (half-points, grid points, carry through every digit, sign and top wrap)
    for be, kind in [("spqlios-fma", "optim"), ("nayuki-portable", "debug")]:
        exe = build.harness("h_lwe", be, kind)
        f = os.path.join(ctx.dir, "ks-%s.ndjson" % kind)
        lay = LAYOUTS if (thorough or kind == "optim") else LAYOUTS[:6]
        with open(f, "w") as out:
            for (t, bb) in lay:
                part = f + ".part"
                big = thorough and t * (1 << bb) <= 256       # the key-switching key has nin * t * 2^basebit * (nout+1) words: full-size dimensions only where that fits
                nin = "1,2,3,9" + (",17" if thorough else "")
                nout = "1,3,8,9" + (",23" if thorough else ",13")
                rc, err = table.run_harness(ctx, exe, ["ks", "--t", t, "--bb", bb, "--nin", nin, "--nout", nout, "--samples", 100 if thorough else 40, "--seed", ctx.seed + t * 37 + bb], part)
                if rc == 0 and big:          # full-size dimensions: few samples (a row carries the whole mask)
                    out.write(open(part).read())
                    rc, err = table.run_harness(ctx, exe, ["ks", "--t", t, "--bb", bb, "--nin", "500", "--nout", "630", "--samples", 6, "--seed", ctx.seed + t * 41 + bb], part)
                if rc == 0 and (1 << bb) <= 8 and t <= 15:          # a noisy key from the real generator: phase_out = phase_in - rounding - the noise of the rows actually used, exactly
                    out.write(open(part).read())
                    rc, err = table.run_harness(ctx, exe, ["ks", "--t", t, "--bb", bb, "--nin", "1,2,3", "--nout", "1,7", "--samples", 40 if thorough else 16, "--noiselog", 12 + (t + bb) % 9, "--seed", ctx.seed + t * 43 + bb], part)
                if rc != 0:
                    ctx.violation("h_lwe ks (%d,%d) %s build died rc=%s %s" % (t, bb, kind, rc, err[-200:]), key="h_lwe ks crash (%d,%d) %s" % (t, bb, kind))
                    continue
                out.write(open(part).read())
            part = f + ".part"
            rc, err = table.run_harness(ctx, exe, ["ksseq", "--ts", ",".join(str(t) for t, _ in lay), "--bbs", ",".join(str(b) for _, b in lay), "--samples", 24, "--seed", ctx.seed + 9], part)
            if rc != 0:
                ctx.violation("h_lwe ksseq %s build died rc=%s %s" % (kind, rc, err[-200:]), key="h_lwe ksseq crash %s" % kind)
            else:
                out.write(open(part).read())
        bad = table.validate_rows(ctx, "Table_C08", f, what="C08 ks %s" % kind, timeout=3000)
        if bad:
            import json
            try:
                rr = json.loads(bad["row"])
                brief = {k: rr[k] for k in rr if k in ("k", "t", "bb", "nin", "nout", "a", "b", "po", "can", "i", "j", "h", "s", "ph", "az", "kin")}
            except Exception:
                brief = (bad["row"] or "")[:300]
            ctx.violation("key switch (%s build) deviates from round-to-nearest digit extraction on a noiseless key: %s" % (kind, brief), detail={"row_index": bad["row_index"], "brief": brief}, files=[f])
        else:
            ctx.sample(table.first_rows(f, 1)[0])
    ctx.assume("exhaustive over all 2^32 mask values is replaced by: TLC-exhaustive W-bit model per layout + full-width boundary families on the real routine (15 layouts incl. basebit 1 and t*basebit = 31)")
    ctx.assume("noisy-key error statistics (>= 1e5 samples) are part of the C02/C07 trace statistics, not of this check")
