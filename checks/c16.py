"""C16 — no out-of-bounds access, uninitialised read or leak for any valid configuration (the clauses a specification can decide)."""
import os

from vlib import build, tlc, table
from vlib.common import CheckBroken, run as sh
from checks.c14 import mc as mc_lwe
from vlib import life, objs

LEVEL = "model_checking"


def run(ctx):
    thorough = ctx.tier == "thorough"
    # 1. the specification: footprints inside allocations for the whole matrix; ownership/lifecycle without use-after-free; per-thread release
    r = tlc.run_tlc("MC_Mem", workdir=ctx.dir, workers=4)
    if not tlc.expect_ok(ctx, r, "MC_Mem"):
        raise CheckBroken("specification Mem violates %s: %s" % (r.violated, r.out[-1200:]))
    ctx.sample({"model": "MC_Mem", "distinct_states": r.distinct, "assumptions": "BaraInBounds (n in {1..1100}), KSIndexInBounds/Injective, KaratsubaScratchFits"})
    rm = tlc.run_tlc("MC_Mem", constants={"Sharing": '"shared"'}, workdir=ctx.dir, workers=2)
    if rm.violated != "NoUseAfterFree":
        raise CheckBroken("design mutant 'shared key-switching key' not rejected: %r" % rm)
    ctx.add("spec_mutants_rejected", 1)
    rm = tlc.run_tlc("MC_Mem", constants={"Variant": '"pinned"'}, workdir=ctx.dir, workers=2)
    if not (rm.violated or "ssumption" in rm.out):
        raise CheckBroken("design mutant 'scratch sized by N' not rejected: %r" % rm)
    ctx.add("spec_mutants_rejected", 1)
    mc_lwe(ctx, {"Mode": '"foot"', "NMax": 64}, "MC_Lwe foot")
    mc_lwe(ctx, {"Mode": '"foot"', "NMax": 40, "Variant": '"pinned"'}, "foot/pinned", expect="SubToInBounds", workers=2)
    r = tlc.run_tlc("Threads", cfg="Threads_rel_all.cfg", workdir=ctx.dir)
    if not tlc.expect_ok(ctx, r, "Threads_rel_all"):
        raise CheckBroken("Threads violates %s" % r.violated)
    rm = tlc.run_tlc("Threads", cfg="Threads_rel_partial.cfg", workdir=ctx.dir, workers=2)
    if rm.violated != "ReleasedOnExit":
        raise CheckBroken("design mutant 'destructor frees one of four' not rejected: %r" % rm)
    ctx.add("spec_mutants_rejected", 1)
    # 2. the code under the allocation ledger: two fill patterns per configuration, poison-on-free, red zones
    ns = "1,3,7,8,9,500,630,1024,1025,1100" if thorough else "1,3,7,8,9,1025"
    cfgs = [("spqlios-fma", "optim"), ("nayuki-portable", "optim")] + ([("fftw", "optim"), ("spqlios-avx", "optim"), ("nayuki-avx", "optim"), ("fftw", "debug"), ("spqlios-fma", "debug")] if thorough else [("fftw", "debug")])
    for be, kind in cfgs:
        exe = build.harness("h_mem", be, kind)
        tf = os.path.join(ctx.dir, "mem-%s-%s.ndjson" % (be, kind))
        small = kind == "debug" or be.startswith("nayuki")
        nlist = ns if not small else ("1,3,7,8,9" if not thorough else "1,3,7,8,9,500")
        with open(tf, "w") as f:
            for fill in (0xA5, 0x5A):
                rc, _, err = sh([exe, "--n", nlist, "--kmax", "2" if (thorough or not small) else "1", "--fill", str(fill), "--seed", str(ctx.seed), "--threads", "8" if thorough else "4"], stdout=f, timeout=7200)
                if rc != 0:
                    ctx.violation("h_mem died on %s/%s rc=%s %s" % (be, kind, rc, err[-300:]), key="h_mem crash %s %s" % (be, kind))
            if not small or thorough or (be, kind) == cfgs[-1]:
                # the same lifecycles once more with every 1..64 KiB block ending on an inaccessible page (reads past the end of a coefficient array fault too)
                rc, _, err = sh([exe, "--n", "1,8,9" if not thorough else "1,3,7,8,9", "--kmax", "2", "--fill", str(0xA5), "--guard", "1", "--seed", str(ctx.seed), "--threads", "2"], stdout=f, timeout=7200)
                if rc != 0:
                    ctx.violation("h_mem (guard pages) died on %s/%s rc=%s %s" % (be, kind, rc, err[-300:]), key="h_mem guard crash %s %s" % (be, kind))
        n = sum(1 for _ in open(tf))
        r = tlc.run_tlc("Trace_Mem", env={"TRACE": tf}, workers=1, workdir=ctx.dir, timeout=1800)
        if r.ok and r.depth == n + 1:
            ctx.add("events_validated", n); ctx.add("distinct_events", n); ctx.add("traces_validated_against_impl", 1)
            if (be, kind) == cfgs[0]:
                for s in table.first_rows(tf, 4)[1:4]:
                    ctx.sample(s)
            continue
        if r.error and not r.violated and "ostcondition" not in r.out:
            raise CheckBroken("TLC failed on Trace_Mem: %s\n%s" % (r.error, r.out[-1500:]))
        k = max(1, r.depth or 1)
        ev = (table.nth_line(tf, k) or "")[:400]
        ctx.violation("memory scenario on %s/%s is not a behaviour of Trace_Mem (leak / red-zone damage / double free / crash / result depends on heap contents): %s" % (be, kind, ev),
                      detail={"accepted_prefix": k - 1, "of": n, "event": ev}, files=[tf])
    rm = tlc.run_tlc("Threads", cfg="Threads_poly_handed_over.cfg", workdir=ctx.dir, workers=2)
    if rm.violated != "PolyProcAlive":
        raise CheckBroken("design mutant 'a polynomial points at its creating thread's processor' (the pinned design, D8) not rejected: %r" % rm)
    ctx.add("spec_mutants_rejected", 1)
    r = tlc.run_tlc("Threads", cfg="Threads_poly_immortal.cfg", workdir=ctx.dir)
    if not tlc.expect_ok(ctx, r, "Threads_poly_immortal"):
        raise CheckBroken("Threads (handed-over polynomial, immortal processor) violates %s" % r.violated)
    # 2b. thread create / exit histories x object lifetimes: a Lagrange polynomial keeps (in its public precomp field) a pointer to the FFT processor of the thread
    #     that created it, and every operation writing the polynomial reads that processor.  Probe: polynomial created by a thread that exits, then used by the
    #     main thread; Trace_Threads decides by identity (PolyUse requires the recorded processor to be alive and still its creator's) - the outcome of the
    #     dangling read itself is not what is judged (it is usually a stale but still mapped value).
    import json
    # probe 2: the first use of the library in a process is eight threads creating their first polynomial at the same moment (SharedInit.tla: exactly one
    #          process-lifetime processor, nobody sees it half built); afterwards the main thread writes every polynomial
    for mod, c in (("SharedInit", "SharedInit_once.cfg"), ("SharedInit", "SharedInit_once_plain.cfg")):
        r = tlc.run_tlc(mod, cfg=c, workdir=ctx.dir, workers=2)
        if not tlc.expect_ok(ctx, r, c):
            raise CheckBroken("SharedInit (%s) violates %s" % (c, r.violated))
    for c, inv in (("SharedInit_none.cfg", "OneShared"), ("SharedInit_early.cfg", "NoHalfBuilt")):
        rm = tlc.run_tlc("SharedInit", cfg=c, workdir=ctx.dir, workers=2)
        if rm.violated != inv:
            raise CheckBroken("design mutant %s not rejected by %s: %r" % (c, inv, rm))
        ctx.add("spec_mutants_rejected", 1)
    for be, kind in cfgs:
      exe = build.harness("h_threads", be, kind, extra=["-I", os.path.join(os.environ.get("VERIF_REPO", "/repo"), "src", "libtfhe")])
      for probe, pcfg in ((1, "Trace_Threads_probe.cfg"), (2, "Trace_Threads.cfg")):
        tf = os.path.join(ctx.dir, "probe%d-%s-%s.ndjson" % (probe, be, kind))
        with open(tf, "w") as f:
            rc, _, err = sh([exe, "--probe", str(probe), "--seed", str(ctx.seed)], stdout=f, timeout=600)
        if rc != 0:
            ctx.violation("h_threads probe %d died on %s/%s rc=%s %s" % (probe, be, kind, rc, err[-200:]), key="h_threads probe crash %s %s" % (be, kind))
            continue
        n = sum(1 for _ in open(tf))
        r = tlc.run_tlc("Trace_Threads", cfg=pcfg, env={"TRACE": tf}, workers=1, workdir=ctx.dir, timeout=600)
        if r.ok and r.depth == n + 1:
            ctx.add("events_validated", n); ctx.add("traces_validated_against_impl", 1)
            continue
        if r.error and not r.violated and "ostcondition" not in r.out:
            raise CheckBroken("TLC failed on the lifetime probe: %s" % r.error)
        k = max(1, r.depth or 1)
        ev = json.loads(table.nth_line(tf, k) or "{}")
        if ev.get("e") == "PolyUse" and ev.get("tid") == 0:
            ctx.violation("a Lagrange polynomial created by a thread that has exited is used by another thread: the operation reads the destroyed per-thread FFT processor through the polynomial's precomp pointer (%s/%s; outcome of the dangling read this time: %s)" % (be, kind, ev.get("outcome")),
                          key="LagrangeHalfCPolynomial used after its creating thread exited reads that thread's destroyed FFT processor (precomp): backend=%s build=%s" % (be, kind), files=[tf])
        else:
            ctx.violation("thread / object lifetime probe %d on %s/%s is not a behaviour of Trace_Threads: accepted %d of %d events, rejected %s" % (probe, be, kind, k - 1, n, str(ev)[:300]), files=[tf])
    # 3. "forall API lifecycles (new/use/export/import/delete in every order the API allows)": the lifecycle machine Life is checked exhaustively for a small
    #    budget, TLC then samples long behaviours of it, and h_life replays each on the library under the ledger; Trace_Life validates every step
    for kind in ("custom", "default"):
        r = tlc.run_tlc("MC_Life", constants={"Budget": 11 if thorough else 9, "ParamKind": '"%s"' % kind}, workdir=ctx.dir, timeout=3000)
        if not tlc.expect_ok(ctx, r, "MC_Life " + kind):
            raise CheckBroken("specification Life (%s) violates %s: %s" % (kind, r.violated, r.out[-1200:]))
    rm = tlc.run_tlc("MC_Life", constants={"Budget": 6, "Relax": "TRUE"}, workdir=ctx.dir, workers=2)
    if rm.violated != "NoDangling":
        raise CheckBroken("design mutant 'parameters deleted under a live key set' not rejected: %r" % rm)
    ctx.add("spec_mutants_rejected", 1)
    # unbounded length: NoDangling / DeadIsEmpty are inductive (Apalache, symbolic; both parameter kinds through a nondeterministic constant)
    if thorough or os.environ.get("VERIF_APALACHE") == "1":
        from vlib.common import SPEC
        ok = 0
        for init, length in (("Init", 0), ("IndInit", 1)):
            rc, out, err = sh(["apalache-mc", "check", "--cinit=CInit", "--init=" + init, "--inv=IndInv", "--length=%d" % length, "--out-dir=" + os.path.join(ctx.dir, "apalache"), os.path.join(SPEC, "Life_apa.tla")], timeout=1500, cwd=ctx.dir)
            if "The outcome is: NoError" in out:
                ok += 1
            elif "The outcome is: Error" in out:
                raise CheckBroken("Apalache refutes the inductive invariant of Life_apa (%s): %s" % (init, out[-800:]))
            else:
                ctx.note("apalache did not conclude on Life_apa (%s, rc=%s); the TLC runs stand on their own" % (init, rc))
        if ok == 2:
            ctx.cov["apalache_inductive_step_Life"] = "NoError (Init => IndInv; IndInv /\\ Next => IndInv')"
    ctx.sample({"model": "MC_Life", "distinct_states": r.distinct, "invariants": "TypeOK, NoDangling, DeadIsEmpty, NoStuck"})
    plans = [("spqlios-fma", "optim", "custom", 14), ("spqlios-fma", "optim", "default", 2), ("fftw", "debug", "custom", 5)]
    if thorough:
        plans = [(be, "optim", "custom", 40) for be in ("spqlios-fma", "spqlios-avx", "nayuki-avx", "nayuki-portable", "fftw")] + \
                [("spqlios-fma", "optim", "default", 8), ("fftw", "optim", "default", 3), ("spqlios-fma", "debug", "custom", 16), ("fftw", "debug", "custom", 16)]
    for q, (be, kb, kind, num) in enumerate(plans):
        bad = life.replay(ctx, be, kb, kind, num, ctx.seed * 17 + q)
        if bad and bad.get("crash"):
            ctx.violation("h_life died on %s/%s rc=%s %s" % (be, kb, bad["rc"], bad["err"]), key="h_life crash %s %s" % (be, kb), files=bad["files"])
        elif bad:
            ctx.violation("API lifecycle on %s/%s (%s parameters) is not a behaviour of Life (%s): accepted %d of %d events, rejected event %s" %
                          (be, kb, kind, bad["violated"] or "no matching action: wrong plaintext / evaluation differs between key objects or runs / export bytes differ / leak / red-zone damage / crash",
                           bad["accepted_prefix"], bad["of"], bad["event"][:300]), detail={k: bad[k] for k in ("accepted_prefix", "of", "event")}, files=bad["files"])
    # 4. the four-phase object API (alloc / init / destroy / free, new / delete; single and array forms; seventeen types, 204 functions): ObjLife is the
    #    machine of legal call orders, TLC generates call sequences, h_objs executes them under the ledger and Trace_ObjLife holds the readings of every
    #    call to conservation per slot (an empty slot holds nothing; raw memory holds the same every time; nothing damaged or freed twice)
    r = tlc.run_tlc("MC_ObjLife", cfg="MC_ObjLife.cfg", workdir=ctx.dir, workers=4)
    if not tlc.expect_ok(ctx, r, "MC_ObjLife"):
        raise CheckBroken("specification ObjLife violates %s" % r.violated)
    oplans = [("spqlios-fma", "optim", 8, 0xA5), ("fftw", "debug", 6, 0x5A)]
    if thorough:
        oplans = [(be, "optim", 40, 0xA5) for be in ("spqlios-fma", "spqlios-avx", "nayuki-avx", "nayuki-portable", "fftw")] + [("spqlios-fma", "debug", 20, 0x5A), ("nayuki-portable", "debug", 20, 0x5A), ("fftw", "debug", 20, 0x5A)]
    for q, (be, kb, num, fill) in enumerate(oplans):
        bad = objs.replay(ctx, be, kb, num, ctx.seed * 19 + q, fill=fill)
        if bad and bad.get("crash"):
            ctx.violation("h_objs died on %s/%s rc=%s %s" % (be, kb, bad["rc"], bad["err"]), key="h_objs crash %s %s" % (be, kb), files=bad["files"])
        elif bad:
            ctx.violation("object API call sequence on %s/%s breaks the conservation rules of ObjLife (%s): accepted %d of %d events, rejected event %s" %
                          (be, kb, bad["violated"] or "a call allocates / releases something other than its counterpart, leaks, writes a red zone, frees twice, or crashed",
                           bad["accepted_prefix"], bad["of"], bad["event"][:300]), detail={k: bad[k] for k in ("accepted_prefix", "of", "event")}, files=bad["files"])
    ctx.assume("decided: heap out-of-bounds WRITES (red zones of 64 bytes around every block of the process), leaks, double frees, use of freed or uninitialised heap memory that changes a result or an export (two fill patterns, poison on free)")
    ctx.assume("NOT decided (stated in DESIGN.md section 7): out-of-bounds READS that do not change a result, accesses beyond 64 bytes past a block, stack accesses, and anything inside hand-written assembly that stays within mapped memory; the sanitizer/valgrind configurations the property text names are not part of this technique")
