"""C20 — all FFT back-end libraries are drop-in interchangeable and usable from C."""
import json
import os
import re

from vlib import build, tlc, table
from vlib.common import CheckBroken, run as sh, BACKENDS, REPO

LEVEL = "other"


def declared_functions():
    """names of the functions the public headers declare, as a C99 compiler sees them"""
    inc = os.path.join(REPO, "src", "include")
    src = "#include <tfhe.h>\n#include <tfhe_io.h>\n"
    import subprocess
    p = subprocess.run(["gcc", "-std=c99", "-E", "-I", inc, "-x", "c", "-"], input=src, stdout=subprocess.PIPE, stderr=subprocess.PIPE, text=True)
    if p.returncode != 0:
        return None, p.stderr[-800:]
    names, cur, keep = set(), "", False
    for ln in p.stdout.split("\n"):
        if ln.startswith("#"):
            m = re.match(r'# \d+ "([^"]+)"', ln)
            if m:
                keep = m.group(1).startswith(inc)
            continue
        if keep:
            cur += " " + ln
    for decl in cur.split(";"):
        if "typedef" in decl or "{" in decl or "static" in decl:
            continue
        m = re.match(r"\s*(?:extern\s+)?[A-Za-z_][\w\s\*]*?[\s\*]([A-Za-z_]\w*)\s*\(", decl)
        if m:
            names.add(m.group(1))
    return names, ""


def exported(lib):
    rc, out, _ = sh(["nm", "-D", "--defined-only", lib])
    plain, mangled = set(), set()
    for ln in out.split("\n"):
        p = ln.split()
        if len(p) == 3 and p[1] in ("T", "t", "W"):
            (mangled if p[2].startswith("_Z") else plain).add(p[2])
    dem = set()
    if mangled:
        rc, out, _ = sh(["c++filt"] + sorted(mangled))
        for ln in out.split("\n"):
            m = re.match(r"([A-Za-z_]\w*)\(", ln)
            if m:
                dem.add(m.group(1))
    return plain, dem


def run(ctx):
    thorough = ctx.tier == "thorough"
    decl, err = declared_functions()
    events = []
    if decl is None:
        ctx.violation("the public headers do not compile as C99: %s" % err, key="headers do not compile as C99")
        decl = set()
    kinds = ("optim", "debug")
    libs = {}
    for kind in kinds:
        d = build.lib_build(kind)
        for be in BACKENDS:
            libs[(be, kind)] = os.path.join(d, "libtfhe-%s.so" % be)
    exp = {k: exported(v) for k, v in libs.items()}
    union = set()
    for k in exp:
        union |= exp[k][0]
    api = {n for n in decl if any(n in exp[k][0] for k in exp)}             # declared and exported by at least one variant
    for (be, kind) in sorted(libs):
        plain, dem = exp[(be, kind)]
        missing = sorted(n for n in union if n not in plain and not n.startswith("_") and "avx" not in n.lower() and "fma" not in n.lower() and n in decl or (n in api and n not in plain))
        mangled_api = sorted(n for n in decl if n in dem and n not in plain)
        events.append({"e": "Sym", "variant": be, "build": kind, "count": len(plain), "missing": sorted(set(missing)), "mangled_api": mangled_api})
    # a C99 program that references every exported API function must link against every variant
    ref = os.path.join(ctx.dir, "c20_refs.c")
    names = sorted(api)
    with open(ref, "w") as f:
        f.write("#include <tfhe.h>\n#include <tfhe_io.h>\n#include <stdio.h>\ntypedef void (*fn)(void);\nstatic fn refs[] = {\n" + ",\n".join("  (fn)%s" % n for n in names) + "\n};\nint main(void) { printf(\"%d\\n\", (int)(sizeof refs / sizeof refs[0])); return refs[0] == 0; }\n")
    inc = os.path.join(REPO, "src", "include")
    for (be, kind), lib in sorted(libs.items()):
        d = os.path.dirname(lib)
        rc, out, err = sh(["gcc", "-std=c99", "-D_GNU_SOURCE", "-I", inc, ref, "-L", d, "-ltfhe-" + be, "-Wl,-rpath," + d, "-lm", "-o", os.path.join(ctx.dir, "refs-%s-%s" % (be, kind))])
        und = sorted(set(re.findall(r"undefined reference to `([^']+)'", err)))
        events.append({"e": "Link", "variant": be, "build": kind, "ok": 1 if rc == 0 else 0, "undefined": und[:20], "nrefs": len(names)})
        # the same behaviour through the C99 and the C++11 view of the headers
        if kind == "debug" and not thorough and be not in ("nayuki-portable",):
            continue
        for view, cc in (("c99", ["gcc", "-std=c99", "-D_GNU_SOURCE"]), ("c++11", ["g++", "-std=gnu++11", "-x", "c++", "-Wno-invalid-offsetof"])):
            exe = os.path.join(ctx.dir, "drv-%s-%s-%s" % (be, kind, view))
            rc, out, err = sh(cc + ["-O1", "-Wall", "-I", inc, "-I", os.path.join(os.path.dirname(os.path.dirname(os.path.abspath(__file__))), "harness"), os.path.join(os.path.dirname(os.path.dirname(os.path.abspath(__file__))), "harness", "c20_driver.c"),
                                    "-L", d, "-ltfhe-" + be, "-Wl,-rpath," + d, "-lm", "-o", exe])
            if rc != 0:
                events.append({"e": "Link", "variant": be, "build": kind, "ok": 0, "undefined": [("driver does not build as %s: " % view) + err[-300:]], "nrefs": 0})
                continue
            rc, out, err = sh([exe], timeout=600)
            if rc != 0:
                events.append({"e": "Link", "variant": be, "build": kind, "ok": 0, "undefined": ["driver (%s) died rc=%s" % (view, rc)], "nrefs": 0})
                continue
            for ln in out.split("\n"):
                if ln.strip():
                    o = json.loads(ln)
                    o["variant"] = "%s/%s" % (be, kind)
                    events.append(o)
    tf = os.path.join(ctx.dir, "compat.ndjson")
    with open(tf, "w") as f:
        for e in events:
            f.write(json.dumps(e) + "\n")
    n = len(events)
    r = tlc.run_tlc("Trace_Compat", env={"TRACE": tf}, workers=1, workdir=ctx.dir, timeout=900)
    if r.ok and r.depth == n + 1:
        ctx.add("events_validated", n); ctx.add("traces_validated_against_impl", 1)
    elif r.error and not r.violated and "ostcondition" not in r.out:
        raise CheckBroken("TLC failed on Trace_Compat: %s\n%s" % (r.error, r.out[-1500:]))
    else:
        k = max(1, r.depth or 1)
        ev = (table.nth_line(tf, k) or "")[:500]
        ctx.violation("variants / language views are not interchangeable: rejected event %s" % ev, detail={"accepted_prefix": k - 1, "of": n, "event": ev, "violated": r.violated}, files=[tf])
    ctx.cov["evaluations"] = n
    ctx.cov["distinct_nontrivial"] = n
    ctx.cov["explanation"] = ("cross-configuration conformance replay with very little specification content: the TLA+ part is a memo (first observation defines, later ones must agree) over layout tables printed by a C99 and a C++11 compilation of one driver, "
                              "observations of one seeded API behaviour through both views on every variant, exported-symbol comparison (nm) of the ten libraries incl. API functions exported only with C++ linkage, and a C99 link test referencing every exported API function (%d functions)" % len(names))
    ctx.sample(events[0]); ctx.sample(events[-1])
    ctx.assume("the symbol-table and header-compilation clauses are observed through compiled drivers and nm, not derived from a specification")
