"""C02 — circuits of any depth stay correct: gate output noise bounded and input-independent."""
import glob
import os
import random
import re

from vlib import tlc, gates, progs
from vlib.common import CheckBroken, BACKENDS

LEVEL = "model_checking"


def gen_programs(ctx, k, depth, regs):
    """behaviours of MachineP written out by TLC as programs (spec -> code)"""
    out = os.path.join(ctx.dir, "gen")
    os.makedirs(out, exist_ok=True)
    r = tlc.run_tlc("Gen_MachineP", env={"GEN_OUT": os.path.join(out, "p")}, simulate=k, depth=depth + 5, seed=ctx.seed, workers=1, workdir=ctx.dir,
                    constants={"GenDepth": depth, "Regs": "{%s}" % ",".join(map(str, range(regs)))}, timeout=900)
    fs = sorted(glob.glob(os.path.join(out, "p*.ndjson")))
    if not fs:
        raise CheckBroken("Gen_MachineP produced no programs: %s" % r.out[-1500:])
    return fs


def integration(ctx, thorough):
    """the repository's own integration programs (built but never run as tests), unmodified, recorded through an LD_PRELOAD shim of the gate API"""
    from vlib import build
    from vlib.common import run as sh, REPO, HARNESS
    import json
    lib = build.lib_build("optim")
    inc = os.path.join(REPO, "src", "include")
    shim = os.path.join(ctx.dir, "shim_gates.so")
    rc, out, err = sh(["g++", "-std=gnu++11", "-O1", "-fPIC", "-shared", "-I", inc, os.path.join(HARNESS, "shim_gates.cpp"), "-L", lib, "-ltfhe-spqlios-fma", "-Wl,-rpath," + lib, "-ldl", "-o", shim])
    if rc != 0:
        raise CheckBroken("shim build failed: %s" % err[-800:])
    for prog, maxev in (("test-addition-boot", 4000 if thorough else 700), ("test-long-run", 4000 if thorough else 600)):
        exe = os.path.join(ctx.dir, prog)
        rc, out, err = sh(["g++", "-std=gnu++11", "-O2", "-I", inc, os.path.join(REPO, "src", "test", prog + ".cpp"), "-L", lib, "-ltfhe-spqlios-fma", "-Wl,-rpath," + lib, "-o", exe])
        if rc != 0:
            ctx.note("integration program %s does not build: %s" % (prog, err[-200:]))
            continue
        tf = os.path.join(ctx.dir, prog + ".ndjson")
        rc, out, err = sh([exe], env={"LD_PRELOAD": shim, "VH_TRACE": tf, "VH_MAXEV": str(maxev)}, timeout=1800)
        if rc != 0 or not os.path.exists(tf):
            ctx.violation("integration program %s died under the recording shim rc=%s" % (prog, rc), key="integration %s crash" % prog)
            continue
        R = 1
        for ln in open(tf):
            o = json.loads(ln)
            for k in ("d", "a", "b", "c", "r"):
                if k in o:
                    R = max(R, o[k] + 1)
        bad = gates.validate_trace(ctx, tf, R, what="integration " + prog)
        if bad:
            ctx.violation("the repository's %s is not a MachineP behaviour (%s): accepted %d of %d events, at %s" % (prog, bad["violated"], bad["accepted_prefix"], bad["of"], (bad["event"] or "")[:200]), detail=bad, files=[tf])
        else:
            ctx.add("integration_program_events", sum(1 for _ in open(tf)))


def run(ctx):
    thorough = ctx.tier == "thorough"
    # 1. the model: all gate sequences of any length on R registers (fixpoint), fan-out, in-place updates
    r = tlc.run_tlc("MachineP", constants={"Regs": "{r0,r1,r2,r3}"} if thorough else None, workdir=ctx.dir, timeout=3000)
    if not tlc.expect_ok(ctx, r, "MachineP"):
        raise CheckBroken("specification MachineP violates %s" % r.violated)
    ctx.sample({"model": "MachineP", "distinct_states": r.distinct, "transitions": r.generated,
                "note": "no depth variable exists in the model: a bootstrapped output depends on its inputs only through the sign"})
    rm = tlc.run_tlc("MachineP", constants={"ECap": 1048576}, workdir=ctx.dir, workers=4)
    if rm.violated != "Correct":
        raise CheckBroken("relaxed cap not rejected: %r" % rm)
    ctx.add("spec_mutants_rejected", 1)
    # 1b. the same closure argument symbolically (Apalache): IndInit => IndInv, IndInv /\ Next => IndInv' with the errors as arbitrary integers within the caps
    if thorough or os.environ.get("VERIF_APALACHE") == "1":
        from vlib.common import run as sh, SPEC
        rc, out, err = sh(["apalache-mc", "check", "--init=IndInit", "--inv=IndInv", "--length=1", "--out-dir=" + os.path.join(ctx.dir, "apalache"), os.path.join(SPEC, "MachineP_apa.tla")], timeout=1500, cwd=ctx.dir)
        if "The outcome is: NoError" in out:
            ctx.cov["apalache_inductive_step"] = "NoError (IndInit/IndInv, length 1)"
        elif "The outcome is: Error" in out:
            raise CheckBroken("Apalache refutes the inductive invariant of MachineP_apa: %s" % out[-800:])
        else:
            ctx.note("apalache did not conclude (rc=%s); the TLC fixpoint above stands on its own" % rc)
    # 2. programs: TLC-generated behaviours + structured netlists, on the real library
    gen = gen_programs(ctx, 6 if thorough else 2, 400 if thorough else 150, 6)
    cfgs = [(be, "optim") for be in BACKENDS] + [("spqlios-fma", "debug"), ("fftw", "debug")] if thorough else [("spqlios-fma", "optim")]
    stats_lines = []
    runs = []
    for be, kind in cfgs:
        if thorough:
            runs.append((be, kind, 6 if kind == "optim" and be.startswith("spqlios") else 2, None))
        else:          # quick: two processes, one per order in which the two parameter sets are first used
            runs.append((be, kind, 1, (80, 128)))
            runs.append((be, kind, 1, (128, 80)))
    for be, kind, scale, order in runs:
        rnd = random.Random(ctx.seed * 31 + len(be) + (order[0] if order else 0))
        p = progs.Prog()
        R = 16
        for rep in range(scale):
            for lam in (order or ((80, 128) if rep % 2 == 0 else (128, 80))):       # both orders of the two parameter sets within one process
                sd = ctx.seed + rep
                progs.random_program(p, lam, sd, rnd, 8, 260 if thorough else 150)
                progs.chain(p, lam, sd, rnd, 70 if thorough else 40)
                progs.adder(p, lam, sd, rnd, 4, 2)
                progs.mux_tree(p, lam, sd, rnd, 3, 3)
                for g in gen[(rep * 2) % len(gen):][:2]:
                    progs.from_tlc_hist(g, p, lam, sd, 6)
        tag = "%s-%s%s" % (be, kind, "-%d" % order[0] if order else "")
        rc, err, pf, tf = gates.exec_program(ctx, p, be, kind, tag, timeout=7200)
        if rc != 0:
            ctx.violation("netlist program died on %s/%s rc=%s %s" % (be, kind, rc, err[-300:]), key="h_gates crash %s %s" % (be, kind), files=[pf])
            continue
        bad = gates.validate_trace(ctx, tf, R, what="C02 %s" % tag)
        if bad:
            what = "noise statistics outside the acceptance region" if bad["violated"] == "StatsAccepted" else \
                   "a wire decrypts differently from the plaintext evaluation / a gate output is inadmissible" if bad["violated"] in ("Correct", "Admissible") else "an event is not a MachineP step"
            ctx.violation("netlist execution on %s/%s rejected (%s: %s): accepted %d of %d events, at event %s" %
                          (be, kind, bad["violated"] or "no matching action", what, bad["accepted_prefix"], bad["of"], (bad["event"] or "")[:200]), detail=bad, files=[pf, tf])
        ctx.add("gate_evaluations", p.gates)
    # 3. "|mean| <= 0.25 * bound for all key seeds": the pooled statistics above mix few gates per key; a bias that belongs to a key (e.g. key-switching noise that is
    #    not centred) needs many gates under one key and several keys.  One process per key seed, run side by side; each trace is validated on its own.
    from concurrent.futures import ThreadPoolExecutor
    bias_seeds = [ctx.seed * 7 + k for k in range(1, 13 if thorough else 4)]
    def bias_run(sd):
        bp = progs.Prog()
        progs.random_program(bp, 128 if sd % 4 else 80, sd, random.Random(sd * 101), 8, 4200 if thorough else 2800)
        return sd, bp, gates.exec_program(ctx, bp, "spqlios-fma", "optim", "bias-%d" % sd, timeout=7200)
    with ThreadPoolExecutor(max_workers=6 if thorough else 3) as ex:
        results = list(ex.map(bias_run, bias_seeds))
    for sd, bp, (rc, err, pf, tf) in results:
        if rc != 0:
            ctx.violation("netlist program died (key seed %d) rc=%s %s" % (sd, rc, err[-300:]), key="h_gates crash bias run", files=[pf])
            continue
        bad = gates.validate_trace(ctx, tf, 16, what="C02 bias run, key seed %d" % sd)
        if bad:
            what = "mean / standard deviation of the gate-output phase error under this key outside the acceptance region" if bad["violated"] == "StatsAccepted" else \
                   "a wire decrypts differently from the plaintext evaluation / a gate output is inadmissible" if bad["violated"] in ("Correct", "Admissible") else "an event is not a MachineP step"
            ctx.violation("long netlist under one key (key seed %d) rejected (%s: %s): accepted %d of %d events, at event %s; %s" %
                          (sd, bad["violated"] or "no matching action", what, bad["accepted_prefix"], bad["of"], (bad["event"] or "")[:200], ctx.cov.get("noise_stats_last", "")[:300]), detail=bad, files=[pf, tf])
        ctx.add("gate_evaluations", bp.gates)
    integration(ctx, thorough)
    ctx.sample({"programs": "random(8 regs, 260 gates), chain(70), ripple-carry adder+comparator(4 bits, fed back), mux tree with heavy fan-out, TLC-generated behaviours", "first_ops": p.lines[:10]})
    ctx.assume("acceptance regions: sd <= bound*(1+8/sqrt(2n)), |mean| <= bound/4 + 8*bound/sqrt(n), |error| < 3/64, class variances (fresh/deep/noisy inputs) pairwise within 8 estimator sigma; statistical by nature")
    ctx.assume("bounds: 0.0037 (128-bit), 0.0047 (80-bit), x1.35 for MUX; errors accumulated in units of 2^-14")
