"""C12 — gadget decomposition yields balanced digits that recompose to the input."""
import os

from vlib import build, tlc, table
from vlib.common import CheckBroken

LEVEL = "model_checking"
LAYOUTS = [(3, 7), (2, 10), (1, 1), (2, 2), (1, 8), (4, 4), (5, 4), (3, 6), (4, 8), (16, 2), (2, 16), (8, 4), (32, 1), (3, 10), (1, 16)]


def mc_layout(ctx, l, bg, W, workers=None):
    r = tlc.run_tlc("MC_GadgetAll", constants={"W": W, "L": l, "Bgbit": bg}, workdir=ctx.dir, workers=workers, timeout=3000)
    if not tlc.expect_ok(ctx, r, "MC_GadgetAll(%d,%d,W=%d)" % (l, bg, W)):
        raise CheckBroken("specification Gadget violates %s at layout (%d,%d): %s" % (r.violated, l, bg, r.out[-1200:]))
    return r.distinct


def run(ctx):
    thorough = ctx.tier == "thorough"
    # 1. specification: every value of the W-bit torus, W = l*Bgbit+1 (truncating) and W = l*Bgbit (exact)
    mc = [(2, 7, 15), (3, 4, 13), (2, 5, 11), (1, 8, 9), (4, 4, 16), (2, 8, 16), (8, 2, 16), (1, 1, 2), (5, 3, 16)]
    if thorough:
        mc += [(3, 7, 22), (2, 10, 21), (3, 6, 19), (16, 1, 16)]
    n = 0
    for (l, bg, W) in mc:
        n += mc_layout(ctx, l, bg, W)
    ctx.sample({"model": "MC_GadgetAll", "layouts_W": mc, "values_checked": n})
    # the decomposition as a machine over a buffer: dirty window, restoration, lane independence
    r = tlc.run_tlc("MC_Gadget", workdir=ctx.dir)
    if not tlc.expect_ok(ctx, r, "MC_Gadget"):
        raise CheckBroken("specification MC_Gadget violates %s" % r.violated)
    for mut, inv in (("nooffset", "ResultGood"), ("norestore", "DirtyOnlyInside"), ("shift", "ResultGood")):
        rm = tlc.run_tlc("MC_Gadget", constants={"Mutant": '"%s"' % mut}, workdir=ctx.dir, workers=2)
        if rm.violated != inv:
            raise CheckBroken("spec mutant %s not rejected as expected: %r" % (mut, rm))
        ctx.add("spec_mutants_rejected", 1)
    # 2. the code
    builds = [("spqlios-fma", "optim"), ("nayuki-portable", "debug")]
    for be, kind in builds:
        exe = build.harness("h_gadget", be, kind)
        # 2a. embedded grids: equality with the model digit for digit
        grids = [(2, 7, 15, 1), (3, 4, 13, 1), (3, 7, 22, 13 if thorough else 61), (2, 10, 21, 7 if thorough else 31)]
        if kind == "debug" and not thorough:
            grids = grids[:2]
        for (l, bg, W, stride) in grids:
            f = os.path.join(ctx.dir, "grid-%d-%d-%s.ndjson" % (l, bg, kind))
            rc, err = table.run_harness(ctx, exe, ["grid", "--l", l, "--bg", bg, "--W", W, "--stride", stride], f)
            if rc != 0:
                ctx.violation("h_gadget grid (%d,%d) %s died rc=%s %s" % (l, bg, kind, rc, err[-200:]), key="h_gadget grid crash (%d,%d) %s" % (l, bg, kind))
                continue
            bad = table.validate_rows(ctx, "Table_C12", f, constants={"W": W, "L": l, "Bgbit": bg}, what="C12 grid (%d,%d) %s" % (l, bg, kind), timeout=3000)
            if bad:
                ctx.violation("decomposition (%d,%d) %s build disagrees with Gadget: row %s" % (l, bg, kind, bad["row"]), detail=bad, files=[f])
            ctx.sample(table.first_rows(f, 1)[0])
        # 2b. full width: digit carries, wrap at the top, random values, degrees 8/16/64/1024, TLWE wrapper k=1,2
        f = os.path.join(ctx.dir, "edges-%s.ndjson" % kind)
        with open(f, "w") as out:
            for (l, bg) in LAYOUTS:
                part = f + ".part"
                rc, err = table.run_harness(ctx, exe, ["edges", "--l", l, "--bg", bg, "--seed", ctx.seed, "--rand", 1024 if thorough else 128], part)
                if rc != 0:
                    ctx.violation("h_gadget edges (%d,%d) %s died rc=%s %s" % (l, bg, kind, rc, err[-200:]), key="h_gadget edges crash (%d,%d) %s" % (l, bg, kind))
                    continue
                out.write(open(part).read())
            part = f + ".part"
            rc, err = table.run_harness(ctx, exe, ["seq", "--ls", ",".join(str(l) for l, _ in LAYOUTS), "--bgs", ",".join(str(b) for _, b in LAYOUTS), "--seed", ctx.seed + 3, "--rand", 48], part)
            if rc != 0:
                ctx.violation("h_gadget seq %s died rc=%s %s" % (kind, rc, err[-200:]), key="h_gadget seq crash %s" % kind)
            else:
                out.write(open(part).read())
            rc, err = table.run_harness(ctx, exe, ["conc", "--ls", ",".join(str(l) for l, _ in LAYOUTS[:8]), "--bgs", ",".join(str(b) for _, b in LAYOUTS[:8]), "--seed", ctx.seed + 11, "--rand", 32], part)
            if rc != 0:
                ctx.violation("h_gadget conc %s died rc=%s %s" % (kind, rc, err[-200:]), key="h_gadget conc crash %s" % kind)
            else:
                out.write(open(part).read())
        bad = table.validate_rows(ctx, "Table_C12", f, what="C12 edges %s" % kind, timeout=3000)
        if bad:
            ctx.violation("decomposition violates balance/recomposition/input-restoration at full width (%s build): row %s" % (kind, bad["row"]), detail=bad, files=[f])
    ctx.assume("full 2^32 enumeration is replaced by: exhaustive TLC check of the W-bit model + equality of the code with the model on the embedded grid + full-width carry/wrap/random families")
