"""C03 — decryption inverts encryption for LWE, TLWE, TGSW and gate ciphertexts."""
import os

from vlib import build, tlc, table
from vlib.common import CheckBroken
from checks.c14 import mc

LEVEL = "model_checking"


def run(ctx):
    thorough = ctx.tier == "thorough"
    # 1. specification: Decrypt(Encrypt(m, mask, e)) = m whenever M*|e| < 1/2; decrypt = nearest message; trivial samples under every key
    r = mc(ctx, {"Mode": '"dec"', "W": 5 if thorough else 4, "NMax": 2}, "MC_Lwe dec")
    ctx.sample({"model": "MC_Lwe", "mode": "dec", "distinct_states": r.distinct})
    # 2. the real API
    Ms = "2,3,4,5,6,7,8,9,10,11,12,13,14,15,16,100,1000,1024,2048,32768"
    cfgs = [("spqlios-fma", "optim"), ("nayuki-portable", "debug")] + ([("fftw", "optim"), ("nayuki-avx", "optim"), ("spqlios-avx", "debug")] if thorough else [])
    for be, kind in cfgs:
        exe = build.harness("h_enc", be, kind)
        first = (be, kind) == cfgs[0]
        jobs = [("lwe", ["lwe", "--n", "1,2,3,8,9,500,501,630,1024" if (thorough or first) else "1,7,630", "--M", Ms, "--per", 12 if thorough else 6]),
                ("gate", ["gate", "--per", 60 if thorough else 20]),
                ("tlwe", ["tlwe", "--k", "1,2", "--M", "2,3,4,5,7,8,16,100,1000,1024", "--per", 8 if thorough else 3]),
                ("tgsw", ["tgsw", "--per", 12 if thorough else 5])]
        for name, args in jobs:
            for sd in ([ctx.seed, ctx.seed + 1000, ctx.seed + 2000] if thorough and name != "gate" else [ctx.seed]):
                f = os.path.join(ctx.dir, "%s-%s-%s.ndjson" % (name, be, kind))
                rc, err = table.run_harness(ctx, exe, args + ["--seed", sd], f)
                if rc != 0:
                    ctx.violation("h_enc %s (%s %s) died rc=%s %s" % (name, be, kind, rc, err[-300:]), key="h_enc %s crash %s %s" % (name, be, kind))
                    continue
                bad = table.validate_rows(ctx, "Table_C03", f, what="C03 %s %s %s" % (name, be, kind), timeout=3000)
                if bad:
                    import json
                    try:
                        rr = json.loads(bad["row"])
                        brief = {k: (v if not isinstance(v, list) else "[%d]" % len(v)) for k, v in rr.items()}
                    except Exception:
                        brief = (bad["row"] or "")[:300]
                    ctx.violation("decryption does not invert encryption (%s, %s %s): %s" % (name, be, kind, brief), detail={"row_index": bad["row_index"], "brief": brief}, files=[f])
                elif first:
                    s = table.first_rows(f, 1)[0]
                    ctx.sample({k: (v if not isinstance(v, list) or len(v) < 6 else v[:6] + ["..."]) for k, v in s.items()})
    ctx.assume("fresh encryptions use M*alpha <= 1/20 (10 sigma): a wrong decryption caused by honest noise has probability < 1e-22 per sample")
    ctx.assume("TLWE/TGSW products are FFT-bound to N = 1024 in this library, so 'forall N supported by the back-end' is N = 1024")
