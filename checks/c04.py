"""C04 — bootstrapping maps the rounded input phase through the test polynomial exactly."""
import os

from vlib import build, tlc, table, ringreplay as rr
from vlib.common import CheckBroken, run as sh

LEVEL = "model_checking"


def run(ctx):
    thorough = ctx.tier == "thorough"
    # 1. the reduced bit-exact model: every b, masks over a covering set, three output messages; generic test polynomial
    r = rr.mc(ctx, rr.INST_A, "boot", avals="{0,1,3,8,13,15}")
    ctx.sample({"model": "MC_RingScheme boot", "instance": rr.INST_A, "distinct_states": r.distinct})
    rr.mc(ctx, rr.INST_A, "boot", avals="{0,5}", mutant="barb", expect="BootSign")
    if thorough:
        rr.mc(ctx, rr.INST_B, "boot", avals="{0,5,11}")
        rr.mc(ctx, rr.INST_C, "boot", avals="{0,9,31}")
        rr.mc(ctx, rr.INST_C2, "boot", avals="{0,9,31}")
        rr.mc(ctx, rr.INST_G, "boot")
        rr.mc(ctx, rr.INST_D, "boot", avals="{0,1,2,3,4,5,6,7,8,9,10,11,12,13,14,15}")
    # 2. replay of the model's behaviours on the real N = 1024 code through the embeddings
    plans = [(rr.INST_A, "A", "spqlios-fma", "optim", 1), (rr.INST_A, "A", "nayuki-portable", "debug", 3), (rr.INST_B, "B", "fftw", "optim", 2), (rr.INST_C2, "C2", "spqlios-avx", "optim", 3)]
    if thorough:
        plans = [(rr.INST_A, "A", be, "optim", 1) for be in ("spqlios-fma", "spqlios-avx", "nayuki-portable", "nayuki-avx", "fftw")] + \
                [(rr.INST_B, "B", "spqlios-fma", "optim", 1), (rr.INST_B, "B", "fftw", "debug", 3), (rr.INST_C2, "C2", "nayuki-avx", "optim", 2), (rr.INST_G, "G", "spqlios-avx", "optim", 2), (rr.INST_D, "D", "spqlios-avx", "debug", 1), (rr.INST_A, "A", "nayuki-portable", "debug", 2)]
    for inst, tag, be, kind, take in plans:
        bad, rows = rr.replay(ctx, inst, tag, be, kind, ("boot", "bootv", "gate"), ctx.seed, take=take)
        if bad and "crash" in bad:
            ctx.violation("%s (%s/%s, instance %s)" % (bad["crash"], be, kind, tag), key="h_boot replay crash %s %s %s" % (tag, be, kind))
        elif bad:
            ctx.violation("bootstrapping on %s/%s deviates from the reduced model (instance %s): row %s" % (be, kind, tag, (bad["row"] or "")[:300]), detail=bad, files=[bad["rows_file"]])
        elif rows:
            ctx.sample(table.first_rows(rows, 1)[0])
    # 3. full size on trivial key material: all 2N rounded phases and their edges, masks steering p next to the sign boundaries, n up to 1030 > N, k in {1,2}
    fulls = [(630, 1, 3, 7, 8, 2, 6144), (1, 1, 3, 7, 8, 2, 2048), (8, 2, 2, 10, 4, 3, 2048), (1030, 1, 3, 7, 8, 2, 600), (2, 1, 4, 8, 15, 1, 1024)]
    if thorough:
        fulls += [(500, 1, 2, 10, 8, 2, 6144), (1100, 2, 2, 8, 8, 2, 400), (3, 1, 16, 2, 3, 5, 2048), (64, 1, 1, 16, 2, 8, 2048)]
    for be, kind in ([("spqlios-fma", "optim"), ("nayuki-portable", "debug")] if not thorough else [("spqlios-fma", "optim"), ("fftw", "optim"), ("nayuki-avx", "optim"), ("nayuki-portable", "debug"), ("spqlios-avx", "debug")]):
        exe = build.harness("h_boot", be, kind)
        f = os.path.join(ctx.dir, "full-%s-%s.ndjson" % (be, kind))
        with open(f, "w") as out:
            for (n, k, l, bg, t, bb, cases) in (fulls if kind == "optim" else [x for x in fulls if x[0] <= 8]):
                part = f + ".part"
                with open(part, "w") as po:
                    rc, _, err = sh([exe, "full", "--n", str(n), "--k", str(k), "--l", str(l), "--bg", str(bg), "--t", str(t), "--bb", str(bb), "--cases", str(cases), "--seed", str(ctx.seed)], stdout=po, timeout=3000)
                if rc != 0:
                    ctx.violation("bootstrapping at full size died (n=%d, k=%d, %s/%s) rc=%s %s" % (n, k, be, kind, rc, err[-200:]), key="h_boot full crash n=%d k=%d %s %s" % (n, k, be, kind))
                    continue
                out.write(open(part).read())
            # real generated keys (uniform masks) under layouts up to Bgbit = 16 and k = 2
            for (n, k, l, bg, t, bb) in [(8, 1, 2, 16, 8, 2), (6, 2, 2, 15, 5, 3), (10, 1, 3, 7, 8, 2), (5, 1, 4, 8, 15, 1)] if kind == "optim" else [(4, 1, 3, 7, 8, 2)]:      # (debug nayuki builds abort in their own assertion for Bgbit = 16: finding D6, recorded under C10)
                part = f + ".part"
                with open(part, "w") as po:
                    rc, _, err = sh([exe, "real", "--n", str(n), "--k", str(k), "--l", str(l), "--bg", str(bg), "--t", str(t), "--bb", str(bb), "--cases", "96" if kind == "optim" else "24", "--seed", str(ctx.seed + n)], stdout=po, timeout=3000)
                if rc != 0:
                    ctx.violation("bootstrapping with generated keys died (n=%d, k=%d, l=%d, Bgbit=%d, %s/%s) rc=%s %s" % (n, k, l, bg, be, kind, rc, err[-200:]), key="h_boot real crash n=%d k=%d l=%d bg=%d %s %s" % (n, k, l, bg, be, kind))
                    continue
                out.write(open(part).read())
            # the same in one process for seven configurations in a row (k = 2, 1, 2, 1, 1, 2, 1), parameter objects re-initialised in the same storage
            part = f + ".part"
            with open(part, "w") as po:
                rc, _, err = sh([exe, "fullseq", "--cases", "768" if kind == "optim" else "256", "--seed", str(ctx.seed + 5)], stdout=po, timeout=3000)
            if rc != 0:
                ctx.violation("bootstrapping at full size died in a sequence of configurations (%s/%s) rc=%s %s" % (be, kind, rc, err[-200:]), key="h_boot fullseq crash %s %s" % (be, kind))
            else:
                out.write(open(part).read())
        bad = table.validate_rows(ctx, "Table_C04F", f, what="C04 full %s %s" % (be, kind))
        if bad:
            ctx.violation("full-size bootstrapping (%s/%s) does not map the rounded phase through the test vector: row %s" % (be, kind, (bad["row"] or "")[:200] + " ..."), detail={"row_index": bad["row_index"]}, files=[f])
    ctx.assume("reduced instances embed exactly (2*NP = 2^W, LL*BGB = W, T*BB = W); observed phases are compared under the model's keys within 256 units of 2^-32 (FFT rounding)")
    ctx.assume("inputs reaching through the ring embedding lie on the 2N' grid; finer inputs are covered at full size on trivial key material, where the model state is the rounded phase only")
