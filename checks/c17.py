"""C17 — the exported cloud key contains only public evaluation material."""
import os

from vlib import build, tlc, table
from vlib.common import CheckBroken, run as sh
from checks.c05 import validate_serial

LEVEL = "model_checking"


def run(ctx):
    thorough = ctx.tier == "thorough"
    r = tlc.run_tlc("MC_Serial", workdir=ctx.dir)
    if not tlc.expect_ok(ctx, r, "MC_Serial"):
        raise CheckBroken("specification Serial violates %s" % r.violated)
    ctx.sample({"model": "MC_Serial", "distinct_states": r.distinct, "invariants": "CloudIsPrefixOfSecret, CloudHasNoSecret, CloudSize, SecretAddsExactlyKeys"})
    rm = tlc.run_tlc("MC_Serial", constants={"Mutant": '"leak"'}, workdir=ctx.dir, workers=2)
    if rm.violated not in ("CloudHasNoSecret", "CloudIsPrefixOfSecret", "CloudSize"):
        raise CheckBroken("spec mutant leak not rejected: %r" % rm)
    ctx.add("spec_mutants_rejected", 1)
    for be, kind in [("spqlios-fma", "optim")] + ([("nayuki-portable", "debug"), ("fftw", "optim")] if thorough else []):
        exe = build.harness("h_io", be, kind)
        # a. the report: sizes, prefix relation, secret-key search, import
        f = os.path.join(ctx.dir, "cloud-%s-%s.ndjson" % (be, kind))
        lambdas = "128,80" if thorough else "128"
        with open(f, "w") as out:
            rc, _, err = sh([exe, "--cloud", "1", "--small", "6" if thorough else "3", "--lambdas", lambdas if kind == "optim" else "", "--seed", str(ctx.seed)], stdout=out, timeout=3000)
        if rc != 0:
            ctx.violation("h_io --cloud died on %s/%s rc=%s %s" % (be, kind, rc, err[-300:]), key="h_io cloud crash %s %s" % (be, kind))
            continue
        bad = table.validate_rows(ctx, "Table_C17", f, what="C17 cloud report")
        if bad:
            ctx.violation("cloud key export deviates from Serial!ExpCloud (size / prefix / secret material / import): %s" % (bad["row"] or "")[:500], detail=bad, files=[f])
        else:
            ctx.sample(table.first_rows(f, 1)[0])
        # b. the call sequence of cloud and secret exports, call by call (both transports)
        tf = os.path.join(ctx.dir, "io-%s-%s.ndjson" % (be, kind))
        with open(tf, "w") as out:
            rc, _, err = sh([exe, "--sets", "0", "--ksets", "4" if thorough else "2", "--seed", str(ctx.seed + 5)], stdout=out, timeout=3000)
        if rc != 0:
            ctx.violation("h_io died rc=%s %s" % (rc, err[-300:]), key="h_io crash %s %s" % (be, kind))
            continue
        bad = validate_serial(ctx, tf, "C17 calls %s %s" % (be, kind))
        if bad:
            ctx.violation("key-set export is not the call sequence of Serial: accepted %d of %d events; rejected event %s; within %s" % (bad["accepted_prefix"], bad["of"], bad["event"][:260], bad["in_export"]), detail=bad, files=[tf])
    ctx.assume("secret-key search covers the int32-array encoding the library uses plus byte-per-bit and bit-packed controls; keys have n >= 32 so that chance matches are impossible")
