"""C14 — ciphertext linear operations act exactly linearly on phases, for every dimension."""
import os

from vlib import build, tlc, table
from vlib.common import CheckBroken

LEVEL = "model_checking"


def mc(ctx, consts, what, expect=None, workers=None):
    c = {"W": 2, "NMax": 2, "Mode": '"lin"', "KT": 2, "KB": 2, "Variant": '"guarded"', "Mutant": '"none"'}
    c.update(consts)
    r = tlc.run_tlc("MC_Lwe", constants=c, workdir=ctx.dir, timeout=3000, workers=workers)
    if expect:
        if r.violated != expect:
            raise CheckBroken("spec mutant %s not rejected as expected (%s): %r" % (what, expect, r))
        ctx.add("spec_mutants_rejected", 1)
        return r
    if not tlc.expect_ok(ctx, r, what):
        raise CheckBroken("specification LweScheme violates %s in %s: %s" % (r.violated, what, r.out[-1200:]))
    return r


def run(ctx):
    thorough = ctx.tier == "thorough"
    # 1. specification: phase is a homomorphism for every operation, all samples/keys/p of the small instance
    r = mc(ctx, {"W": 2, "NMax": 3 if thorough else 2}, "MC_Lwe lin")
    ctx.sample({"model": "MC_Lwe", "mode": "lin", "distinct_states": r.distinct})
    if thorough:
        mc(ctx, {"W": 3, "NMax": 2}, "MC_Lwe lin W=3")
    # the 8-lane subtraction: footprint = exactly the n words, every n in 1..64
    mc(ctx, {"Mode": '"foot"', "NMax": 64}, "MC_Lwe foot")
    mc(ctx, {"Mode": '"foot"', "NMax": 40, "Variant": '"pinned"'}, "foot/pinned", expect="SubToInBounds", workers=2)
    mc(ctx, {"Mutant": '"varlin"', "NMax": 1}, "varlin", expect="PhaseLinear", workers=2)
    # 2. the code
    small = ",".join(str(i) for i in range(1, 41))
    big = "500,630,1023,1024,1025,2048"
    for be, kind in [("spqlios-fma", "optim"), ("nayuki-portable", "debug")]:
        exe = build.harness("h_lwe", be, kind)
        jobs = [("lwe", ["lwe", "--n", small + "," + big, "--reps", 6 if thorough else 3, "--seed", ctx.seed]),
                ("tlwe", ["tlwe", "--N", "2,4,8,16,32,64,1024" if thorough or kind == "optim" else "2,8,1024", "--seed", ctx.seed]),
                ("extract", ["extract", "--N", "2,3,4,5,6,7,8,12,16,32,64,100,128,256,512,1024" if thorough else ("2,3,4,6,8,16,64,100,1024" if kind == "optim" else "2,5,8,1024"),
                             "--densemax", 32 if thorough else 16, "--seed", ctx.seed])]
        for name, args in jobs:
            f = os.path.join(ctx.dir, "%s-%s.ndjson" % (name, kind))
            rc, err = table.run_harness(ctx, exe, args, f)
            if rc != 0:
                ctx.violation("h_lwe %s (%s build) died rc=%s %s" % (name, kind, rc, err[-300:]), key="h_lwe %s crash %s" % (name, kind))
                continue
            bad = table.validate_rows(ctx, "Table_C14", f, what="C14 %s %s" % (name, kind), timeout=3000)
            if bad:
                import json
                try:
                    rr = json.loads(bad["row"])
                    brief = {k: rr[k] for k in rr if k in ("k", "f", "n", "N", "kk", "j", "p", "can", "vo", "ps", "a", "pos")}
                except Exception:
                    brief = (bad["row"] or "")[:200]
                ctx.violation("%s routine (%s build) is not the linear map of the specification / writes out of bounds: %s" % (name, kind, brief),
                              detail={"row_index": bad["row_index"], "brief": brief}, files=[f])
            else:
                s = table.first_rows(f, 1)[0]
                ctx.sample({k: (v if not isinstance(v, list) or len(v) < 6 else v[:6] + ["..."]) for k, v in s.items()})
    ctx.assume("coefficient-wise equality with the specification's operation implies phase linearity under every key; lwePhase itself is validated against the definition on every row")
    ctx.assume("TLWE rows are dense for N <= 64 and N = 1024; extraction covers every j in [0,N) incl. non-power-of-two N")
