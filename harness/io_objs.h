// Object zoo for the I/O harnesses: one closure-based descriptor per exportable type, call-logging sinks.
#ifndef IO_OBJS_H
#define IO_OBJS_H
#include "vh_hash.h"
#include <tfhe_io.h>
#include <sstream>
#include <streambuf>
#include <cmath>
#include <functional>

// ---------- logging sinks ----------
struct Call { size_t len; std::string head; };
struct Sink { std::string data; std::vector<Call> calls; void put(const char* s, size_t n) { Call c; c.len = n; c.head.assign(s, n < 160 ? n : 160); calls.push_back(c); data.append(s, n); } };
struct LogBuf : public std::streambuf {
    Sink* k; explicit LogBuf(Sink* s) : k(s) {}
    std::streamsize xsputn(const char* s, std::streamsize n) override { k->put(s, (size_t)n); return n; }
    int overflow(int c) override { if (c != EOF) { char ch = (char)c; k->put(&ch, 1); } return c; }
};
static ssize_t cookie_write(void* c, const char* buf, size_t n) { ((Sink*)c)->put(buf, n); return (ssize_t)n; }
static FILE* open_sink(Sink* s) { cookie_io_functions_t io = {0, cookie_write, 0, 0}; FILE* f = fopencookie(s, "w", io); setvbuf(f, NULL, _IONBF, 0); return f; }

static void dbl(const char* k, double v) {
    int e = 0; double m = frexp(fabs(v), &e); uint64_t M = (uint64_t)ldexp(m, 53);
    fprintf(vh_out, "\"%s\":{\"m\":[%u,%u,%u,%u],\"e\":%d,\"neg\":%d}", k, (unsigned)(M & 0xffff), (unsigned)((M >> 16) & 0xffff), (unsigned)((M >> 32) & 0xffff), (unsigned)((M >> 48) & 0xffff), v == 0 ? 0 : e - 53, v < 0 ? 1 : 0);
}
// ---------- object descriptors ----------
struct P { int n, N, kk, l, Bgbit, t, bb, ksn; double amin, amax, tmin, tmax; };
struct Desc { P p; uint64_t h; double vmax; int vuni; double vall; double bvmax; int bvuni; double bvall; };      // content hash (coefficients, not key-row variances), max row variance, rows uniform?, the common value
static void emit_desc(const Desc& d) {
    fprintf(vh_out, "\"p\":{\"n\":%d,\"N\":%d,\"kk\":%d,\"l\":%d,\"Bgbit\":%d,\"t\":%d,\"bb\":%d,\"ksn\":%d},", d.p.n, d.p.N, d.p.kk, d.p.l, d.p.Bgbit, d.p.t, d.p.bb, d.p.ksn);
    fputs("\"r\":{", vh_out); dbl("amin", d.p.amin); VH_C; dbl("amax", d.p.amax); VH_C; dbl("tmin", d.p.tmin); VH_C; dbl("tmax", d.p.tmax); fputs("},", vh_out);
    vh_h("h", d.h); VH_C; dbl("vmax", d.vmax); VH_C; vh_i("vuni", d.vuni); VH_C; dbl("vall", d.vall); VH_C; dbl("bvmax", d.bvmax); VH_C; vh_i("bvuni", d.bvuni); VH_C; dbl("bvall", d.bvall);
}
static void ks_var(const LweKeySwitchKey* ks, Desc& d) { int tot = ks->n * ks->t * ks->base; for (int i = 0; i < tot; i++) { double v = ks->ks0_raw[i].current_variance; if (v > d.vmax) d.vmax = v; if (i == 0 && d.vall == -2) d.vall = v; else if (v != d.vall) d.vuni = 0; } }
static uint64_t hKScoef(const LweKeySwitchKey* ks, uint64_t h) { int tot = ks->n * ks->t * ks->base, n = ks->out_params->n; for (int i = 0; i < tot; i++) { h = hmix(h, ks->ks0_raw[i].a, 4 * (size_t)n); h = hmix(h, &ks->ks0_raw[i].b, 4); } return h; }
static uint64_t hBKcoef(const LweBootstrappingKey* bk, uint64_t h, Desc& d) {
    int n = bk->in_out_params->n, kpl = bk->bk_params->kpl, k = bk->bk_params->tlwe_params->k, N = bk->bk_params->tlwe_params->N;
    for (int i = 0; i < n; i++) for (int j = 0; j < kpl; j++) { const TLweSample& s = bk->bk[i].all_sample[j]; for (int c = 0; c <= k; c++) h = hmix(h, s.a[c].coefsT, 4 * (size_t)N);
        double v = s.current_variance; if (v > d.vmax) d.vmax = v; if (d.vall == -2) d.vall = v; else if (v != d.vall) d.vuni = 0; }
    return h;
}
static void setLP(P& p, const LweParams* l) { p.n = l->n; p.amin = l->alpha_min; p.amax = l->alpha_max; }
static void setTP(P& p, const TLweParams* t) { p.N = t->N; p.kk = t->k; p.tmin = t->alpha_min; p.tmax = t->alpha_max; }
static void setGP(P& p, const TGswParams* g) { setTP(p, g->tlwe_params); p.l = g->l; p.Bgbit = g->Bgbit; }
static P P0() { P p; memset(&p, 0, sizeof p); return p; }
static Desc D0() { Desc d; d.p = P0(); d.h = 0; d.vmax = -1; d.vuni = 1; d.vall = -2; d.bvmax = -1; d.bvuni = 1; d.bvall = -2; return d; }

// ---------- one generic object = closures over the API ----------
struct Obj {
    std::string ty; void* o = 0; const void* ctx = 0;      // ctx: parameter object needed by import of samples
    std::function<void(std::ostream&, void*)> expS; std::function<void(FILE*, void*)> expF;
    std::function<void*(std::istream&)> impS; std::function<void*(FILE*)> impF;
    std::function<Desc(void*)> desc; std::function<void(void*)> del;
};
#define EXP(T, callS, callF) o.expS = [=](std::ostream& st, void* x) { const T* X = (const T*)x; callS; }; o.expF = [=](FILE* f, void* x) { const T* X = (const T*)x; callF; }
static VhRng* RNG;
static uint32_t rw() { return RNG->below(5) == 0 ? (RNG->below(2) ? 0x80000000u : 0x7fffffffu) : RNG->u32(); }
static void fillLwe(LweSample* s, int n) { for (int i = 0; i < n; i++) s->a[i] = (Torus32)rw(); s->b = (Torus32)rw(); s->current_variance = ldexp((double)(1 + RNG->below(1000)), -20 - (int)RNG->below(20)); }
static void fillTLwe(TLweSample* s, const TLweParams* p) { for (int c = 0; c <= p->k; c++) for (int j = 0; j < p->N; j++) s->a[c].coefsT[j] = (Torus32)rw(); s->current_variance = ldexp((double)(1 + RNG->below(1000)), -30); }

static std::vector<Obj> make_objects(const P& q, bool with_keysets) {
    std::vector<Obj> v;
    LweParams* lp = new_LweParams(q.n, q.amin, q.amax);
    TLweParams* tp = new_TLweParams(q.N, q.kk, q.tmin, q.tmax);
    TGswParams* gp = new_TGswParams(q.l, q.Bgbit, tp);
    { Obj o; o.ty = "LweParams"; o.o = lp; EXP(LweParams, export_lweParams_toStream(st, X), export_lweParams_toFile(f, X));
      o.impS = [](std::istream& s) { return (void*)new_lweParams_fromStream(s); }; o.impF = [](FILE* f) { return (void*)new_lweParams_fromFile(f); };
      o.desc = [](void* x) { Desc d = D0(); setLP(d.p, (LweParams*)x); return d; }; o.del = [](void*) {}; v.push_back(o); }
    { LweSample* s = new_LweSample(lp); fillLwe(s, q.n); Obj o; o.ty = "LweSample"; o.o = s;
      EXP(LweSample, export_lweSample_toStream(st, X, lp), export_lweSample_toFile(f, X, lp));
      o.impS = [lp](std::istream& st) { LweSample* r = new_LweSample(lp); import_lweSample_fromStream(st, r, lp); return (void*)r; }; o.impF = [lp](FILE* f) { LweSample* r = new_LweSample(lp); import_lweSample_fromFile(f, r, lp); return (void*)r; };
      o.desc = [lp](void* x) { Desc d = D0(); setLP(d.p, lp); d.h = hLwe((LweSample*)x, lp->n); return d; }; o.del = [](void* x) { delete_LweSample((LweSample*)x); }; v.push_back(o); }
    { LweKey* k = new_LweKey(lp); for (int i = 0; i < q.n; i++) k->key[i] = RNG->below(2); Obj o; o.ty = "LweKey"; o.o = k;
      EXP(LweKey, export_lweKey_toStream(st, X), export_lweKey_toFile(f, X));
      o.impS = [](std::istream& st) { return (void*)new_lweKey_fromStream(st); }; o.impF = [](FILE* f) { return (void*)new_lweKey_fromFile(f); };
      o.desc = [](void* x) { LweKey* kk = (LweKey*)x; Desc d = D0(); setLP(d.p, kk->params); d.h = hmix(3, kk->key, 4 * (size_t)kk->params->n); return d; }; o.del = [](void* x) { delete_LweKey((LweKey*)x); }; v.push_back(o); }
    { Obj o; o.ty = "TLweParams"; o.o = tp; EXP(TLweParams, export_tLweParams_toStream(st, X), export_tLweParams_toFile(f, X));
      o.impS = [](std::istream& s) { return (void*)new_tLweParams_fromStream(s); }; o.impF = [](FILE* f) { return (void*)new_tLweParams_fromFile(f); };
      o.desc = [](void* x) { Desc d = D0(); setTP(d.p, (TLweParams*)x); return d; }; o.del = [](void*) {}; v.push_back(o); }
    { TLweSample* s = new_TLweSample(tp); fillTLwe(s, tp); Obj o; o.ty = "TLweSample"; o.o = s;
      EXP(TLweSample, export_tlweSample_toStream(st, X, tp), export_tlweSample_toFile(f, X, tp));
      o.impS = [tp](std::istream& st) { TLweSample* r = new_TLweSample(tp); import_tlweSample_fromStream(st, r, tp); return (void*)r; }; o.impF = [tp](FILE* f) { TLweSample* r = new_TLweSample(tp); import_tlweSample_fromFile(f, r, tp); return (void*)r; };
      o.desc = [tp](void* x) { Desc d = D0(); setTP(d.p, tp); d.h = hTLwe((TLweSample*)x, tp); return d; }; o.del = [](void* x) { delete_TLweSample((TLweSample*)x); }; v.push_back(o); }
    { TLweKey* k = new_TLweKey(tp); for (int c = 0; c < q.kk; c++) for (int j = 0; j < q.N; j++) k->key[c].coefs[j] = RNG->below(2); Obj o; o.ty = "TLweKey"; o.o = k;
      EXP(TLweKey, export_tlweKey_toStream(st, X), export_tlweKey_toFile(f, X));
      o.impS = [](std::istream& st) { return (void*)new_tlweKey_fromStream(st); }; o.impF = [](FILE* f) { return (void*)new_tlweKey_fromFile(f); };
      o.desc = [](void* x) { TLweKey* kk = (TLweKey*)x; Desc d = D0(); setTP(d.p, kk->params); uint64_t h = 5; for (int c = 0; c < kk->params->k; c++) h = hmix(h, kk->key[c].coefs, 4 * (size_t)kk->params->N); d.h = h; return d; };
      o.del = [](void* x) { delete_TLweKey((TLweKey*)x); }; v.push_back(o); }
    { Obj o; o.ty = "TGswParams"; o.o = gp; EXP(TGswParams, export_tGswParams_toStream(st, X), export_tGswParams_toFile(f, X));
      o.impS = [](std::istream& s) { return (void*)new_tGswParams_fromStream(s); }; o.impF = [](FILE* f) { return (void*)new_tGswParams_fromFile(f); };
      o.desc = [](void* x) { Desc d = D0(); setGP(d.p, (TGswParams*)x); return d; }; o.del = [](void*) {}; v.push_back(o); }
    { TGswSample* s = new_TGswSample(gp); for (int r = 0; r < gp->kpl; r++) fillTLwe(&s->all_sample[r], tp); Obj o; o.ty = "TGswSample"; o.o = s;
      EXP(TGswSample, export_tgswSample_toStream(st, X, gp), export_tgswSample_toFile(f, X, gp));
      o.impS = [gp](std::istream& st) { TGswSample* r = new_TGswSample(gp); import_tgswSample_fromStream(st, r, gp); return (void*)r; }; o.impF = [gp](FILE* f) { TGswSample* r = new_TGswSample(gp); import_tgswSample_fromFile(f, r, gp); return (void*)r; };
      o.desc = [gp](void* x) { Desc d = D0(); setGP(d.p, gp); d.h = hTGsw((TGswSample*)x, gp); return d; }; o.del = [](void* x) { delete_TGswSample((TGswSample*)x); }; v.push_back(o); }
    { TGswKey* k = new_TGswKey(gp); for (int c = 0; c < q.kk; c++) for (int j = 0; j < q.N; j++) k->key[c].coefs[j] = RNG->below(2); Obj o; o.ty = "TGswKey"; o.o = k;
      EXP(TGswKey, export_tgswKey_toStream(st, X), export_tgswKey_toFile(f, X));
      o.impS = [](std::istream& st) { return (void*)new_tgswKey_fromStream(st); }; o.impF = [](FILE* f) { return (void*)new_tgswKey_fromFile(f); };
      o.desc = [](void* x) { TGswKey* kk = (TGswKey*)x; Desc d = D0(); setGP(d.p, kk->params); uint64_t h = 6; for (int c = 0; c < kk->tlwe_params->k; c++) h = hmix(h, kk->key[c].coefs, 4 * (size_t)kk->tlwe_params->N); d.h = h; return d; };
      o.del = [](void* x) { delete_TGswKey((TGswKey*)x); }; v.push_back(o); }
    { LweKeySwitchKey* ks = new_LweKeySwitchKey(q.ksn, q.t, q.bb, lp); int tot = q.ksn * q.t * (1 << q.bb); for (int i = 0; i < tot; i++) fillLwe(&ks->ks0_raw[i], q.n);
      if (RNG->below(2)) { double vv = ldexp(1.0, -4 - (int)RNG->below(8)); ks->ks[RNG->below(q.ksn)][RNG->below(q.t)][0].current_variance = vv; }     // the maximum may sit on a digit-0 row
      Obj o; o.ty = "KSKey"; o.o = ks;
      EXP(LweKeySwitchKey, export_lweKeySwitchKey_toStream(st, X), export_lweKeySwitchKey_toFile(f, X));
      o.impS = [](std::istream& st) { return (void*)new_lweKeySwitchKey_fromStream(st); }; o.impF = [](FILE* f) { return (void*)new_lweKeySwitchKey_fromFile(f); };
      o.desc = [](void* x) { LweKeySwitchKey* k = (LweKeySwitchKey*)x; Desc d = D0(); setLP(d.p, k->out_params); d.p.ksn = k->n; d.p.t = k->t; d.p.bb = k->basebit; d.h = hKScoef(k, 9); ks_var(k, d); return d; };
      o.del = [](void* x) { delete_LweKeySwitchKey((LweKeySwitchKey*)x); }; v.push_back(o); }
    auto fillBK = [&](LweBootstrappingKey* bk) { for (int i = 0; i < q.n; i++) for (int r = 0; r < gp->kpl; r++) fillTLwe(&bk->bk[i].all_sample[r], tp); int tot = bk->ks->n * bk->ks->t * bk->ks->base; for (int i = 0; i < tot; i++) fillLwe(&bk->ks->ks0_raw[i], q.n); };
    auto descBK = [](const LweBootstrappingKey* bk, Desc& d) { setLP(d.p, bk->in_out_params); setGP(d.p, bk->bk_params); d.p.t = bk->ks->t; d.p.bb = bk->ks->basebit; d.p.ksn = bk->ks->n; d.h = hKScoef(bk->ks, 11);
        Desc dk = D0(); ks_var(bk->ks, dk); Desc db = D0(); d.h = hBKcoef(bk, d.h, db); d.vmax = dk.vmax; d.vuni = dk.vuni; d.vall = dk.vall; d.bvmax = db.vmax; d.bvuni = db.vuni; d.bvall = db.vall; };
    { LweBootstrappingKey* bk = new_LweBootstrappingKey(q.t, q.bb, lp, gp); fillBK(bk); Obj o; o.ty = "BKey"; o.o = bk;
      EXP(LweBootstrappingKey, export_lweBootstrappingKey_toStream(st, X), export_lweBootstrappingKey_toFile(f, X));
      o.impS = [](std::istream& st) { return (void*)new_lweBootstrappingKey_fromStream(st); }; o.impF = [](FILE* f) { return (void*)new_lweBootstrappingKey_fromFile(f); };
      o.desc = [descBK](void* x) { Desc d = D0(); descBK((LweBootstrappingKey*)x, d); return d; }; o.del = [](void* x) { delete_LweBootstrappingKey((LweBootstrappingKey*)x); }; v.push_back(o); }
    TFheGateBootstrappingParameterSet* gps = new TFheGateBootstrappingParameterSet(q.t, q.bb, lp, gp);
    { Obj o; o.ty = "GateParams"; o.o = gps; EXP(TFheGateBootstrappingParameterSet, export_tfheGateBootstrappingParameterSet_toStream(st, X), export_tfheGateBootstrappingParameterSet_toFile(f, X));
      o.impS = [](std::istream& s) { return (void*)new_tfheGateBootstrappingParameterSet_fromStream(s); }; o.impF = [](FILE* f) { return (void*)new_tfheGateBootstrappingParameterSet_fromFile(f); };
      o.desc = [](void* x) { auto g = (TFheGateBootstrappingParameterSet*)x; Desc d = D0(); setLP(d.p, g->in_out_params); setGP(d.p, g->tgsw_params); d.p.t = g->ks_t; d.p.bb = g->ks_basebit; return d; }; o.del = [](void*) {}; v.push_back(o); }
    { LweSample* s = new_LweSample(lp); fillLwe(s, q.n); Obj o; o.ty = "GateCt"; o.o = s;
      EXP(LweSample, export_gate_bootstrapping_ciphertext_toStream(st, X, gps), export_gate_bootstrapping_ciphertext_toFile(f, X, gps));
      o.impS = [gps, lp](std::istream& st) { LweSample* r = new_LweSample(lp); import_gate_bootstrapping_ciphertext_fromStream(st, r, gps); return (void*)r; }; o.impF = [gps, lp](FILE* f) { LweSample* r = new_LweSample(lp); import_gate_bootstrapping_ciphertext_fromFile(f, r, gps); return (void*)r; };
      o.desc = [lp](void* x) { Desc d = D0(); setLP(d.p, lp); d.h = hLwe((LweSample*)x, lp->n); return d; }; o.del = [](void* x) { delete_LweSample((LweSample*)x); }; v.push_back(o); }
    if (with_keysets) {
        LweBootstrappingKey* bk = new_LweBootstrappingKey(q.t, q.bb, lp, gp); fillBK(bk);
        LweKey* lk = new_LweKey(lp); for (int i = 0; i < q.n; i++) lk->key[i] = RNG->below(2);
        TGswKey* gk = new_TGswKey(gp); for (int c = 0; c < q.kk; c++) for (int j = 0; j < q.N; j++) gk->key[c].coefs[j] = RNG->below(2);
        TFheGateBootstrappingSecretKeySet* sk = new TFheGateBootstrappingSecretKeySet(gps, bk, NULL, lk, gk);
        const TFheGateBootstrappingCloudKeySet* ck = &sk->cloud;
        { Obj o; o.ty = "CloudKey"; o.o = (void*)ck; EXP(TFheGateBootstrappingCloudKeySet, export_tfheGateBootstrappingCloudKeySet_toStream(st, X), export_tfheGateBootstrappingCloudKeySet_toFile(f, X));
          o.impS = [](std::istream& s) { return (void*)new_tfheGateBootstrappingCloudKeySet_fromStream(s); }; o.impF = [](FILE* f) { return (void*)new_tfheGateBootstrappingCloudKeySet_fromFile(f); };
          o.desc = [descBK](void* x) { auto c = (const TFheGateBootstrappingCloudKeySet*)x; Desc d = D0(); descBK(c->bk, d); return d; }; o.del = [](void*) {}; v.push_back(o); }
        { Obj o; o.ty = "SecretKey"; o.o = sk; EXP(TFheGateBootstrappingSecretKeySet, export_tfheGateBootstrappingSecretKeySet_toStream(st, X), export_tfheGateBootstrappingSecretKeySet_toFile(f, X));
          o.impS = [](std::istream& s) { return (void*)new_tfheGateBootstrappingSecretKeySet_fromStream(s); }; o.impF = [](FILE* f) { return (void*)new_tfheGateBootstrappingSecretKeySet_fromFile(f); };
          o.desc = [descBK](void* x) { auto s = (TFheGateBootstrappingSecretKeySet*)x; Desc d = D0(); descBK(s->cloud.bk, d); d.h = hmix(d.h, s->lwe_key->key, 4 * (size_t)s->lwe_key->params->n);
              for (int c = 0; c < s->tgsw_key->tlwe_params->k; c++) d.h = hmix(d.h, s->tgsw_key->key[c].coefs, 4 * (size_t)s->tgsw_key->tlwe_params->N); return d; }; o.del = [](void*) {}; v.push_back(o); }
    }
    return v;
}

#endif
