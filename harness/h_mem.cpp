// C16: API lifecycles and a matrix of parameter configurations executed under the allocation ledger (red zones, fill pattern,
// poison + quarantine on free).  Prints, per scenario: allocation counts, live bytes/blocks left, damaged red-zone bytes,
// double frees, and hashes of the results (to be compared across two fill patterns and with the plaintext computation).
#include "vh_ledger.h"
#include "vh_hash.h"
#include <tfhe_io.h>
#include <tfhe_garbage_collector.h>
#include <polynomials_arithmetic.h>
#include <thread>
#include <functional>
#include <sstream>
#include <sys/wait.h>

static void report(const char* scen, const char* cfg, const led::Snap& a, const led::Snap& b, uint64_t h, long okbits, long bits, int strict = 1) {
    VH_B; vh_s("e", "Scenario"); VH_C; vh_i("strict", strict); VH_C; vh_s("scen", scen); VH_C; vh_s("cfg", cfg); VH_C; vh_i("fill", led::fill.load()); VH_C; vh_i("allocs", b.nalloc - a.nalloc); VH_C; vh_i("frees", b.nfree - a.nfree); VH_C;
    vh_i("live_bytes", b.bytes - a.bytes); VH_C; vh_i("live_blocks", b.blocks - a.blocks); VH_C; vh_i("damaged", b.damaged - a.damaged); VH_C; vh_i("dfree", b.dfree - a.dfree); VH_C; vh_h("h", h); VH_C; vh_i("okbits", okbits); VH_C; vh_i("bits", bits); VH_E;
    fflush(stdout);
}
struct Cfg { int n, k, l, bg, t, bb; };
// full lifecycle for one configuration: parameters, key generation, encryption, every kind of gate, decryption, export/import of the cloud key, deletion in the API's order
static void lifecycle(const Cfg& c, unsigned seed, int order, const char* scen = "lifecycle", int pos = -1) {
    char cfg[112]; snprintf(cfg, sizeof cfg, "n=%d k=%d l=%d Bgbit=%d t=%d basebit=%d order=%d", c.n, c.k, c.l, c.bg, c.t, c.bb, order);
    if (pos >= 0) snprintf(cfg + strlen(cfg), sizeof cfg - strlen(cfg), " pos=%d", pos);
    uint32_t sv[2] = {seed, 0x16u}; tfhe_random_generator_setSeed(sv, 2);
    led::Snap s0 = led::snap();
    uint64_t h = 7; long ok = 0, bits = 0;
    {
        LweParams* lp = new_LweParams(c.n, 1e-7, 0.01); TLweParams* tp = new_TLweParams(1024, c.k, 1e-9, 0.01); TGswParams* gp = new_TGswParams(c.l, c.bg, tp);
        TFheGateBootstrappingParameterSet* ps = new TFheGateBootstrappingParameterSet(c.t, c.bb, lp, gp);
        TFheGateBootstrappingSecretKeySet* sk = new_random_gate_bootstrapping_secret_keyset(ps);
        LweSample* ct = new_gate_bootstrapping_ciphertext_array(6, ps);
        int x = seed & 1, y = (seed >> 1) & 1, z = (seed >> 2) & 1;
        bootsSymEncrypt(ct, x, sk); bootsSymEncrypt(ct + 1, y, sk); bootsSymEncrypt(ct + 2, z, sk);
        const TFheGateBootstrappingCloudKeySet* bk = &sk->cloud;
        bootsNAND(ct + 3, ct, ct + 1, bk); bits++; ok += bootsSymDecrypt(ct + 3, sk) == (1 - x * y);
        bootsXOR(ct + 4, ct + 3, ct + 2, bk); bits++; ok += bootsSymDecrypt(ct + 4, sk) == ((1 - x * y) ^ z);
        bootsMUX(ct + 5, ct, ct + 1, ct + 2, bk); bits++; ok += bootsSymDecrypt(ct + 5, sk) == (x ? y : z);
        bootsNOT(ct + 3, ct + 5, bk); bootsCOPY(ct + 4, ct + 3, bk); bootsCONSTANT(ct + 2, 1, bk); bootsANDYN(ct + 5, ct + 4, ct + 2, bk); bits++; ok += bootsSymDecrypt(ct + 5, sk) == ((1 - (x ? y : z)) & 0);
        // gates whose inputs are all noiseless constants (every rounded mask coefficient is zero: the blind rotation has nothing to rotate by)
        bootsCONSTANT(ct + 4, 0, bk);                                        // ct[2] is the constant 1 already
        bootsNAND(ct + 5, ct + 2, ct + 4, bk); bits++; ok += bootsSymDecrypt(ct + 5, sk) == 1;
        bootsXOR(ct + 5, ct + 2, ct + 2, bk); bits++; ok += bootsSymDecrypt(ct + 5, sk) == 0;
        bootsMUX(ct + 5, ct + 2, ct + 4, ct + 2, bk); bits++; ok += bootsSymDecrypt(ct + 5, sk) == 0;
        // export the cloud key and the ciphertexts, re-import, evaluate with the re-imported key
        std::ostringstream os; export_tfheGateBootstrappingCloudKeySet_toStream(os, bk); export_gate_bootstrapping_ciphertext_toStream(os, ct + 3, ps);
        std::string blob = os.str(); h = hmix(h, blob.data(), blob.size());
        std::istringstream is(blob); TFheGateBootstrappingCloudKeySet* ck = new_tfheGateBootstrappingCloudKeySet_fromStream(is);
        LweSample* c2 = new_gate_bootstrapping_ciphertext(ck->params); import_gate_bootstrapping_ciphertext_fromStream(is, c2, ck->params);
        bootsOR(ct + 4, c2, ct, ck); bits++; ok += bootsSymDecrypt(ct + 4, sk) == (((1 - (x ? y : z))) | x);
        std::ostringstream o2; export_tfheGateBootstrappingSecretKeySet_toStream(o2, sk); h = hmix(h, o2.str().data(), o2.str().size());
        for (int i = 3; i < 6; i++) h = hLwe(ct + i, c.n, h);
        // deletion, in one of the orders the API allows
        if (order == 0) { delete_gate_bootstrapping_ciphertext(c2); delete_gate_bootstrapping_cloud_keyset(ck); delete_gate_bootstrapping_ciphertext_array(6, ct); delete_gate_bootstrapping_secret_keyset(sk); }
        else if (order == 1) { delete_gate_bootstrapping_secret_keyset(sk); delete_gate_bootstrapping_ciphertext_array(6, ct); delete_gate_bootstrapping_cloud_keyset(ck); delete_gate_bootstrapping_ciphertext(c2); }
        else {   // drop the coefficient-domain key first and keep evaluating with the FFT key (a cloud key set with bk == NULL is supported by the deletion API)
            LweBootstrappingKey* cbk = (LweBootstrappingKey*)ck->bk; delete_LweBootstrappingKey(cbk); *(const LweBootstrappingKey**)&ck->bk = NULL;
            bootsAND(ct + 3, c2, ct, ck); bits++; ok += bootsSymDecrypt(ct + 3, sk) == ((1 - (x ? y : z)) & x); bootsMUX(ct + 4, ct, ct + 3, ct + 1, ck); h = hLwe(ct + 3, c.n, h); h = hLwe(ct + 4, c.n, h);
            delete_gate_bootstrapping_ciphertext(c2); delete_gate_bootstrapping_cloud_keyset(ck); delete_gate_bootstrapping_ciphertext_array(6, ct); delete_gate_bootstrapping_secret_keyset(sk); }
        delete ps; delete_TGswParams(gp); delete_TLweParams(tp); delete_LweParams(lp);
        TfheGarbageCollector::finalize();             // parameters created by the importers are owned by the collector
    }
    led::Snap s1 = led::snap();
    report(scen, cfg, s0, s1, h, ok, bits, 0);   // not strict: a per-thread or one-time cache may legitimately stay alive until the thread / process ends
}
// runs f on a fresh thread and joins it: state a library keeps per thread must be gone when the thread has exited, so it is inside the window;
// the ledger windows themselves are taken by lifecycle() on that thread, and one more window around the whole thread
static void on_thread(const char* scen, const char* cfg, const std::function<void()>& f) {
    led::Snap s0 = led::snap();
    { std::thread t(f); t.join(); }
    led::Snap s1 = led::snap();
    report(scen, cfg, s0, s1, 0, 0, 0);
}
static void objects_body() {      // every alloc/new/delete pair of the public allocation API on small objects
    { LweParams* lp = new_LweParams(7, 0, 1); LweSample* a = new_LweSample(lp); LweSample* b = new_LweSample_array(3, lp); LweKey* k = new_LweKey(lp); LweKeySwitchKey* ks = new_LweKeySwitchKey(5, 2, 2, lp);
      TLweParams* tp = new_TLweParams(16, 2, 0, 1); TLweSample* t = new_TLweSample(tp); TLweSample* ta = new_TLweSample_array(2, tp); TLweKey* tk = new_TLweKey(tp); TLweParams* tp2 = new_TLweParams(1024, 1, 0, 1); TLweSampleFFT* tf = new_TLweSampleFFT(tp2);
      TGswParams* gp = new_TGswParams(2, 4, tp); TGswSample* g = new_TGswSample(gp); TGswKey* gk = new_TGswKey(gp); IntPolynomial* ip = new_IntPolynomial_array(3, 16); TorusPolynomial* pp = new_TorusPolynomial(16);
      LagrangeHalfCPolynomial* lh = new_LagrangeHalfCPolynomial_array(2, 1024);
      delete_LagrangeHalfCPolynomial_array(2, lh); delete_TorusPolynomial(pp); delete_IntPolynomial_array(3, ip); delete_TGswKey(gk); delete_TGswSample(g); delete_TGswParams(gp);
      delete_TLweSampleFFT(tf); delete_TLweParams(tp2); delete_TLweKey(tk); delete_TLweSample_array(2, ta); delete_TLweSample(t); delete_TLweParams(tp); delete_LweKeySwitchKey(ks); delete_LweKey(k); delete_LweSample_array(3, b); delete_LweSample(a); delete_LweParams(lp); }
}
// first on the calling thread (whatever the library allocates once per process or per thread happens here, window not strict), then on a fresh thread inside a
// strict window: nothing may outlive that thread
static void objects() {
    led::Snap s0 = led::snap(); objects_body(); led::Snap s1 = led::snap();
    report("objects", "small", s0, s1, 0, 0, 0, 0);
    on_thread("objects-thread", "small", []() { objects_body(); });
}
// polynomial-level routines at the exponents and sizes where index arithmetic degenerates (first / second half empty): under --guard an access one past a
// coefficient array faults, and red zones see the writes
static uint64_t polyops_body() {
    uint64_t h = 11;
    { int Ns[3] = {256, 512, 1024};
      for (int q = 0; q < 3; q++) { int N = Ns[q];
        TorusPolynomial* a = new_TorusPolynomial(N); TorusPolynomial* r = new_TorusPolynomial(N); IntPolynomial* ia = new_IntPolynomial(N); IntPolynomial* ir = new_IntPolynomial(N);
        for (int i = 0; i < N; i++) { a->coefsT[i] = (Torus32)(i * 2654435761u); ia->coefs[i] = (i % 7) - 3; }
        int ex[8] = {0, 1, N - 1, N, N + 1, 2 * N - 1, N / 2, 3 * N / 2};
        for (int e = 0; e < 8; e++) { torusPolynomialMulByXai(r, ex[e], a); h = hPoly(r, h); torusPolynomialMulByXaiMinusOne(r, ex[e], a); h = hPoly(r, h); intPolynomialMulByXaiMinusOne(ir, ex[e], ia); h = hmix(h, ir->coefs, 4 * (size_t)N); }
        torusPolynomialMultKaratsuba(r, ia, a); h = hPoly(r, h); torusPolynomialAddMulRKaratsuba(r, ia, a); h = hPoly(r, h); torusPolynomialSubMulRKaratsuba(r, ia, a); h = hPoly(r, h);
        if (N <= 512) { torusPolynomialMultNaive(r, ia, a); h = hPoly(r, h); }
        torusPolynomialAddMulZ(r, a, 0, a); torusPolynomialSubMulZTo(r, -3, a); torusPolynomialAddTo(r, a); h = hPoly(r, h);
        if (N == 1024) { torusPolynomialMultFFT(r, ia, a); torusPolynomialAddMulRFFT(r, ia, a); torusPolynomialSubMulRFFT(r, ia, a); }     // (FFT results differ in the last bits between back-ends: not hashed)
        delete_TorusPolynomial(a); delete_TorusPolynomial(r); delete_IntPolynomial(ia); delete_IntPolynomial(ir); } }
    return h;
}
static void polyops() {      // as above: first run not strict (a routine may keep per-thread scratch between calls), then a fresh thread in a strict window
    led::Snap s0 = led::snap(); uint64_t h = polyops_body(); led::Snap s1 = led::snap();
    report("polyops", "N=256,512,1024", s0, s1, h, 0, 0, 0);
    s0 = led::snap(); uint64_t h2 = 0; { std::thread t([&]() { h2 = polyops_body(); }); t.join(); } s1 = led::snap();
    report("polyops-thread", "N=256,512,1024", s0, s1, h2, 0, 0);
}
static void threads(int T) {  // per-thread FFT state must be released when the thread exits
    led::Snap s0 = led::snap();
    for (int r = 0; r < T; r++) { std::thread t([]() { IntPolynomial* p = new_IntPolynomial(1024); TorusPolynomial* q = new_TorusPolynomial(1024); TorusPolynomial* o = new_TorusPolynomial(1024);
            for (int i = 0; i < 1024; i++) { p->coefs[i] = i % 3 - 1; q->coefsT[i] = i * 77777; } torusPolynomialMultFFT(o, p, q); delete_TorusPolynomial(o); delete_TorusPolynomial(q); delete_IntPolynomial(p); });
        t.join(); }
    led::Snap s1 = led::snap();
    char cfg[32]; snprintf(cfg, sizeof cfg, "threads=%d", T);
    report("threads", cfg, s0, s1, 0, 0, 0);
}
int main(int argc, char** argv) {
    vh_init();
    led::fill = (int)vh_arg(argc, argv, "--fill", 0xA5);
    led::guard = (int)vh_arg(argc, argv, "--guard", 0);        // end 1..64 KiB blocks on an inaccessible page: an access past the end of a polynomial / sample array faults
    unsigned seed = vh_arg(argc, argv, "--seed", 1);
    // warm-up: the main thread's FFT processor and stdio buffers are allocated outside every window
    { IntPolynomial* p = new_IntPolynomial(1024); TorusPolynomial* q = new_TorusPolynomial(1024); TorusPolynomial* o = new_TorusPolynomial(1024); intPolynomialClear(p); torusPolynomialClear(q); torusPolynomialMultFFT(o, p, q); delete_TorusPolynomial(o); delete_TorusPolynomial(q); delete_IntPolynomial(p);
      std::ostringstream w; w << 1.5 << 12; std::istringstream r("1 2"); int z; r >> z;
      std::thread t0([]() { IntPolynomial* p = new_IntPolynomial(8); delete_IntPolynomial(p); }); t0.join(); }      // one-time allocations of the threading runtime
    objects();
    { fflush(stdout); pid_t pid = fork(); if (pid == 0) { polyops(); fflush(stdout); _exit(0); }        // in a child: a fault is an observation
      int st = 0; waitpid(pid, &st, 0);
      if (!(WIFEXITED(st) && WEXITSTATUS(st) == 0)) { VH_B; vh_s("e", "Crash"); VH_C; vh_s("scen", "polyops"); VH_C; vh_s("cfg", led::guard.load() ? "guard pages" : "red zones"); VH_C; vh_i("fill", led::fill.load()); VH_C; vh_i("sig", WIFSIGNALED(st) ? WTERMSIG(st) : -WEXITSTATUS(st)); VH_E; } }
    threads((int)vh_arg(argc, argv, "--threads", 4));
    std::vector<long> ns = vh_list(vh_sarg(argc, argv, "--n", "1,3,7,8,9,64"));
    // (l, Bgbit, t, basebit): valid layouts (l*Bgbit >= 20, t*basebit >= 15), incl. the extremes l*Bgbit = 32, t*basebit = 31, Bgbit = 2, basebit = 1
    const int NL = 6; int layouts[NL][4] = {{3, 7, 8, 2}, {2, 10, 5, 3}, {4, 8, 4, 4}, {7, 3, 16, 1}, {2, 16, 31, 1}, {10, 2, 5, 3}};
    int q = 0;
    for (long n : ns) for (int k = 1; k <= (int)vh_arg(argc, argv, "--kmax", 2); k++) { Cfg c = {(int)n, k, layouts[q % NL][0], layouts[q % NL][1], layouts[q % NL][2], layouts[q % NL][3]};
        // each configuration in its own child: a crash is an observation, and the ledger of one configuration does not disturb the next
        fflush(stdout); pid_t pid = fork(); if (pid == 0) { int ord = q % 3; unsigned sd = seed + q; char tc[96]; snprintf(tc, sizeof tc, "thread of n=%d k=%d l=%d order=%d", c.n, c.k, c.l, ord);
            lifecycle(c, sd, ord);                                               // first use in this process: one-time allocations happen here
            on_thread("lifecycle-thread", tc, [=]() { lifecycle(c, sd, ord); });     // same seed: same results (memo), and nothing may outlive the thread
            fflush(stdout); _exit(0); }
        int st = 0; waitpid(pid, &st, 0);
        if (!(WIFEXITED(st) && WEXITSTATUS(st) == 0)) { char cfg[96]; snprintf(cfg, sizeof cfg, "n=%d k=%d l=%d Bgbit=%d t=%d basebit=%d order=%d", c.n, c.k, c.l, c.bg, c.t, c.bb, q % 3);
            VH_B; vh_s("e", "Crash"); VH_C; vh_s("scen", "lifecycle"); VH_C; vh_s("cfg", cfg); VH_C; vh_i("fill", led::fill.load()); VH_C; vh_i("sig", WIFSIGNALED(st) ? WTERMSIG(st) : -WEXITSTATUS(st)); VH_E; }
        q++; }
    // histories: several configurations back to back on ONE thread of one process (what a per-thread or static cache keyed by too little would get wrong);
    // the orders include equal N and equal (k+1)*l with growing and shrinking k, growing and shrinking n, and a repeat of the first configuration
    { Cfg seqs[2][5] = {{{9, 1, 3, 7, 8, 2}, {7, 2, 2, 10, 5, 3}, {3, 1, 2, 10, 5, 3}, {8, 2, 4, 8, 4, 4}, {9, 1, 3, 7, 8, 2}},
                        {{3, 2, 2, 10, 5, 3}, {8, 1, 3, 7, 8, 2}, {1, 1, 6, 4, 8, 2}, {7, 2, 4, 6, 5, 3}, {12, 1, 2, 10, 4, 4}}};
      for (int sq = 0; sq < 2; sq++) { fflush(stdout); pid_t pid = fork();
        if (pid == 0) { char tc[32]; snprintf(tc, sizeof tc, "sequence %d", sq); const Cfg* cs = seqs[sq];
            auto body = [=]() { for (int i = 0; i < 5; i++) lifecycle(cs[i], seed + 100 + i, i % 3, "sequence", sq * 10 + i); };
            body(); on_thread("sequence-thread", tc, body);
            fflush(stdout); _exit(0); }
        int st = 0; waitpid(pid, &st, 0);
        if (!(WIFEXITED(st) && WEXITSTATUS(st) == 0)) { char cfg[32]; snprintf(cfg, sizeof cfg, "sequence %d", sq);
            VH_B; vh_s("e", "Crash"); VH_C; vh_s("scen", "sequence"); VH_C; vh_s("cfg", cfg); VH_C; vh_i("fill", led::fill.load()); VH_C; vh_i("sig", WIFSIGNALED(st) ? WTERMSIG(st) : -WEXITSTATUS(st)); VH_E; } } }
    fflush(stdout);
    return 0;
}
