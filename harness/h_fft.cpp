// C10: (prog) execute FFTLagrange programs on the real Lagrange-domain API through the embeddings and print what each forward
// transform returns; (dense) FFT products of the input families the property names against the library's exact Karatsuba product.
#include <tfhe.h>
#include <polynomials_arithmetic.h>
#include <lagrangehalfc_arithmetic.h>
#include "vh.h"
#include <fstream>
#include <sstream>
#include <cmath>
#include <sys/wait.h>
static const int N = 1024;
static void wl(const char* k, const std::vector<uint32_t>& v) { fprintf(vh_out, "\"%s\":[", k); for (size_t i = 0; i < v.size(); i++) fprintf(vh_out, "%s[%u,%u]", i ? "," : "", v[i] >> 16, v[i] & 0xffff); fputc(']', vh_out); }
// ---------- program mode ----------
static int prog(const char* path, int NP, int W) {
    int stride = N / NP, sh = 32 - W;
    // pools must be those of Gen_FFT (indices only travel in the program)
    int IP[6][4] = {{1,0,0,0},{0,0,0,1},{-1,1,-1,1},{2,-2,1,0},{0,-1,0,0},{1,1,1,1}};
    int TP[5][4] = {{1,0,0,0},{255,128,127,0},{17,200,3,99},{0,0,0,255},{128,128,128,128}};
    LagrangeHalfCPolynomial* L = new_LagrangeHalfCPolynomial_array(3, N);
    IntPolynomial* ip = new_IntPolynomial(N); TorusPolynomial* tp = new_TorusPolynomial(N); TorusPolynomial* out = new_TorusPolynomial(N);
    for (int r = 0; r < 3; r++) LagrangeHalfCPolynomialClear(L + r);
    std::ifstream in(path); std::string line; long seq = 0;
    VH_B; vh_i("seq", seq++); VH_C; vh_s("e", "Reset"); VH_E;
    while (std::getline(in, line)) {
        std::istringstream ls(line); std::string op; int d, a, b; ls >> op >> d >> a >> b;
        if (op == "reset") { for (int r = 0; r < 3; r++) LagrangeHalfCPolynomialClear(L + r); VH_B; vh_i("seq", seq++); VH_C; vh_s("e", "Reset"); VH_E; continue; }
        if (op == "IfftI") { intPolynomialClear(ip); for (int i = 0; i < NP; i++) ip->coefs[i * stride] = IP[a - 1][i]; IntPolynomial_ifft(L + d, ip); }
        else if (op == "IfftT") { torusPolynomialClear(tp); for (int i = 0; i < NP; i++) tp->coefsT[i * stride] = (Torus32)((uint32_t)TP[a - 1][i] << sh); TorusPolynomial_ifft(L + d, tp); }
        else if (op == "Clear") LagrangeHalfCPolynomialClear(L + d);
        else if (op == "SetC") LagrangeHalfCPolynomialSetTorusConstant(L + d, (Torus32)((uint32_t)a << sh));
        else if (op == "AddC") LagrangeHalfCPolynomialAddTorusConstant(L + d, (Torus32)((uint32_t)a << sh));
        else if (op == "AddTo") LagrangeHalfCPolynomialAddTo(L + d, L + a);
        else if (op == "Mul") LagrangeHalfCPolynomialMul(L + d, L + a, L + b);
        else if (op == "AddMul") LagrangeHalfCPolynomialAddMul(L + d, L + a, L + b);
        else if (op == "SubMul") LagrangeHalfCPolynomialSubMul(L + d, L + a, L + b);
        VH_B; vh_i("seq", seq++); VH_C; vh_s("e", op.c_str()); VH_C; vh_i("d", d); VH_C; vh_i("a", a); VH_C; vh_i("b", b);
        if (op == "Fft") { TorusPolynomial_fft(out, L + d); std::vector<uint32_t> v(NP); long off = 0;
            for (int j = 0; j < N; j++) { if (j % stride == 0) v[j / stride] = (uint32_t)out->coefsT[j]; else { long x = labs((long)out->coefsT[j]); if (x > off) off = x; } }
            VH_C; wl("out", v); VH_C; vh_i("off", off); }
        VH_E;
    }
    fflush(stdout); return 0;
}
// ---------- dense families ----------
static void fill_int(IntPolynomial* a, int fam, long B, VhRng& r) {
    for (int i = 0; i < N; i++) { long v;
        switch (fam) { case 0: v = (long)(r.next() % (2 * B + 1)) - B; break;                 // random in [-B, B]
            case 1: v = B; break;                                                              // all maximal
            case 2: v = (i & 1) ? -B : B; break;                                               // alternating sign
            case 3: v = (i == (int)(r.below(N))) ? B : 0; break;                               // (handled below) single spike
            default: v = r.below(2); }                                                         // sparse binary (a key)
        a->coefs[i] = (int32_t)v; }
    if (fam == 3) { for (int i = 0; i < N; i++) a->coefs[i] = 0; a->coefs[r.below(N)] = (int32_t)(r.below(2) ? B : -B); }
}
static void fill_torus(TorusPolynomial* b, int fam, VhRng& r) {
    for (int i = 0; i < N; i++) { uint32_t v;
        switch (fam) { case 0: v = r.u32(); break; case 1: v = 0x7fffffffu; break; case 2: v = (i & 1) ? 0x80000000u : 0x7fffffffu; break; default: v = 0; }
        b->coefsT[i] = (Torus32)v; }
    if (fam == 3) { b->coefsT[r.below(N)] = (Torus32)0x80000000u; b->coefsT[r.below(N)] = (Torus32)0x7fffffffu; }
}
static long maxdiff(const TorusPolynomial* x, const TorusPolynomial* y) { long m = 0; for (int i = 0; i < N; i++) { long d = labs((long)(int32_t)((uint32_t)x->coefsT[i] - (uint32_t)y->coefsT[i])); if (d > m) m = d; } return m; }
static int dense(unsigned seed, int reps) {
    IntPolynomial* a = new_IntPolynomial(N); TorusPolynomial* b = new_TorusPolynomial(N); TorusPolynomial* ex = new_TorusPolynomial(N); TorusPolynomial* ff = new_TorusPolynomial(N); TorusPolynomial* acc0 = new_TorusPolynomial(N);
    LagrangeHalfCPolynomial* L = new_LagrangeHalfCPolynomial_array(3, N);
    long Bs[5] = {1, 64, 512, 32768, 1048576};
    const char* ifam[5] = {"random", "allmax", "altsign", "spike", "binary"}; const char* tfam[4] = {"random", "allmax", "altminmax", "spikes"};
    for (int rep = 0; rep < reps; rep++) for (int bi = 0; bi < 5; bi++) for (int fa = 0; fa < 5; fa++) for (int fb = 0; fb < 4; fb++) {
        if (fa == 4 && bi > 0) continue;
        VhRng rc(seed * 7919u + rep * 1000 + bi * 100 + fa * 10 + fb);
        fflush(stdout);
        int efd[2]; if (pipe(efd)) return 3;
        pid_t pid = fork();                       // one case per child: a debug-build assertion of the library must not hide the other cases
        if (pid == 0) {
            signal(SIGABRT, SIG_DFL); close(efd[0]); dup2(efd[1], 2);
            fill_int(a, fa, Bs[bi], rc); fill_torus(b, fb, rc);
            for (int i = 0; i < N; i++) acc0->coefsT[i] = (Torus32)rc.u32();
            long d[6];
            torusPolynomialMultKaratsuba(ex, a, b); torusPolynomialMultFFT(ff, a, b); d[0] = maxdiff(ex, ff);
            torusPolynomialCopy(ex, acc0); torusPolynomialCopy(ff, acc0); torusPolynomialAddMulRKaratsuba(ex, a, b); torusPolynomialAddMulRFFT(ff, a, b); d[1] = maxdiff(ex, ff);
            torusPolynomialCopy(ex, acc0); torusPolynomialCopy(ff, acc0); torusPolynomialSubMulRKaratsuba(ex, a, b); torusPolynomialSubMulRFFT(ff, a, b); d[2] = maxdiff(ex, ff);
            TorusPolynomial_ifft(L, b); TorusPolynomial_fft(ff, L); d[3] = maxdiff(b, ff);                                              // inverse then forward: the identity
            IntPolynomial_ifft(L + 1, a); LagrangeHalfCPolynomialMul(L + 2, L + 1, L); TorusPolynomial_ifft(L, acc0); LagrangeHalfCPolynomialAddTo(L + 2, L); TorusPolynomial_fft(ff, L + 2);
            torusPolynomialCopy(ex, acc0); torusPolynomialAddMulRKaratsuba(ex, a, b); d[4] = maxdiff(ex, ff);                            // Lagrange-domain multiply then add commutes with the transforms
            LagrangeHalfCPolynomialClear(L + 2); LagrangeHalfCPolynomialAddMul(L + 2, L + 1, L); LagrangeHalfCPolynomialAddTorusConstant(L + 2, (Torus32)0x40000000);
            TorusPolynomial_fft(ff, L + 2); torusPolynomialMultKaratsuba(ex, a, acc0); ex->coefsT[0] += (Torus32)0x40000000; d[5] = maxdiff(ex, ff);   // clear, multiply-add, constant
            VH_B; vh_s("k", "dense"); VH_C; vh_i("B", Bs[bi]); VH_C; vh_i("Bi", bi); VH_C; vh_s("fa", ifam[fa]); VH_C; vh_s("fb", tfam[fb]); VH_C;
            fprintf(vh_out, "\"d\":[%ld,%ld,%ld,%ld,%ld,%ld]", d[0], d[1], d[2], d[3], d[4], d[5]); VH_E;
            fflush(stdout); _exit(0);
        }
        close(efd[1]); std::string emsg; { char buf[512]; ssize_t n; while ((n = read(efd[0], buf, sizeof buf)) > 0) emsg.append(buf, n); close(efd[0]); }
        int st = 0; waitpid(pid, &st, 0);
        // the site of a failed assertion: "<file>:<line>: <function>: Assertion `...' failed."
        std::string site = "unknown"; { size_t a = emsg.find(".cpp:"); if (a != std::string::npos) { size_t b0 = emsg.rfind('/', a); size_t c = emsg.find(": Assertion", a); if (c != std::string::npos) { std::string w = emsg.substr(b0 == std::string::npos ? 0 : b0 + 1, c - (b0 == std::string::npos ? 0 : b0 + 1)); size_t q = w.find(':'); size_t q2 = w.find(':', q + 1); size_t par = w.find('('); size_t sp = w.rfind(' ', par); site = w.substr(0, q) + ":" + (par != std::string::npos && sp != std::string::npos ? w.substr(sp + 1, par - sp - 1) : w.substr(q2 + 2)); } } }
        if (!(WIFEXITED(st) && WEXITSTATUS(st) == 0)) { VH_B; vh_s("k", "abort"); VH_C; vh_s("site", site.c_str()); VH_C; vh_i("B", Bs[bi]); VH_C; vh_i("Bi", bi); VH_C; vh_s("fa", ifam[fa]); VH_C; vh_s("fb", tfam[fb]); VH_C; vh_i("sig", WIFSIGNALED(st) ? WTERMSIG(st) : -WEXITSTATUS(st)); VH_E; }
    }
    fflush(stdout); return 0;
}
int main(int argc, char** argv) {
    vh_init();
    if (argc >= 3 && !strcmp(argv[1], "prog")) return prog(argv[2], (int)vh_arg(argc, argv, "--NP", 4), (int)vh_arg(argc, argv, "--W", 8));
    if (argc >= 2 && !strcmp(argv[1], "dense")) return dense((unsigned)vh_arg(argc, argv, "--seed", 1), (int)vh_arg(argc, argv, "--reps", 1));
    fprintf(stderr, "usage: h_fft prog <file> | dense\n"); return 2;
}
