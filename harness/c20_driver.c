/* C20: one source compiled as C99 and as C++11 (-x c++): prints the layout of every public structure as this view sees it and runs
   one API behaviour (seeded key generation, encryption, a gate, decryption, field reads, export) printing what it observes. */
#include <stdio.h>
#include <stddef.h>
#include <stdlib.h>
#include <string.h>
#include <tfhe.h>
#include <tfhe_io.h>
#ifdef __cplusplus
#define VIEW "c++11"
#else
#define VIEW "c99"
#endif
static unsigned long long hmix(unsigned long long h, const void* p, size_t n) { const unsigned char* c = (const unsigned char*)p; size_t i; for (i = 0; i < n; i++) { h = (h ^ c[i]) * 1099511628211ULL; } return h; }
static const unsigned short* r16(const TorusPolynomial* p, unsigned short* q) { int i; for (i = 0; i < p->N; i++) q[i] = (unsigned short)((((unsigned)p->coefsT[i]) + 0x8000u) >> 16); return q; }
static void obs(const char* key, unsigned long long h) { printf("{\"e\":\"Obs\",\"view\":\"%s\",\"key\":\"%s\",\"val\":[%u,%u]}\n", VIEW, key, (unsigned)(h & 0x7fffffff), (unsigned)((h >> 31) & 0x7fffffff)); }
int main(int argc, char** argv) {
    (void)argc; (void)argv;
#define S(s) printf("{\"e\":\"Layout\",\"view\":\"%s\",\"struct\":\"%s\",\"size\":%lu,\"fields\":[", VIEW, #s, (unsigned long)sizeof(s)); { int first = 1;
#define F(s, f) printf("%s[\"%s\",%lu]", first ? "" : ",", #f, (unsigned long)offsetof(s, f)); first = 0;
#define E() printf("]}\n"); }
#include "c20_layout.inc"
    {
        uint32_t seed[2] = {20, 99};
        TFheGateBootstrappingParameterSet* p; TFheGateBootstrappingSecretKeySet* sk; LweSample* c; int i, bits = 0; FILE* f; char* buf = 0; size_t len = 0; unsigned long long h;
        tfhe_random_generator_setSeed(seed, 2);
        p = new_default_gate_bootstrapping_parameters(80);
        sk = new_random_gate_bootstrapping_secret_keyset(p);
        c = new_gate_bootstrapping_ciphertext_array(3, p);
        bootsSymEncrypt(c, 1, sk); bootsSymEncrypt(c + 1, 0, sk);
        bootsNAND(c + 2, c, c + 1, &sk->cloud);
        bits = bootsSymDecrypt(c + 2, sk) * 4 + bootsSymDecrypt(c, sk) * 2 + bootsSymDecrypt(c + 1, sk);
        obs("P:decrypted_bits", (unsigned long long)bits);
        /* field reads through this view of the headers */
        obs("P:params.n", (unsigned long long)p->in_out_params->n); obs("P:params.N", (unsigned long long)p->tgsw_params->tlwe_params->N); obs("P:params.k", (unsigned long long)p->tgsw_params->tlwe_params->k);
        obs("P:params.l", (unsigned long long)p->tgsw_params->l); obs("P:params.kpl", (unsigned long long)p->tgsw_params->kpl); obs("P:params.ks_t", (unsigned long long)p->ks_t);
        obs("P:ks.base", (unsigned long long)sk->cloud.bk->ks->base); obs("P:ks.n", (unsigned long long)sk->cloud.bk->ks->n);
        obs("P:lwe_key", hmix(1, sk->lwe_key->key, 4 * (size_t)p->in_out_params->n));
        obs("P:tgsw_key", hmix(2, sk->tgsw_key->key[0].coefs, 4 * 1024));
        obs("P:fresh_ct", hmix(3, c->a, 4 * (size_t)p->in_out_params->n) ^ (unsigned long long)(unsigned)c->b);
        obs("P:ks_row", hmix(4, sk->cloud.bk->ks->ks[5][3][2].a, 4 * (size_t)p->in_out_params->n));
        obs("V:bk_row", hmix(5, sk->cloud.bk->bk[3].all_sample[2].a[1].coefsT, 4 * 1024));
        obs("V:gate_output", hmix(6, c[2].a, 4 * (size_t)p->in_out_params->n) ^ (unsigned long long)(unsigned)c[2].b);     /* may depend on the FFT back-end, not on the view */
        for (i = 0; i < 4; i++) { char k[32]; sprintf(k, "P:h[%d]", i); if (i < p->tgsw_params->l) obs(k, (unsigned long long)(unsigned)p->tgsw_params->h[i]); }
        f = open_memstream(&buf, &len); export_tfheGateBootstrappingCloudKeySet_toFile(f, &sk->cloud); fclose(f);
        h = hmix(7, buf, len); obs("V:cloud_export", h); obs("P:cloud_export_len", (unsigned long long)len); free(buf);
        delete_gate_bootstrapping_ciphertext_array(3, c); delete_gate_bootstrapping_secret_keyset(sk); delete_gate_bootstrapping_parameters(p);
    }
    {   /* the public polynomial / Lagrange API on small inputs: the exact product is far below the rounding threshold of every FFT, so each variant must
           return the same polynomial (portable observations): sparse ternary integer polynomial times torus values that are multiples of 2^16 */
        int i; const int N = 1024; unsigned short q16[1024];
        /* every exact result is a multiple of 2^16; a back-end may be a unit or two of 2^-32 off (C10), so the observation is the result rounded to 2^16 */
#define R16(poly) r16((poly), q16)
        IntPolynomial* a = new_IntPolynomial(N); TorusPolynomial* b = new_TorusPolynomial(N); TorusPolynomial* r = new_TorusPolynomial(N); TorusPolynomial* acc = new_TorusPolynomial(N);
        LagrangeHalfCPolynomial* la = new_LagrangeHalfCPolynomial(N); LagrangeHalfCPolynomial* lb = new_LagrangeHalfCPolynomial(N); LagrangeHalfCPolynomial* lr = new_LagrangeHalfCPolynomial(N);
        for (i = 0; i < N; i++) { a->coefs[i] = (i % 37 == 0) ? 1 : (i % 53 == 7) ? -1 : 0; b->coefsT[i] = (Torus32)(((unsigned)(i * 2654435761u) >> 20) << 16); acc->coefsT[i] = (Torus32)((unsigned)(i * 40503u) << 16); }
        torusPolynomialMultFFT(r, a, b); obs("P:fft_mult", hmix(8, R16(r), 2 * (size_t)N));
        for (i = 0; i < N; i++) r->coefsT[i] = acc->coefsT[i];
        torusPolynomialAddMulRFFT(r, a, b); obs("P:fft_addmul", hmix(9, R16(r), 2 * (size_t)N));
        for (i = 0; i < N; i++) r->coefsT[i] = acc->coefsT[i];
        torusPolynomialSubMulRFFT(r, a, b); obs("P:fft_submul", hmix(10, R16(r), 2 * (size_t)N));
        IntPolynomial_ifft(la, a); TorusPolynomial_ifft(lb, b);
        LagrangeHalfCPolynomialMul(lr, la, lb); TorusPolynomial_fft(r, lr); obs("P:lagrange_mul", hmix(11, R16(r), 2 * (size_t)N));
        TorusPolynomial_ifft(lr, acc); LagrangeHalfCPolynomialAddMul(lr, la, lb); TorusPolynomial_fft(r, lr); obs("P:lagrange_addmul", hmix(12, R16(r), 2 * (size_t)N));
        TorusPolynomial_ifft(lr, acc); LagrangeHalfCPolynomialSubMul(lr, la, lb); TorusPolynomial_fft(r, lr); obs("P:lagrange_submul", hmix(13, R16(r), 2 * (size_t)N));
        /* the same products with the result (or the accumulator) being one of the operands: the value must be that of the three-object call, in every variant */
        LagrangeHalfCPolynomialMul(la, la, lb); TorusPolynomial_fft(r, la); obs("P:lagrange_mul", hmix(11, R16(r), 2 * (size_t)N)); IntPolynomial_ifft(la, a);
        LagrangeHalfCPolynomialMul(lb, la, lb); TorusPolynomial_fft(r, lb); obs("P:lagrange_mul", hmix(11, R16(r), 2 * (size_t)N)); TorusPolynomial_ifft(lb, b);
        LagrangeHalfCPolynomialAddMul(lb, la, lb); TorusPolynomial_fft(r, lb); obs("P:lagrange_addmul_inplace_b", hmix(15, R16(r), 2 * (size_t)N)); TorusPolynomial_ifft(lb, b);
        LagrangeHalfCPolynomialSubMul(lb, la, lb); TorusPolynomial_fft(r, lb); obs("P:lagrange_submul_inplace_b", hmix(16, R16(r), 2 * (size_t)N)); TorusPolynomial_ifft(lb, b);
        TorusPolynomial_ifft(lr, b); LagrangeHalfCPolynomialAddMul(lr, la, lr); TorusPolynomial_fft(r, lr); obs("P:lagrange_addmul_inplace_b", hmix(15, R16(r), 2 * (size_t)N));
        LagrangeHalfCPolynomialClear(lr); LagrangeHalfCPolynomialAddTo(lr, lb); LagrangeHalfCPolynomialAddTorusConstant(lr, (Torus32)(5u << 24)); TorusPolynomial_fft(r, lr); obs("P:lagrange_addto_const", hmix(14, R16(r), 2 * (size_t)N));
        delete_LagrangeHalfCPolynomial(la); delete_LagrangeHalfCPolynomial(lb); delete_LagrangeHalfCPolynomial(lr);
        delete_IntPolynomial(a); delete_TorusPolynomial(b); delete_TorusPolynomial(r); delete_TorusPolynomial(acc);
    }
    return 0;
}
