// C18: feed every proper prefix of an export, exports of the wrong type, and exports with a corrupted tag/title byte to the importers
// (each in a forked child) and print the outcome.
#include "vh_hash.h"
#include "io_objs.h"
#include <sys/wait.h>
#include <fcntl.h>
#include <set>

struct Out { std::string outcome; int sig; int eq; };
static bool same_desc(const Desc& a, const Desc& b) { return memcmp(&a.p, &b.p, sizeof(P)) == 0 && a.h == b.h; }
// run importer `imp` (of object o) on `bytes` in a child
static Out attempt(Obj& o, const std::string& bytes, int tr, const Desc* orig) {
    int fd[2]; if (pipe(fd)) exit(3);
    fflush(stdout);
    pid_t pid = fork();
    if (pid == 0) {
        signal(SIGABRT, SIG_DFL); close(fd[0]); int dn = open("/dev/null", O_WRONLY); dup2(dn, 2); dup2(dn, 1);
        alarm(20);
        char res[3] = {'?', '0', 0};
        if (tr == 0) { std::istringstream is(bytes); void* r = o.impS(is); res[0] = ((bool)is) ? 'C' : 'F'; if (orig && r) { Desc d = o.desc(r); res[1] = same_desc(d, *orig) ? '1' : '0'; } }
        else { FILE* f = fmemopen((void*)(bytes.empty() ? "" : bytes.data()), bytes.size() ? bytes.size() : 1, "r"); if (bytes.empty()) { fgetc(f); }
               void* r = o.impF(f); res[0] = 'C'; if (orig && r) { Desc d = o.desc(r); res[1] = same_desc(d, *orig) ? '1' : '0'; } }
        if (write(fd[1], res, 2) != 2) _exit(4);
        _exit(0);
    }
    close(fd[1]); char res[3] = {0, 0, 0}; ssize_t n = read(fd[0], res, 2); close(fd[0]);
    int st = 0; waitpid(pid, &st, 0);
    Out r; r.sig = 0; r.eq = 0;
    if (WIFSIGNALED(st)) { r.outcome = "signal"; r.sig = WTERMSIG(st); }
    else if (WIFEXITED(st) && WEXITSTATUS(st) != 0) { r.outcome = "exit"; r.sig = WEXITSTATUS(st); }
    else if (n == 2) { r.outcome = res[0] == 'C' ? "clean" : "failed"; r.eq = res[1] == '1'; }
    else { r.outcome = "exit"; r.sig = -1; }
    return r;
}
static void emit_p(const P& p) { fprintf(vh_out, "\"p\":{\"n\":%d,\"N\":%d,\"kk\":%d,\"l\":%d,\"Bgbit\":%d,\"t\":%d,\"bb\":%d,\"ksn\":%d}", p.n, p.N, p.kk, p.l, p.Bgbit, p.t, p.bb, p.ksn); }
static void emit_case(const char* kind, const Obj& imp, const char* src, const P& p, int tr, long off, long len, const Out& r, const char* where) {
    VH_B; vh_s("e", "Case"); VH_C; vh_s("kind", kind); VH_C; vh_s("ty", imp.ty.c_str()); VH_C; vh_s("src", src); VH_C; emit_p(p); VH_C; vh_s("tr", tr ? "file" : "stream"); VH_C; vh_i("off", off); VH_C; vh_i("len", len); VH_C;
    vh_s("outcome", r.outcome.c_str()); VH_C; vh_i("sig", r.sig); VH_C; vh_i("eq", r.eq); VH_C; vh_s("where", where); VH_E;
}
int main(int argc, char** argv) {
    vh_init();
    VhRng rng(vh_arg(argc, argv, "--seed", 1)); RNG = &rng;
    long stride_big = vh_arg(argc, argv, "--stride", 613), do_subst = vh_arg(argc, argv, "--subst", 1), do_corrupt = vh_arg(argc, argv, "--corrupt", 1), keysets = vh_arg(argc, argv, "--keysets", 1);
    std::vector<P> grid;
    { P p = P0(); p.n = 3 + rng.below(4); p.N = 2 << rng.below(2); p.kk = 1 + rng.below(2); p.l = 1 + rng.below(2); p.Bgbit = 2 + rng.below(6); p.t = 1 + rng.below(2); p.bb = 1 + rng.below(2); p.ksn = 1 + rng.below(3);
      p.amin = 3.0517578125e-05; p.amax = 0.012467; p.tmin = 2.98e-8; p.tmax = 0.25; grid.push_back(p); }
    // a degenerate but constructible shape: no mask polynomial at all (k = 0); key sections are then a bare type tag
    { P p = P0(); p.n = 2; p.N = 4; p.kk = 0; p.l = 2; p.Bgbit = 3; p.t = 2; p.bb = 1; p.ksn = 2; p.amin = 1e-4; p.amax = 0.01; p.tmin = 1e-6; p.tmax = 0.1; grid.push_back(p); }
    if (keysets) { P p = P0(); p.n = 2; p.N = 1024; p.kk = 1; p.l = 1; p.Bgbit = 4; p.t = 1; p.bb = 1; p.ksn = 2; p.amin = 1e-5; p.amax = 0.01; p.tmin = 1e-9; p.tmax = 0.01; grid.push_back(p); }
    for (size_t gi = 0; gi < grid.size(); gi++) {
        bool big = grid[gi].N == 1024;
        std::vector<Obj> objs = make_objects(grid[gi], big);
        std::vector<std::string> blobs; std::vector<Desc> descs; std::vector<std::vector<std::pair<size_t, int> > > marks;   // per object: (offset, kind) of tag bytes (1) and title-line bytes (2)
        for (auto& o : objs) { Sink s; LogBuf lb(&s); std::ostream os(&lb); o.expS(os, o.o); blobs.push_back(s.data); descs.push_back(o.desc(o.o));
            std::vector<std::pair<size_t, int> > mk; size_t off = 0; for (auto& c : s.calls) { if (c.len == 4 && off + 4 <= s.data.size()) { int32_t t; memcpy(&t, s.data.data() + off, 4); if (t == 42 || t == 43 || t == 84 || t == 85 || t == 168 || t == 169 || t == 200 || t == 201) for (int q = 0; q < 4; q++) mk.push_back(std::make_pair(off + q, 1)); }
                if (c.head.compare(0, 5, "-----") == 0) for (size_t q = 0; q + 1 < c.len; q++) mk.push_back(std::make_pair(off + q, 2)); off += c.len; }
            marks.push_back(mk); }
        for (size_t oi = 0; oi < objs.size(); oi++) {
            Obj& o = objs[oi]; const std::string& b = blobs[oi]; long len = (long)b.size();
            if (big && !(o.ty == "CloudKey" || o.ty == "SecretKey" || o.ty == "BKey" || o.ty == "KSKey" || o.ty == "TGswKey")) continue;   // the small set already covers the other types
            for (int tr = 0; tr < 2; tr++) {
                // ---- every proper prefix (all offsets for small objects; text parts, boundaries and a stride for large ones); plus the intact stream as control ----
                std::set<long> offs;
                if (len <= 6000) for (long q = 0; q <= len; q++) offs.insert(q);
                else { for (long q = 0; q <= len; q += stride_big) offs.insert(q); for (auto& m : marks[oi]) { offs.insert((long)m.first); offs.insert((long)m.first + 1); } for (long q = len - 40; q <= len; q++) offs.insert(q); for (long q = 0; q < 700 && q < len; q++) offs.insert(q); }
                for (long q : offs) { Out r = attempt(o, b.substr(0, (size_t)q), tr, &descs[oi]); emit_case("cut", o, o.ty.c_str(), grid[gi], tr, q, len, r, ""); }
                // ---- single-byte corruption of tags and section titles ----
                if (do_corrupt) for (size_t mi = 0; mi < marks[oi].size(); mi++) { if (len > 6000 && mi % 7) continue; std::string c = b; c[marks[oi][mi].first] ^= (char)(1 << rng.below(7));
                    Out r = attempt(o, c, tr, &descs[oi]); emit_case("corrupt", o, o.ty.c_str(), grid[gi], tr, (long)marks[oi][mi].first, len, r, marks[oi][mi].second == 1 ? "tag" : "title"); }
                // ---- export of type A fed to the importer of type B ----
                if (do_subst && !big) for (size_t ai = 0; ai < objs.size(); ai++) { if (ai == oi) continue; Out r = attempt(o, blobs[ai], tr, NULL); emit_case("subst", o, objs[ai].ty.c_str(), grid[gi], tr, 0, (long)blobs[ai].size(), r, ""); }
            }
        }
    }
    fflush(stdout);
    return 0;
}
