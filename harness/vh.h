// Shared helpers of the /verif harness programs.  The harness executes the library and prints
// what it observes as ndjson; it never holds an expected value (the oracle is TLC).
#ifndef VH_H
#define VH_H
#include <cstdio>
#include <cstdlib>
#include <cstring>
#include <cstdint>
#include <string>
#include <vector>
#include <exception>
#include <unistd.h>

static thread_local FILE* vh_out = stdout;      // per thread, so that concurrent executors can write to their own buffers
// 32-bit word as two 16-bit halves (TLC integers are 32-bit signed)
static inline void vh_w(const char* k, uint32_t v) { fprintf(vh_out, "\"%s\":{\"h\":%u,\"l\":%u}", k, v >> 16, v & 0xffff); }
static inline void vh_i(const char* k, long v) { fprintf(vh_out, "\"%s\":%ld", k, v); }
static inline void vh_s(const char* k, const char* v) {      // JSON-escaped
    fprintf(vh_out, "\"%s\":\"", k);
    for (const unsigned char* p = (const unsigned char*)v; *p; p++) { if (*p == '"' || *p == '\\') { fputc('\\', vh_out); fputc(*p, vh_out); } else if (*p < 0x20 || *p > 0x7e) fprintf(vh_out, "\\u%04x", *p); else fputc(*p, vh_out); }
    fputc('"', vh_out);
}
#define VH_C fputc(',', vh_out)
#define VH_B fputc('{', vh_out)
#define VH_E fputs("}\n", vh_out)

// deterministic generator for driver-side choices (never the library's generator)
struct VhRng {
    uint64_t s;
    explicit VhRng(uint64_t seed) : s(seed * 0x9E3779B97F4A7C15ULL + 0x1234567ULL) {}
    uint64_t next() { s ^= s << 13; s ^= s >> 7; s ^= s << 17; return s * 0x2545F4914F6CDD1DULL; }
    uint32_t u32() { return (uint32_t)(next() >> 32); }
    uint32_t below(uint32_t n) { return (uint32_t)((next() >> 33) % n); }
};
static inline uint64_t vh_fnv(const void* p, size_t n, uint64_t h = 1469598103934665603ULL) {
    const unsigned char* c = (const unsigned char*)p;
    for (size_t i = 0; i < n; i++) { h ^= c[i]; h *= 1099511628211ULL; }
    return h;
}
// a 62-bit digest as two 31-bit integers
static inline void vh_h(const char* k, uint64_t h) { fprintf(vh_out, "\"%s\":[%u,%u]", k, (unsigned)(h & 0x7fffffff), (unsigned)((h >> 31) & 0x7fffffff)); }
static inline void vh_terminate() { fflush(vh_out); fprintf(stderr, "vh: terminate called\n"); _exit(3); }
#include <csignal>
static inline void vh_on_abort(int) { fflush(vh_out); fflush(stdout); _exit(134); }       // keep what was observed before an assertion of the library fired
static inline void vh_init() { std::set_terminate(vh_terminate); setvbuf(stdout, NULL, _IOFBF, 1 << 20); signal(SIGABRT, vh_on_abort); }
static inline long vh_arg(int argc, char** argv, const char* name, long dflt) {
    for (int i = 1; i + 1 < argc; i++) if (!strcmp(argv[i], name)) return atol(argv[i + 1]);
    return dflt;
}
static inline const char* vh_sarg(int argc, char** argv, const char* name, const char* dflt) {
    for (int i = 1; i + 1 < argc; i++) if (!strcmp(argv[i], name)) return argv[i + 1];
    return dflt;
}
static inline std::vector<long> vh_list(const char* s) {
    std::vector<long> v; if (!s) return v;
    while (*s) { char* e; long x = strtol(s, &e, 10); if (e == s) break; v.push_back(x); s = (*e == ',') ? e + 1 : e; }
    return v;
}
#endif
