// C05 / C17: export every object type through both transports with call-logging sinks, import back, re-export; print what was observed.
#include "vh_hash.h"
#include <tfhe_io.h>
#include <sstream>
#include <streambuf>
#include <cmath>
#include <functional>

// ---------- logging sinks ----------
struct Call { size_t len; std::string head; };
struct Sink { std::string data; std::vector<Call> calls; void put(const char* s, size_t n) { Call c; c.len = n; c.head.assign(s, n < 160 ? n : 160); calls.push_back(c); data.append(s, n); } };
struct LogBuf : public std::streambuf {
    Sink* k; explicit LogBuf(Sink* s) : k(s) {}
    std::streamsize xsputn(const char* s, std::streamsize n) override { k->put(s, (size_t)n); return n; }
    int overflow(int c) override { if (c != EOF) { char ch = (char)c; k->put(&ch, 1); } return c; }
};
static ssize_t cookie_write(void* c, const char* buf, size_t n) { ((Sink*)c)->put(buf, n); return (ssize_t)n; }
static FILE* open_sink(Sink* s) { cookie_io_functions_t io = {0, cookie_write, 0, 0}; FILE* f = fopencookie(s, "w", io); setvbuf(f, NULL, _IONBF, 0); return f; }

static void dbl(const char* k, double v) {
    int e = 0; double m = frexp(fabs(v), &e); uint64_t M = (uint64_t)ldexp(m, 53);
    fprintf(vh_out, "\"%s\":{\"m\":[%u,%u,%u,%u],\"e\":%d,\"neg\":%d}", k, (unsigned)(M & 0xffff), (unsigned)((M >> 16) & 0xffff), (unsigned)((M >> 32) & 0xffff), (unsigned)((M >> 48) & 0xffff), v == 0 ? 0 : e - 53, v < 0 ? 1 : 0);
}
// ---------- object descriptors ----------
struct P { int n, N, kk, l, Bgbit, t, bb, ksn; double amin, amax, tmin, tmax; };
struct Desc { P p; uint64_t h; double vmax; int vuni; double vall; double bvmax; int bvuni; double bvall; };      // content hash (coefficients, not key-row variances), max row variance, rows uniform?, the common value
static void emit_desc(const Desc& d) {
    fprintf(vh_out, "\"p\":{\"n\":%d,\"N\":%d,\"kk\":%d,\"l\":%d,\"Bgbit\":%d,\"t\":%d,\"bb\":%d,\"ksn\":%d},", d.p.n, d.p.N, d.p.kk, d.p.l, d.p.Bgbit, d.p.t, d.p.bb, d.p.ksn);
    fputs("\"r\":{", vh_out); dbl("amin", d.p.amin); VH_C; dbl("amax", d.p.amax); VH_C; dbl("tmin", d.p.tmin); VH_C; dbl("tmax", d.p.tmax); fputs("},", vh_out);
    vh_h("h", d.h); VH_C; dbl("vmax", d.vmax); VH_C; vh_i("vuni", d.vuni); VH_C; dbl("vall", d.vall); VH_C; dbl("bvmax", d.bvmax); VH_C; vh_i("bvuni", d.bvuni); VH_C; dbl("bvall", d.bvall);
}
static void ks_var(const LweKeySwitchKey* ks, Desc& d) { int tot = ks->n * ks->t * ks->base; for (int i = 0; i < tot; i++) { double v = ks->ks0_raw[i].current_variance; if (v > d.vmax) d.vmax = v; if (i == 0 && d.vall == -2) d.vall = v; else if (v != d.vall) d.vuni = 0; } }
static uint64_t hKScoef(const LweKeySwitchKey* ks, uint64_t h) { int tot = ks->n * ks->t * ks->base, n = ks->out_params->n; for (int i = 0; i < tot; i++) { h = hmix(h, ks->ks0_raw[i].a, 4 * (size_t)n); h = hmix(h, &ks->ks0_raw[i].b, 4); } return h; }
static uint64_t hBKcoef(const LweBootstrappingKey* bk, uint64_t h, Desc& d) {
    int n = bk->in_out_params->n, kpl = bk->bk_params->kpl, k = bk->bk_params->tlwe_params->k, N = bk->bk_params->tlwe_params->N;
    for (int i = 0; i < n; i++) for (int j = 0; j < kpl; j++) { const TLweSample& s = bk->bk[i].all_sample[j]; for (int c = 0; c <= k; c++) h = hmix(h, s.a[c].coefsT, 4 * (size_t)N);
        double v = s.current_variance; if (v > d.vmax) d.vmax = v; if (d.vall == -2) d.vall = v; else if (v != d.vall) d.vuni = 0; }
    return h;
}
static void setLP(P& p, const LweParams* l) { p.n = l->n; p.amin = l->alpha_min; p.amax = l->alpha_max; }
static void setTP(P& p, const TLweParams* t) { p.N = t->N; p.kk = t->k; p.tmin = t->alpha_min; p.tmax = t->alpha_max; }
static void setGP(P& p, const TGswParams* g) { setTP(p, g->tlwe_params); p.l = g->l; p.Bgbit = g->Bgbit; }
static P P0() { P p; memset(&p, 0, sizeof p); return p; }
static Desc D0() { Desc d; d.p = P0(); d.h = 0; d.vmax = -1; d.vuni = 1; d.vall = -2; d.bvmax = -1; d.bvuni = 1; d.bvall = -2; return d; }

// ---------- one generic object = closures over the API ----------
struct Obj {
    std::string ty; void* o = 0; const void* ctx = 0;      // ctx: parameter object needed by import of samples
    std::function<void(std::ostream&, void*)> expS; std::function<void(FILE*, void*)> expF;
    std::function<void*(std::istream&)> impS; std::function<void*(FILE*)> impF;
    std::function<Desc(void*)> desc; std::function<void(void*)> del;
};
#define EXP(T, callS, callF) o.expS = [=](std::ostream& st, void* x) { const T* X = (const T*)x; callS; }; o.expF = [=](FILE* f, void* x) { const T* X = (const T*)x; callF; }
static VhRng* RNG;
static uint32_t rw() { return RNG->below(5) == 0 ? (RNG->below(2) ? 0x80000000u : 0x7fffffffu) : RNG->u32(); }
static void fillLwe(LweSample* s, int n) { for (int i = 0; i < n; i++) s->a[i] = (Torus32)rw(); s->b = (Torus32)rw(); s->current_variance = ldexp((double)(1 + RNG->below(1000)), -20 - (int)RNG->below(20)); }
static void fillTLwe(TLweSample* s, const TLweParams* p) { for (int c = 0; c <= p->k; c++) for (int j = 0; j < p->N; j++) s->a[c].coefsT[j] = (Torus32)rw(); s->current_variance = ldexp((double)(1 + RNG->below(1000)), -30); }

static std::vector<Obj> make_objects(const P& q, bool with_keysets) {
    std::vector<Obj> v;
    LweParams* lp = new_LweParams(q.n, q.amin, q.amax);
    TLweParams* tp = new_TLweParams(q.N, q.kk, q.tmin, q.tmax);
    TGswParams* gp = new_TGswParams(q.l, q.Bgbit, tp);
    { Obj o; o.ty = "LweParams"; o.o = lp; EXP(LweParams, export_lweParams_toStream(st, X), export_lweParams_toFile(f, X));
      o.impS = [](std::istream& s) { return (void*)new_lweParams_fromStream(s); }; o.impF = [](FILE* f) { return (void*)new_lweParams_fromFile(f); };
      o.desc = [](void* x) { Desc d = D0(); setLP(d.p, (LweParams*)x); return d; }; o.del = [](void*) {}; v.push_back(o); }
    { LweSample* s = new_LweSample(lp); fillLwe(s, q.n); Obj o; o.ty = "LweSample"; o.o = s;
      EXP(LweSample, export_lweSample_toStream(st, X, lp), export_lweSample_toFile(f, X, lp));
      o.impS = [lp](std::istream& st) { LweSample* r = new_LweSample(lp); import_lweSample_fromStream(st, r, lp); return (void*)r; }; o.impF = [lp](FILE* f) { LweSample* r = new_LweSample(lp); import_lweSample_fromFile(f, r, lp); return (void*)r; };
      o.desc = [lp](void* x) { Desc d = D0(); setLP(d.p, lp); d.h = hLwe((LweSample*)x, lp->n); return d; }; o.del = [](void* x) { delete_LweSample((LweSample*)x); }; v.push_back(o); }
    { LweKey* k = new_LweKey(lp); for (int i = 0; i < q.n; i++) k->key[i] = RNG->below(2); Obj o; o.ty = "LweKey"; o.o = k;
      EXP(LweKey, export_lweKey_toStream(st, X), export_lweKey_toFile(f, X));
      o.impS = [](std::istream& st) { return (void*)new_lweKey_fromStream(st); }; o.impF = [](FILE* f) { return (void*)new_lweKey_fromFile(f); };
      o.desc = [](void* x) { LweKey* kk = (LweKey*)x; Desc d = D0(); setLP(d.p, kk->params); d.h = hmix(3, kk->key, 4 * (size_t)kk->params->n); return d; }; o.del = [](void* x) { delete_LweKey((LweKey*)x); }; v.push_back(o); }
    { Obj o; o.ty = "TLweParams"; o.o = tp; EXP(TLweParams, export_tLweParams_toStream(st, X), export_tLweParams_toFile(f, X));
      o.impS = [](std::istream& s) { return (void*)new_tLweParams_fromStream(s); }; o.impF = [](FILE* f) { return (void*)new_tLweParams_fromFile(f); };
      o.desc = [](void* x) { Desc d = D0(); setTP(d.p, (TLweParams*)x); return d; }; o.del = [](void*) {}; v.push_back(o); }
    { TLweSample* s = new_TLweSample(tp); fillTLwe(s, tp); Obj o; o.ty = "TLweSample"; o.o = s;
      EXP(TLweSample, export_tlweSample_toStream(st, X, tp), export_tlweSample_toFile(f, X, tp));
      o.impS = [tp](std::istream& st) { TLweSample* r = new_TLweSample(tp); import_tlweSample_fromStream(st, r, tp); return (void*)r; }; o.impF = [tp](FILE* f) { TLweSample* r = new_TLweSample(tp); import_tlweSample_fromFile(f, r, tp); return (void*)r; };
      o.desc = [tp](void* x) { Desc d = D0(); setTP(d.p, tp); d.h = hTLwe((TLweSample*)x, tp); return d; }; o.del = [](void* x) { delete_TLweSample((TLweSample*)x); }; v.push_back(o); }
    { TLweKey* k = new_TLweKey(tp); for (int c = 0; c < q.kk; c++) for (int j = 0; j < q.N; j++) k->key[c].coefs[j] = RNG->below(2); Obj o; o.ty = "TLweKey"; o.o = k;
      EXP(TLweKey, export_tlweKey_toStream(st, X), export_tlweKey_toFile(f, X));
      o.impS = [](std::istream& st) { return (void*)new_tlweKey_fromStream(st); }; o.impF = [](FILE* f) { return (void*)new_tlweKey_fromFile(f); };
      o.desc = [](void* x) { TLweKey* kk = (TLweKey*)x; Desc d = D0(); setTP(d.p, kk->params); uint64_t h = 5; for (int c = 0; c < kk->params->k; c++) h = hmix(h, kk->key[c].coefs, 4 * (size_t)kk->params->N); d.h = h; return d; };
      o.del = [](void* x) { delete_TLweKey((TLweKey*)x); }; v.push_back(o); }
    { Obj o; o.ty = "TGswParams"; o.o = gp; EXP(TGswParams, export_tGswParams_toStream(st, X), export_tGswParams_toFile(f, X));
      o.impS = [](std::istream& s) { return (void*)new_tGswParams_fromStream(s); }; o.impF = [](FILE* f) { return (void*)new_tGswParams_fromFile(f); };
      o.desc = [](void* x) { Desc d = D0(); setGP(d.p, (TGswParams*)x); return d; }; o.del = [](void*) {}; v.push_back(o); }
    { TGswSample* s = new_TGswSample(gp); for (int r = 0; r < gp->kpl; r++) fillTLwe(&s->all_sample[r], tp); Obj o; o.ty = "TGswSample"; o.o = s;
      EXP(TGswSample, export_tgswSample_toStream(st, X, gp), export_tgswSample_toFile(f, X, gp));
      o.impS = [gp](std::istream& st) { TGswSample* r = new_TGswSample(gp); import_tgswSample_fromStream(st, r, gp); return (void*)r; }; o.impF = [gp](FILE* f) { TGswSample* r = new_TGswSample(gp); import_tgswSample_fromFile(f, r, gp); return (void*)r; };
      o.desc = [gp](void* x) { Desc d = D0(); setGP(d.p, gp); d.h = hTGsw((TGswSample*)x, gp); return d; }; o.del = [](void* x) { delete_TGswSample((TGswSample*)x); }; v.push_back(o); }
    { TGswKey* k = new_TGswKey(gp); for (int c = 0; c < q.kk; c++) for (int j = 0; j < q.N; j++) k->key[c].coefs[j] = RNG->below(2); Obj o; o.ty = "TGswKey"; o.o = k;
      EXP(TGswKey, export_tgswKey_toStream(st, X), export_tgswKey_toFile(f, X));
      o.impS = [](std::istream& st) { return (void*)new_tgswKey_fromStream(st); }; o.impF = [](FILE* f) { return (void*)new_tgswKey_fromFile(f); };
      o.desc = [](void* x) { TGswKey* kk = (TGswKey*)x; Desc d = D0(); setGP(d.p, kk->params); uint64_t h = 6; for (int c = 0; c < kk->tlwe_params->k; c++) h = hmix(h, kk->key[c].coefs, 4 * (size_t)kk->tlwe_params->N); d.h = h; return d; };
      o.del = [](void* x) { delete_TGswKey((TGswKey*)x); }; v.push_back(o); }
    { LweKeySwitchKey* ks = new_LweKeySwitchKey(q.ksn, q.t, q.bb, lp); int tot = q.ksn * q.t * (1 << q.bb); for (int i = 0; i < tot; i++) fillLwe(&ks->ks0_raw[i], q.n);
      if (RNG->below(2)) { double vv = ldexp(1.0, -4 - (int)RNG->below(8)); ks->ks[RNG->below(q.ksn)][RNG->below(q.t)][0].current_variance = vv; }     // the maximum may sit on a digit-0 row
      Obj o; o.ty = "KSKey"; o.o = ks;
      EXP(LweKeySwitchKey, export_lweKeySwitchKey_toStream(st, X), export_lweKeySwitchKey_toFile(f, X));
      o.impS = [](std::istream& st) { return (void*)new_lweKeySwitchKey_fromStream(st); }; o.impF = [](FILE* f) { return (void*)new_lweKeySwitchKey_fromFile(f); };
      o.desc = [](void* x) { LweKeySwitchKey* k = (LweKeySwitchKey*)x; Desc d = D0(); setLP(d.p, k->out_params); d.p.ksn = k->n; d.p.t = k->t; d.p.bb = k->basebit; d.h = hKScoef(k, 9); ks_var(k, d); return d; };
      o.del = [](void* x) { delete_LweKeySwitchKey((LweKeySwitchKey*)x); }; v.push_back(o); }
    auto fillBK = [&](LweBootstrappingKey* bk) { for (int i = 0; i < q.n; i++) for (int r = 0; r < gp->kpl; r++) fillTLwe(&bk->bk[i].all_sample[r], tp); int tot = bk->ks->n * bk->ks->t * bk->ks->base; for (int i = 0; i < tot; i++) fillLwe(&bk->ks->ks0_raw[i], q.n); };
    auto descBK = [](const LweBootstrappingKey* bk, Desc& d) { setLP(d.p, bk->in_out_params); setGP(d.p, bk->bk_params); d.p.t = bk->ks->t; d.p.bb = bk->ks->basebit; d.p.ksn = bk->ks->n; d.h = hKScoef(bk->ks, 11);
        Desc dk = D0(); ks_var(bk->ks, dk); Desc db = D0(); d.h = hBKcoef(bk, d.h, db); d.vmax = dk.vmax; d.vuni = dk.vuni; d.vall = dk.vall; d.bvmax = db.vmax; d.bvuni = db.vuni; d.bvall = db.vall; };
    { LweBootstrappingKey* bk = new_LweBootstrappingKey(q.t, q.bb, lp, gp); fillBK(bk); Obj o; o.ty = "BKey"; o.o = bk;
      EXP(LweBootstrappingKey, export_lweBootstrappingKey_toStream(st, X), export_lweBootstrappingKey_toFile(f, X));
      o.impS = [](std::istream& st) { return (void*)new_lweBootstrappingKey_fromStream(st); }; o.impF = [](FILE* f) { return (void*)new_lweBootstrappingKey_fromFile(f); };
      o.desc = [descBK](void* x) { Desc d = D0(); descBK((LweBootstrappingKey*)x, d); return d; }; o.del = [](void* x) { delete_LweBootstrappingKey((LweBootstrappingKey*)x); }; v.push_back(o); }
    TFheGateBootstrappingParameterSet* gps = new TFheGateBootstrappingParameterSet(q.t, q.bb, lp, gp);
    { Obj o; o.ty = "GateParams"; o.o = gps; EXP(TFheGateBootstrappingParameterSet, export_tfheGateBootstrappingParameterSet_toStream(st, X), export_tfheGateBootstrappingParameterSet_toFile(f, X));
      o.impS = [](std::istream& s) { return (void*)new_tfheGateBootstrappingParameterSet_fromStream(s); }; o.impF = [](FILE* f) { return (void*)new_tfheGateBootstrappingParameterSet_fromFile(f); };
      o.desc = [](void* x) { auto g = (TFheGateBootstrappingParameterSet*)x; Desc d = D0(); setLP(d.p, g->in_out_params); setGP(d.p, g->tgsw_params); d.p.t = g->ks_t; d.p.bb = g->ks_basebit; return d; }; o.del = [](void*) {}; v.push_back(o); }
    { LweSample* s = new_LweSample(lp); fillLwe(s, q.n); Obj o; o.ty = "GateCt"; o.o = s;
      EXP(LweSample, export_gate_bootstrapping_ciphertext_toStream(st, X, gps), export_gate_bootstrapping_ciphertext_toFile(f, X, gps));
      o.impS = [gps, lp](std::istream& st) { LweSample* r = new_LweSample(lp); import_gate_bootstrapping_ciphertext_fromStream(st, r, gps); return (void*)r; }; o.impF = [gps, lp](FILE* f) { LweSample* r = new_LweSample(lp); import_gate_bootstrapping_ciphertext_fromFile(f, r, gps); return (void*)r; };
      o.desc = [lp](void* x) { Desc d = D0(); setLP(d.p, lp); d.h = hLwe((LweSample*)x, lp->n); return d; }; o.del = [](void* x) { delete_LweSample((LweSample*)x); }; v.push_back(o); }
    if (with_keysets) {
        LweBootstrappingKey* bk = new_LweBootstrappingKey(q.t, q.bb, lp, gp); fillBK(bk);
        LweKey* lk = new_LweKey(lp); for (int i = 0; i < q.n; i++) lk->key[i] = RNG->below(2);
        TGswKey* gk = new_TGswKey(gp); for (int c = 0; c < q.kk; c++) for (int j = 0; j < q.N; j++) gk->key[c].coefs[j] = RNG->below(2);
        TFheGateBootstrappingSecretKeySet* sk = new TFheGateBootstrappingSecretKeySet(gps, bk, NULL, lk, gk);
        const TFheGateBootstrappingCloudKeySet* ck = &sk->cloud;
        { Obj o; o.ty = "CloudKey"; o.o = (void*)ck; EXP(TFheGateBootstrappingCloudKeySet, export_tfheGateBootstrappingCloudKeySet_toStream(st, X), export_tfheGateBootstrappingCloudKeySet_toFile(f, X));
          o.impS = [](std::istream& s) { return (void*)new_tfheGateBootstrappingCloudKeySet_fromStream(s); }; o.impF = [](FILE* f) { return (void*)new_tfheGateBootstrappingCloudKeySet_fromFile(f); };
          o.desc = [descBK](void* x) { auto c = (const TFheGateBootstrappingCloudKeySet*)x; Desc d = D0(); descBK(c->bk, d); return d; }; o.del = [](void*) {}; v.push_back(o); }
        { Obj o; o.ty = "SecretKey"; o.o = sk; EXP(TFheGateBootstrappingSecretKeySet, export_tfheGateBootstrappingSecretKeySet_toStream(st, X), export_tfheGateBootstrappingSecretKeySet_toFile(f, X));
          o.impS = [](std::istream& s) { return (void*)new_tfheGateBootstrappingSecretKeySet_fromStream(s); }; o.impF = [](FILE* f) { return (void*)new_tfheGateBootstrappingSecretKeySet_fromFile(f); };
          o.desc = [descBK](void* x) { auto s = (TFheGateBootstrappingSecretKeySet*)x; Desc d = D0(); descBK(s->cloud.bk, d); d.h = hmix(d.h, s->lwe_key->key, 4 * (size_t)s->lwe_key->params->n);
              for (int c = 0; c < s->tgsw_key->tlwe_params->k; c++) d.h = hmix(d.h, s->tgsw_key->key[c].coefs, 4 * (size_t)s->tgsw_key->tlwe_params->N); return d; }; o.del = [](void*) {}; v.push_back(o); }
    }
    return v;
}
// ---------- emit the calls of one export ----------
static void emit_calls(const Sink& s, size_t from) {
    std::string title;
    for (size_t i = from; i < s.calls.size(); i++) {
        const Call& c = s.calls[i]; const std::string& h = c.head;
        VH_B; vh_s("e", "W"); VH_C;
        if (h.compare(0, 11, "-----BEGIN ") == 0 && h.size() > 17) { title = h.substr(11, h.size() - 17); vh_s("c", "begin"); VH_C; vh_s("s", title.c_str()); VH_C; vh_i("len", 0); VH_C; vh_i("tag", -1); VH_C; vh_i("bytes", c.len); }
        else if (h.compare(0, 9, "-----END ") == 0 && h.size() > 15) { vh_s("c", "end"); VH_C; vh_s("s", h.substr(9, h.size() - 15).c_str()); VH_C; vh_i("len", 0); VH_C; vh_i("tag", -1); VH_C; vh_i("bytes", c.len); }
        else if (!title.empty() && c.len < 160 && h.find(": ") != std::string::npos && h[h.size() - 1] == '\n' && h.find('\0') == std::string::npos && (isalpha((unsigned char)h[0]))) {
            size_t p = h.find(": "); std::string name = h.substr(0, p), val = h.substr(p + 2, h.size() - p - 3);
            vh_s("c", "prop"); VH_C; vh_s("s", (title + "." + name).c_str()); VH_C; vh_i("len", 0); VH_C; vh_i("tag", -1); VH_C; vh_i("bytes", c.len); VH_C;
            vh_i("iv", strtol(val.c_str(), NULL, 10)); VH_C; dbl("dv", (double)strtold(val.c_str(), NULL));       // the value as the reader parses it
        } else { int32_t tag = -1; if (c.len == 4) memcpy(&tag, h.data(), 4); vh_s("c", "w"); VH_C; vh_s("s", ""); VH_C; vh_i("len", c.len); VH_C; vh_i("tag", c.len == 4 ? tag : -1); VH_C; vh_i("bytes", c.len); }
        VH_E;
    }
}
// functional equivalence: the same gates on the same inputs under the original and the re-imported cloud key; decryption under both secret keys
static void ev_eval(const char* op, uint64_t in1, uint64_t in2, uint64_t out) {
    static long seq = 0;
    VH_B; vh_i("seq", seq++); VH_C; vh_s("e", "Eval"); VH_C; vh_s("op", op); VH_C; vh_s("alias", "none"); VH_C; vh_i("tid", 0); VH_C;
    fprintf(vh_out, "\"ins\":[[%u,%u],[%u,%u]],\"insa\":[[%u,%u],[%u,%u]],\"al\":[],", (unsigned)(in1 & 0x7fffffff), (unsigned)((in1 >> 31) & 0x7fffffff), (unsigned)(in2 & 0x7fffffff), (unsigned)((in2 >> 31) & 0x7fffffff),
            (unsigned)(in1 & 0x7fffffff), (unsigned)((in1 >> 31) & 0x7fffffff), (unsigned)(in2 & 0x7fffffff), (unsigned)((in2 >> 31) & 0x7fffffff));
    vh_h("key", 1); VH_C; vh_h("keya", 1); VH_C; vh_h("par", 1); VH_C; vh_h("para", 1); VH_C; vh_h("out", out); VH_C; vh_i("rng", 1); VH_E;
}
static int equiv(int lambda, int transport, unsigned seed) {
    uint32_t sv[2] = {seed, 0x10u}; tfhe_random_generator_setSeed(sv, 2);
    TFheGateBootstrappingParameterSet* p = new_default_gate_bootstrapping_parameters(lambda);
    TFheGateBootstrappingSecretKeySet* sk = new_random_gate_bootstrapping_secret_keyset(p);
    std::string blob;
    if (transport == 0) { std::ostringstream os; export_tfheGateBootstrappingSecretKeySet_toStream(os, sk); blob = os.str(); }
    else { char* buf = 0; size_t len = 0; FILE* f = open_memstream(&buf, &len); export_tfheGateBootstrappingSecretKeySet_toFile(f, sk); fclose(f); blob.assign(buf, len); free(buf); }
    TFheGateBootstrappingSecretKeySet* sk2;
    if (transport == 0) { std::istringstream is(blob); sk2 = new_tfheGateBootstrappingSecretKeySet_fromStream(is); }
    else { FILE* f = fmemopen((void*)blob.data(), blob.size(), "r"); sk2 = new_tfheGateBootstrappingSecretKeySet_fromFile(f); fclose(f); }
    // the cloud key alone, re-imported as a cloud key
    std::ostringstream oc; export_tfheGateBootstrappingCloudKeySet_toStream(oc, &sk->cloud); std::istringstream ic(oc.str());
    TFheGateBootstrappingCloudKeySet* ck3 = new_tfheGateBootstrappingCloudKeySet_fromStream(ic);
    int n = p->in_out_params->n;
    LweSample* c = new_gate_bootstrapping_ciphertext_array(6, p);
    const TFheGateBootstrappingCloudKeySet* keys[3] = {&sk->cloud, &sk2->cloud, ck3};
    for (int r = 0; r < 3; r++) {
        bootsSymEncrypt(c + 0, RNG->below(2), sk); bootsSymEncrypt(c + 1, RNG->below(2), sk); bootsSymEncrypt(c + 2, RNG->below(2), sk);
        uint64_t h0 = hLwe(c + 0, n), h1 = hLwe(c + 1, n), h2 = hLwe(c + 2, n);
        for (int k = 0; k < 3; k++) {
            bootsNAND(c + 3, c + 0, c + 1, keys[k]); ev_eval("NAND", h0, h1, hLwe(c + 3, n));
            bootsXOR(c + 4, c + 0, c + 1, keys[k]); ev_eval("XOR", h0, h1, hLwe(c + 4, n));
            bootsMUX(c + 5, c + 0, c + 1, c + 2, keys[k]); ev_eval("MUX", h0 ^ h2, h1, hLwe(c + 5, n));
            ev_eval("decrypt", hLwe(c + 3, n), 0, (uint64_t)bootsSymDecrypt(c + 3, k == 1 ? sk2 : sk) + 1);
            ev_eval("decrypt", hLwe(c + 5, n), 0, (uint64_t)bootsSymDecrypt(c + 5, k == 1 ? sk2 : sk) + 1);
        }
    }
    fflush(stdout);
    return 0;
}
// C17: what the exported cloud key contains
static size_t count_occ(const std::string& hay, const void* needle, size_t n) { size_t c = 0; if (n == 0 || hay.size() < n) return 0; const char* p = hay.data(); const char* e = p + hay.size();
    while ((p = (const char*)memmem(p, e - p, needle, n))) { c++; p++; } return c; }
static void cloud_report(TFheGateBootstrappingSecretKeySet* sk, const char* label) {
    const TFheGateBootstrappingParameterSet* gp = sk->params; int n = gp->in_out_params->n, N = gp->tgsw_params->tlwe_params->N, k = gp->tgsw_params->tlwe_params->k;
    for (int tr = 0; tr < 2; tr++) {
        Sink sc, ss; LogBuf bc(&sc), bs(&ss); std::ostream oc(&bc), os(&bs);
        if (tr == 0) { export_tfheGateBootstrappingCloudKeySet_toStream(oc, &sk->cloud); export_tfheGateBootstrappingSecretKeySet_toStream(os, sk); }
        else { FILE* f = open_sink(&sc); export_tfheGateBootstrappingCloudKeySet_toFile(f, &sk->cloud); fclose(f); f = open_sink(&ss); export_tfheGateBootstrappingSecretKeySet_toFile(f, sk); fclose(f); }
        size_t text = 0, bin = 0; for (auto& c : sc.calls) { if (c.head.compare(0, 5, "-----") == 0 || (c.len < 160 && c.head.find(": ") != std::string::npos && isalpha((unsigned char)c.head[0]) && c.head[c.head.size() - 1] == '\n')) text += c.len; else bin += c.len; }
        // encodings of the secret keys: int32 arrays (the library's own), one byte per bit, bit-packed (controls)
        std::vector<unsigned char> lk8(n), lkp((n + 7) / 8, 0); for (int i = 0; i < n; i++) { lk8[i] = (unsigned char)sk->lwe_key->key[i]; if (sk->lwe_key->key[i]) lkp[i / 8] |= 1 << (i % 8); }
        size_t o_lwe = count_occ(sc.data, sk->lwe_key->key, 4 * (size_t)n), o_lwe8 = count_occ(sc.data, lk8.data(), n), o_lwep = n >= 128 ? count_occ(sc.data, lkp.data(), lkp.size()) : 0, o_ring = 0;
        for (int c = 0; c < k; c++) o_ring += count_occ(sc.data, sk->tgsw_key->key[c].coefs, 4 * (size_t)N);
        size_t o_lwe_in_secret = count_occ(ss.data, sk->lwe_key->key, 4 * (size_t)n);      // control: the search does find the key where it is
        int prefix = ss.data.size() > sc.data.size() && memcmp(ss.data.data(), sc.data.data(), sc.data.size()) == 0;
        // importing the cloud export: consumes exactly its bytes; the result evaluates (has bk and bkFFT)
        std::istringstream is(sc.data); TFheGateBootstrappingCloudKeySet* ck = new_tfheGateBootstrappingCloudKeySet_fromStream(is); long pos = (long)is.tellg();
        VH_B; vh_s("e", "Cloud"); VH_C; vh_s("label", label); VH_C; vh_s("tr", tr ? "file" : "stream"); VH_C;
        fprintf(vh_out, "\"p\":{\"n\":%d,\"N\":%d,\"kk\":%d,\"l\":%d,\"Bgbit\":%d,\"t\":%d,\"bb\":%d,\"ksn\":%d},", n, N, k, gp->tgsw_params->l, gp->tgsw_params->Bgbit, gp->ks_t, gp->ks_basebit, k * N);
        // sizes in KiB-free form: bytes can exceed 2^31? no (default export ~114 MB); split anyway as [hi, lo] base 2^20
        fprintf(vh_out, "\"cloud\":[%lu,%lu],\"secret\":[%lu,%lu],\"text\":%lu,\"bin\":[%lu,%lu],", (unsigned long)(sc.data.size() >> 20), (unsigned long)(sc.data.size() & 0xfffff), (unsigned long)(ss.data.size() >> 20), (unsigned long)(ss.data.size() & 0xfffff), (unsigned long)text, (unsigned long)(bin >> 20), (unsigned long)(bin & 0xfffff));
        vh_i("tail", (long)(ss.data.size() - sc.data.size())); VH_C; vh_i("prefix", prefix); VH_C; vh_i("occ_lwe", o_lwe); VH_C; vh_i("occ_lwe8", o_lwe8); VH_C; vh_i("occ_lwep", o_lwep); VH_C; vh_i("occ_ring", o_ring); VH_C; vh_i("occ_ctl", o_lwe_in_secret); VH_C;
        vh_i("imp_pos_ok", pos == (long)sc.data.size()); VH_C; vh_i("imp_has_bk", ck->bk != NULL && ck->bkFFT != NULL); VH_C; vh_i("ncalls", sc.calls.size()); VH_E;
        delete_gate_bootstrapping_cloud_keyset(ck);
    }
}
int main(int argc, char** argv) {
    vh_init();
    VhRng rng(vh_arg(argc, argv, "--seed", 1)); RNG = &rng;
    if (vh_arg(argc, argv, "--cloud", 0)) {
        uint32_t sv[2] = {(uint32_t)vh_arg(argc, argv, "--seed", 1), 0x17u}; tfhe_random_generator_setSeed(sv, 2);
        int nsmall = vh_arg(argc, argv, "--small", 3);
        for (int g = 0; g < nsmall; g++) {     // small custom sets with real generated keys
            LweParams* lp = new_LweParams(32 + rng.below(40), 1e-6, 0.01); TLweParams* tp = new_TLweParams(1024, 1, 1e-9, 0.01); TGswParams* gp = new_TGswParams(1 + rng.below(3), 2 + rng.below(8), tp);
            TFheGateBootstrappingParameterSet* ps = new TFheGateBootstrappingParameterSet(1 + rng.below(3), 1 + rng.below(2), lp, gp);
            TFheGateBootstrappingSecretKeySet* sk = new_random_gate_bootstrapping_secret_keyset(ps); cloud_report(sk, "custom"); delete_gate_bootstrapping_secret_keyset(sk);
        }
        for (long lam : vh_list(vh_sarg(argc, argv, "--lambdas", ""))) { TFheGateBootstrappingParameterSet* ps = new_default_gate_bootstrapping_parameters((int)lam); TFheGateBootstrappingSecretKeySet* sk = new_random_gate_bootstrapping_secret_keyset(ps); cloud_report(sk, "default"); delete_gate_bootstrapping_secret_keyset(sk); }
        fflush(stdout); return 0;
    }
    if (vh_arg(argc, argv, "--equiv", 0)) return equiv((int)vh_arg(argc, argv, "--equiv", 128), (int)vh_arg(argc, argv, "--transport", 0), (unsigned)vh_arg(argc, argv, "--seed", 1));
    int defaults = vh_arg(argc, argv, "--defaults", 0);
    // parameter values: the two default sets' noise levels, a sweep 1e-12 .. 0.5, structural variety
    double reals[] = {pow(2., -15), pow(2., -25), 2.44e-5, 7.18e-9, 0.012467, 1e-12, 3.3e-10, 1e-9, 4.9e-9, 1e-7, 1.5e-5, 1.0 / 3.0, 0.1, 0.3, 0.5, 0.25, 0.0, 1e-3};
    int NR = sizeof(reals) / sizeof(double);
    std::vector<P> grid;
    for (int g = 0; g < (int)vh_arg(argc, argv, "--sets", 4); g++) {
        P p = P0(); p.n = 1 + rng.below(12); p.N = 1 << (1 + rng.below(4)); p.kk = 1 + rng.below(2); p.l = 1 + rng.below(3); p.Bgbit = 1 + rng.below(8); p.t = 1 + rng.below(3); p.bb = 1 + rng.below(3); p.ksn = 1 + rng.below(6);
        p.amin = reals[(g * 4) % NR]; p.amax = reals[(g * 4 + 1) % NR]; p.tmin = reals[(g * 4 + 2) % NR]; p.tmax = reals[(g * 4 + 3) % NR]; grid.push_back(p);
    }
    for (int g = 0; g < (int)vh_arg(argc, argv, "--ksets", 1); g++) {     // key sets: the importer builds the FFT key, which the back-ends support for N = 1024 only
        P p = P0(); p.n = 2 + rng.below(3); p.N = 1024; p.kk = 1; p.l = 1 + rng.below(2); p.Bgbit = 2 + rng.below(8); p.t = 1 + rng.below(2); p.bb = 1 + rng.below(2); p.ksn = 1 + rng.below(4);
        p.amin = reals[(g * 4 + 2) % NR]; p.amax = reals[(g * 4 + 4) % NR]; p.tmin = reals[(g * 4 + 1) % NR]; p.tmax = reals[(g * 4 + 3) % NR]; grid.push_back(p);
    }
    if (defaults) { P a = P0(); a.n = 630; a.N = 1024; a.kk = 1; a.l = 3; a.Bgbit = 7; a.t = 8; a.bb = 2; a.ksn = 5; a.amin = pow(2., -15); a.amax = 0.012467; a.tmin = pow(2., -25); a.tmax = 0.012467; grid.push_back(a); }
    for (size_t gi = 0; gi < grid.size(); gi++) {
        bool big = grid[gi].N >= 1024;
        std::vector<Obj> objs = make_objects(grid[gi], grid[gi].N == 1024);
        for (int tr = 0; tr < 2; tr++) {
            // sequences: each object alone, then a few back-to-back sequences of 2-3 objects in one stream
            std::vector<std::vector<int> > seqs; for (size_t i = 0; i < objs.size(); i++) { if (big && (objs[i].ty == "SecretKey" || objs[i].ty == "BKey") && tr == 1) continue; seqs.push_back(std::vector<int>(1, (int)i)); }
            if (!big) for (int s = 0; s < 6; s++) { std::vector<int> q; int len = 2 + rng.below(2); for (int j = 0; j < len; j++) q.push_back(rng.below(objs.size())); seqs.push_back(q); }
            for (auto& sq : seqs) {
                Sink sink; LogBuf lb(&sink); std::ostream os(&lb); FILE* F = tr ? open_sink(&sink) : NULL;
                VH_B; vh_s("e", "SeqBegin"); VH_C; vh_s("tr", tr ? "file" : "stream"); VH_C; vh_i("count", sq.size()); VH_E;
                std::vector<size_t> ends;
                for (int idx : sq) { Obj& o = objs[idx]; size_t c0 = sink.calls.size(), b0 = sink.data.size();
                    VH_B; vh_s("e", "Export"); VH_C; vh_s("ty", o.ty.c_str()); VH_C; emit_desc(o.desc(o.o)); VH_E;
                    if (tr) { o.expF(F, o.o); fflush(F); } else o.expS(os, o.o);
                    emit_calls(sink, c0);
                    VH_B; vh_s("e", "ExportEnd"); VH_C; vh_i("bytes", sink.data.size() - b0); VH_C; vh_h("hb", hmix(1, sink.data.data() + b0, sink.data.size() - b0)); VH_E; ends.push_back(sink.data.size()); }
                if (F) fclose(F);
                // import everything back in order from one stream
                std::istringstream is(sink.data); FILE* G = tr ? fmemopen((void*)sink.data.data(), sink.data.size(), "r") : NULL;
                for (size_t j = 0; j < sq.size(); j++) { Obj& o = objs[sq[j]];
                    void* r = tr ? o.impF(G) : o.impS(is);
                    long pos = tr ? ftell(G) : (long)is.tellg(); int good = tr ? !ferror(G) : (int)(bool)is;
                    VH_B; vh_s("e", "Import"); VH_C; vh_s("ty", o.ty.c_str()); VH_C; emit_desc(o.desc(r)); VH_C; vh_i("pos", pos); VH_C; vh_i("good", good); VH_E;
                    // re-export the imported object
                    Sink s2; LogBuf lb2(&s2); std::ostream os2(&lb2);
                    if (tr) { FILE* F2 = open_sink(&s2); o.expF(F2, r); fclose(F2); } else o.expS(os2, r);
                    VH_B; vh_s("e", "ReExport"); VH_C; vh_i("bytes", s2.data.size()); VH_C; vh_h("hb", hmix(1, s2.data.data(), s2.data.size())); VH_E;
                    o.del(r);
                }
                if (G) fclose(G);
                VH_B; vh_s("e", "SeqEnd"); VH_C; vh_i("total", sink.data.size()); VH_E;
            }
        }
    }
    fflush(stdout);
    return 0;
}
