// C05 / C17: export every object type through both transports with call-logging sinks, import back, re-export; print what was observed.
#include "vh_hash.h"
#include "io_objs.h"
#include <thread>
// ---------- emit the exported bytes of one object as canonical tokens ----------
// Independent of how the library groups its writes: a text section is its lines ("-----BEGIN T-----", "name: value" lines, "-----END T-----"), and
// everything between two text sections (or up to the end) is ONE binary run, reported with its length and its first four bytes (a type tag).
static void tok(const char* c, const std::string& sname, long len, long tag, long bytes) { VH_B; vh_s("e", "W"); VH_C; vh_s("c", c); VH_C; vh_s("s", sname.c_str()); VH_C; vh_i("len", len); VH_C; vh_i("tag", tag); VH_C; vh_i("bytes", bytes); }
static void emit_tokens(const std::string& d, size_t from) {
    size_t pos = from;
    while (pos < d.size()) {
        if (d.compare(pos, 11, "-----BEGIN ") == 0) {
            size_t nl = d.find('\n', pos); if (nl == std::string::npos) nl = d.size() - 1;
            std::string line = d.substr(pos, nl + 1 - pos), title = line.size() > 17 ? line.substr(11, line.size() - 17) : "";
            tok("begin", title, 0, -1, (long)line.size()); VH_E; pos = nl + 1;
            while (pos < d.size()) {
                nl = d.find('\n', pos); if (nl == std::string::npos) nl = d.size() - 1; line = d.substr(pos, nl + 1 - pos); pos = nl + 1;
                if (line.compare(0, 9, "-----END ") == 0) { tok("end", line.size() > 15 ? line.substr(9, line.size() - 15) : "", 0, -1, (long)line.size()); VH_E; break; }
                size_t p = line.find(": ");
                if (p == std::string::npos || line.find('\0') != std::string::npos) { tok("junk", title, 0, -1, (long)line.size()); VH_E; continue; }       // matches no call of the specification
                std::string name = line.substr(0, p), val = line.substr(p + 2, line.size() - p - 3);
                tok("prop", title + "." + name, 0, -1, (long)line.size()); VH_C; vh_i("iv", strtol(val.c_str(), NULL, 10)); VH_C; dbl("dv", (double)strtold(val.c_str(), NULL)); VH_E;     // the value as the reader parses it
            }
        } else {
            size_t e = d.find("-----BEGIN ", pos); if (e == std::string::npos) e = d.size();
            int32_t tag = -1; if (e - pos >= 4) memcpy(&tag, d.data() + pos, 4);
            tok("w", "", (long)(e - pos), tag, (long)(e - pos)); VH_E; pos = e;
        }
    }
}
// functional equivalence: the same gates on the same inputs under the original and the re-imported cloud key; decryption under both secret keys
static void ev_eval(const char* op, uint64_t in1, uint64_t in2, uint64_t out) {
    static long seq = 0;
    VH_B; vh_i("seq", seq++); VH_C; vh_s("e", "Eval"); VH_C; vh_s("op", op); VH_C; vh_s("alias", "none"); VH_C; vh_i("tid", 0); VH_C;
    fprintf(vh_out, "\"ins\":[[%u,%u],[%u,%u]],\"insa\":[[%u,%u],[%u,%u]],\"al\":[],", (unsigned)(in1 & 0x7fffffff), (unsigned)((in1 >> 31) & 0x7fffffff), (unsigned)(in2 & 0x7fffffff), (unsigned)((in2 >> 31) & 0x7fffffff),
            (unsigned)(in1 & 0x7fffffff), (unsigned)((in1 >> 31) & 0x7fffffff), (unsigned)(in2 & 0x7fffffff), (unsigned)((in2 >> 31) & 0x7fffffff));
    vh_h("key", 1); VH_C; vh_h("keya", 1); VH_C; vh_h("par", 1); VH_C; vh_h("para", 1); VH_C; vh_h("out", out); VH_C; vh_i("rng", 1); VH_E;
}
static int equiv(int lambda, int transport, unsigned seed) {
    uint32_t sv[2] = {seed, 0x10u}; tfhe_random_generator_setSeed(sv, 2);
    TFheGateBootstrappingParameterSet* p = new_default_gate_bootstrapping_parameters(lambda);
    TFheGateBootstrappingSecretKeySet* sk = new_random_gate_bootstrapping_secret_keyset(p);
    std::string blob;
    if (transport == 0) { std::ostringstream os; export_tfheGateBootstrappingSecretKeySet_toStream(os, sk); blob = os.str(); }
    else { char* buf = 0; size_t len = 0; FILE* f = open_memstream(&buf, &len); export_tfheGateBootstrappingSecretKeySet_toFile(f, sk); fclose(f); blob.assign(buf, len); free(buf); }
    TFheGateBootstrappingSecretKeySet* sk2;
    if (transport == 0) { std::istringstream is(blob); sk2 = new_tfheGateBootstrappingSecretKeySet_fromStream(is); }
    else { FILE* f = fmemopen((void*)blob.data(), blob.size(), "r"); sk2 = new_tfheGateBootstrappingSecretKeySet_fromFile(f); fclose(f); }
    // the cloud key alone, re-imported as a cloud key
    std::ostringstream oc; export_tfheGateBootstrappingCloudKeySet_toStream(oc, &sk->cloud); std::istringstream ic(oc.str());
    TFheGateBootstrappingCloudKeySet* ck3 = new_tfheGateBootstrappingCloudKeySet_fromStream(ic);
    int n = p->in_out_params->n;
    LweSample* c = new_gate_bootstrapping_ciphertext_array(6, p);
    const TFheGateBootstrappingCloudKeySet* keys[3] = {&sk->cloud, &sk2->cloud, ck3};
    for (int r = 0; r < 3; r++) {
        bootsSymEncrypt(c + 0, RNG->below(2), sk); bootsSymEncrypt(c + 1, RNG->below(2), sk); bootsSymEncrypt(c + 2, RNG->below(2), sk);
        uint64_t h0 = hLwe(c + 0, n), h1 = hLwe(c + 1, n), h2 = hLwe(c + 2, n);
        for (int k = 0; k < 3; k++) {
            bootsNAND(c + 3, c + 0, c + 1, keys[k]); ev_eval("NAND", h0, h1, hLwe(c + 3, n));
            bootsXOR(c + 4, c + 0, c + 1, keys[k]); ev_eval("XOR", h0, h1, hLwe(c + 4, n));
            bootsMUX(c + 5, c + 0, c + 1, c + 2, keys[k]); ev_eval("MUX", h0 ^ h2, h1, hLwe(c + 5, n));
            ev_eval("decrypt", hLwe(c + 3, n), 0, (uint64_t)bootsSymDecrypt(c + 3, k == 1 ? sk2 : sk) + 1);
            ev_eval("decrypt", hLwe(c + 5, n), 0, (uint64_t)bootsSymDecrypt(c + 5, k == 1 ? sk2 : sk) + 1);
        }
    }
    fflush(stdout);
    return 0;
}
// C17: what the exported cloud key contains
static size_t count_occ(const std::string& hay, const void* needle, size_t n) { size_t c = 0; if (n == 0 || hay.size() < n) return 0; const char* p = hay.data(); const char* e = p + hay.size();
    while ((p = (const char*)memmem(p, e - p, needle, n))) { c++; p++; } return c; }
static void cloud_report(TFheGateBootstrappingSecretKeySet* sk, const char* label) {
    const TFheGateBootstrappingParameterSet* gp = sk->params; int n = gp->in_out_params->n, N = gp->tgsw_params->tlwe_params->N, k = gp->tgsw_params->tlwe_params->k;
    for (int tr = 0; tr < 3; tr++) {
        Sink sc, ss; LogBuf bc(&sc), bs(&ss); std::ostream oc(&bc), os(&bs);
        if (tr == 2) {   // both files open at once: cloud written first, secret second, the cloud file closed last (whatever one export leaves buffered must not reach the other file)
            FILE* fc = open_sink(&sc); FILE* fs = open_sink(&ss); export_tfheGateBootstrappingCloudKeySet_toFile(fc, &sk->cloud); export_tfheGateBootstrappingSecretKeySet_toFile(fs, sk); fclose(fs); fclose(fc); }
        else if (tr == 0) { export_tfheGateBootstrappingCloudKeySet_toStream(oc, &sk->cloud); export_tfheGateBootstrappingSecretKeySet_toStream(os, sk); }
        else { FILE* f = open_sink(&ss); export_tfheGateBootstrappingSecretKeySet_toFile(f, sk); fclose(f); f = open_sink(&sc); export_tfheGateBootstrappingCloudKeySet_toFile(f, &sk->cloud); fclose(f); }   // secret first, then cloud (the tutorial's order)
        // text part = the spans "-----BEGIN T-----" ... "-----END T-----\n" found in the bytes; everything else is binary sections.  Independent of how the
        // library groups its writes (buffering is the library's business).
        size_t text = 0, bin = 0; { size_t pos = 0; const std::string& d = sc.data;
            while ((pos = d.find("-----BEGIN ", pos)) != std::string::npos) { size_t te = d.find("-----\n", pos + 11); if (te == std::string::npos) break; std::string title = d.substr(pos + 11, te - (pos + 11));
                std::string endm = "-----END " + title + "-----\n"; size_t e = d.find(endm, te); if (e == std::string::npos) break; text += e + endm.size() - pos; pos = e + endm.size(); }
            bin = d.size() - text; }
        // encodings of the secret keys: int32 arrays (the library's own), one byte per bit, bit-packed (controls)
        std::vector<unsigned char> lk8(n), lkp((n + 7) / 8, 0); for (int i = 0; i < n; i++) { lk8[i] = (unsigned char)sk->lwe_key->key[i]; if (sk->lwe_key->key[i]) lkp[i / 8] |= 1 << (i % 8); }
        size_t o_lwe = count_occ(sc.data, sk->lwe_key->key, 4 * (size_t)n), o_lwe8 = count_occ(sc.data, lk8.data(), n), o_lwep = n >= 128 ? count_occ(sc.data, lkp.data(), lkp.size()) : 0, o_ring = 0;
        for (int c = 0; c < k; c++) o_ring += count_occ(sc.data, sk->tgsw_key->key[c].coefs, 4 * (size_t)N);
        size_t o_lwe_in_secret = count_occ(ss.data, sk->lwe_key->key, 4 * (size_t)n);      // control: the search does find the key where it is
        // rows that carry key material must be masked: a key-switching row (digit >= 1) or bootstrapping row with an all-zero mask is the key in clear
        long unmasked = 0; { const LweKeySwitchKey* ks = sk->cloud.bk->ks; for (int i = 0; i < ks->n; i++) for (int j = 0; j < ks->t; j++) for (int h = 1; h < ks->base; h++) { const LweSample& r = ks->ks[i][j][h]; bool z = true; for (int q = 0; q < n && z; q++) if (r.a[q]) z = false; if (z) unmasked++; }
          const TGswParams* tg = gp->tgsw_params; for (int i = 0; i < n; i++) for (int r = 0; r < tg->kpl; r++) { bool z = true; for (int cc = 0; cc < k && z; cc++) for (int q = 0; q < N && z; q++) if (sk->cloud.bk->bk[i].all_sample[r].a[cc].coefsT[q]) z = false; if (z) unmasked++; } }
        // two threads exporting at the same time (one the cloud key, one the secret key set), three times each: every cloud export has the bytes of the sequential one
        long conc_bad = 0; if (tr == 0 && n <= 128) { std::string got[3]; std::thread ta([&]() { for (int q = 0; q < 3; q++) { std::ostringstream o; export_tfheGateBootstrappingCloudKeySet_toStream(o, &sk->cloud); got[q] = o.str(); } });
            std::thread tb([&]() { for (int q = 0; q < 3; q++) { std::ostringstream o; export_tfheGateBootstrappingSecretKeySet_toStream(o, sk); } }); ta.join(); tb.join();
            for (int q = 0; q < 3; q++) if (got[q] != sc.data) conc_bad++; }
        int prefix = ss.data.size() > sc.data.size() && memcmp(ss.data.data(), sc.data.data(), sc.data.size()) == 0;
        // importing the cloud export: consumes exactly its bytes; the result evaluates (has bk and bkFFT)
        std::istringstream is(sc.data); TFheGateBootstrappingCloudKeySet* ck = new_tfheGateBootstrappingCloudKeySet_fromStream(is); long pos = (long)is.tellg();
        VH_B; vh_s("e", "Cloud"); VH_C; vh_s("label", label); VH_C; vh_s("tr", tr == 0 ? "stream" : tr == 1 ? "file" : "file2"); VH_C;
        fprintf(vh_out, "\"p\":{\"n\":%d,\"N\":%d,\"kk\":%d,\"l\":%d,\"Bgbit\":%d,\"t\":%d,\"bb\":%d,\"ksn\":%d},", n, N, k, gp->tgsw_params->l, gp->tgsw_params->Bgbit, gp->ks_t, gp->ks_basebit, k * N);
        // sizes in KiB-free form: bytes can exceed 2^31? no (default export ~114 MB); split anyway as [hi, lo] base 2^20
        fprintf(vh_out, "\"cloud\":[%lu,%lu],\"secret\":[%lu,%lu],\"text\":%lu,\"bin\":[%lu,%lu],", (unsigned long)(sc.data.size() >> 20), (unsigned long)(sc.data.size() & 0xfffff), (unsigned long)(ss.data.size() >> 20), (unsigned long)(ss.data.size() & 0xfffff), (unsigned long)text, (unsigned long)(bin >> 20), (unsigned long)(bin & 0xfffff));
        vh_i("tail", (long)(ss.data.size() - sc.data.size())); VH_C; vh_i("prefix", prefix); VH_C; vh_i("occ_lwe", o_lwe); VH_C; vh_i("occ_lwe8", o_lwe8); VH_C; vh_i("occ_lwep", o_lwep); VH_C; vh_i("occ_ring", o_ring); VH_C; vh_i("occ_ctl", o_lwe_in_secret); VH_C; vh_i("unmasked", unmasked); VH_C;
        vh_i("imp_pos_ok", pos == (long)sc.data.size()); VH_C; vh_i("imp_has_bk", ck->bk != NULL && ck->bkFFT != NULL); VH_C; vh_i("ncalls", sc.calls.size()); VH_C; vh_i("conc_bad", conc_bad); VH_E;
        delete_gate_bootstrapping_cloud_keyset(ck);
    }
}
int main(int argc, char** argv) {
    vh_init();
    VhRng rng(vh_arg(argc, argv, "--seed", 1)); RNG = &rng;
    if (vh_arg(argc, argv, "--cloud", 0)) {
        uint32_t sv[2] = {(uint32_t)vh_arg(argc, argv, "--seed", 1), 0x17u}; tfhe_random_generator_setSeed(sv, 2);
        int nsmall = vh_arg(argc, argv, "--small", 3);
        for (int g = 0; g < nsmall; g++) {     // small custom sets with real generated keys
            LweParams* lp = new_LweParams(32 + rng.below(40), 1e-6, 0.01); TLweParams* tp = new_TLweParams(1024, 1, 1e-9, 0.01); TGswParams* gp = new_TGswParams(1 + rng.below(3), 2 + rng.below(8), tp);
            TFheGateBootstrappingParameterSet* ps = new TFheGateBootstrappingParameterSet(1 + rng.below(3), 1 + rng.below(2), lp, gp);
            TFheGateBootstrappingSecretKeySet* sk = new_random_gate_bootstrapping_secret_keyset(ps); cloud_report(sk, "custom"); delete_gate_bootstrapping_secret_keyset(sk);
        }
        {   // key-switching layouts and noise levels at the extremes (t*basebit = 31 with one bit per digit; digits far below a large noise level; k = 2): whatever
            // the layout, every row with a non-zero digit is a masked encryption
            const double ext[3][4] = {{31, 1, ldexp(1., -15), 1}, {12, 2, 1e-3, 2}, {15, 2, ldexp(1., -15), 1}};
            for (int q = 0; q < 3; q++) { LweParams* lp = new_LweParams(33 + 7 * q, ext[q][2], 0.01); TLweParams* tp = new_TLweParams(1024, (int)ext[q][3], 1e-9, 0.01); TGswParams* gp = new_TGswParams(2, 8, tp);
                TFheGateBootstrappingParameterSet* ps = new TFheGateBootstrappingParameterSet((int)ext[q][0], (int)ext[q][1], lp, gp);
                TFheGateBootstrappingSecretKeySet* sk = new_random_gate_bootstrapping_secret_keyset(ps); cloud_report(sk, "custom"); delete_gate_bootstrapping_secret_keyset(sk); } }
        {   // a larger odd-sized set (k = 2, one gadget level, one key-switching digit): section boundaries fall at unusual offsets
            LweParams* lp = new_LweParams(887, 1e-6, 0.01); TLweParams* tp = new_TLweParams(1024, 2, 1e-9, 0.01); TGswParams* gp = new_TGswParams(1, 8, tp);
            TFheGateBootstrappingParameterSet* ps = new TFheGateBootstrappingParameterSet(1, 1, lp, gp);
            TFheGateBootstrappingSecretKeySet* sk = new_random_gate_bootstrapping_secret_keyset(ps); cloud_report(sk, "custom"); delete_gate_bootstrapping_secret_keyset(sk); }
        for (long lam : vh_list(vh_sarg(argc, argv, "--lambdas", ""))) { TFheGateBootstrappingParameterSet* ps = new_default_gate_bootstrapping_parameters((int)lam); TFheGateBootstrappingSecretKeySet* sk = new_random_gate_bootstrapping_secret_keyset(ps); cloud_report(sk, "default"); delete_gate_bootstrapping_secret_keyset(sk); }
        fflush(stdout); return 0;
    }
    if (vh_arg(argc, argv, "--equiv", 0)) return equiv((int)vh_arg(argc, argv, "--equiv", 128), (int)vh_arg(argc, argv, "--transport", 0), (unsigned)vh_arg(argc, argv, "--seed", 1));
    int defaults = vh_arg(argc, argv, "--defaults", 0);
    // parameter values: the two default sets' noise levels, a sweep 1e-12 .. 0.5, structural variety
    double reals[] = {pow(2., -15), pow(2., -25), 2.44e-5, 7.18e-9, 0.012467, 1e-12, 3.3e-10, 1e-9, 4.9e-9, 1e-7, 1.5e-5, 1.0 / 3.0, 0.1, 0.3, 0.5, 0.25, 0.0, 1e-3};
    int NR = sizeof(reals) / sizeof(double);
    std::vector<P> grid;
    for (int g = 0; g < (int)vh_arg(argc, argv, "--sets", 4); g++) {
        P p = P0(); p.n = 1 + rng.below(12); p.N = 1 << (1 + rng.below(4)); p.kk = 1 + rng.below(2); p.l = 1 + rng.below(3); p.Bgbit = 1 + rng.below(8); p.t = 1 + rng.below(3); p.bb = 1 + rng.below(3); p.ksn = 1 + rng.below(6);
        p.amin = reals[(g * 4) % NR]; p.amax = reals[(g * 4 + 1) % NR]; p.tmin = reals[(g * 4 + 2) % NR]; p.tmax = reals[(g * 4 + 3) % NR]; grid.push_back(p);
    }
    for (int g = 0; g < (int)vh_arg(argc, argv, "--ksets", 1); g++) {     // key sets: the importer builds the FFT key, which the back-ends support for N = 1024 only
        P p = P0(); p.n = 2 + rng.below(3); p.N = 1024; p.kk = 1; p.l = 1 + rng.below(2); p.Bgbit = 2 + rng.below(8); p.t = 1 + rng.below(2); p.bb = 1 + rng.below(2); p.ksn = 1 + rng.below(4);
        p.amin = reals[(g * 4 + 2) % NR]; p.amax = reals[(g * 4 + 4) % NR]; p.tmin = reals[(g * 4 + 1) % NR]; p.tmax = reals[(g * 4 + 3) % NR]; grid.push_back(p);
    }
    if (defaults) { P a = P0(); a.n = 630; a.N = 1024; a.kk = 1; a.l = 3; a.Bgbit = 7; a.t = 8; a.bb = 2; a.ksn = 5; a.amin = pow(2., -15); a.amax = 0.012467; a.tmin = pow(2., -25); a.tmax = 0.012467; grid.push_back(a); }
    // twins: the same dimensions with noise levels that differ in the 7th significant digit only - every imported object carries its own parameter values,
    // whatever was imported before it in the process
    { size_t g0 = grid.size(); for (size_t g = 0; g < g0 && g < 2; g++) { P t = grid[g]; t.amin *= 1.0000001; t.amax *= 0.9999999; t.tmin *= 1.0000001; t.tmax *= 0.9999999; grid.push_back(t); }
      // partial twins: exactly one of the four noise levels differs (an importer that recognises "the same parameters" by a subset of the fields)
      // as a chain in which each set differs from the one imported just before it in one field only
      for (size_t g = 0; g < g0 && g < 2; g++) { P t = grid[g]; grid.push_back(t); double* fld[4] = {&t.amin, &t.amax, &t.tmin, &t.tmax};
          for (int f = 0; f < 4; f++) { *fld[f] = (*fld[f] == 0.0) ? 1e-9 : *fld[f] * (f & 1 ? 0.9999999 : 1.0000001); grid.push_back(t); } } }
    // arrays of exactly 64 KiB (n = 16384 words, or one polynomial of N = 16384 coefficients) and one word more: writers or readers that move large arrays in blocks
    { P a = P0(); a.n = 16384; a.N = 2; a.kk = 1; a.l = 1; a.Bgbit = 1; a.t = 1; a.bb = 1; a.ksn = 1; a.amin = reals[3]; a.amax = reals[4]; a.tmin = reals[1]; a.tmax = reals[4]; grid.push_back(a);
      P b = a; b.n = 1; b.N = 16384; grid.push_back(b); P c = a; c.n = 16385; grid.push_back(c); P d = a; d.n = 32768; grid.push_back(d); }
    for (size_t gi = 0; gi < grid.size(); gi++) {
        bool big = grid[gi].N >= 1024;
        std::vector<Obj> objs = make_objects(grid[gi], grid[gi].N == 1024);
        for (int tr = 0; tr < 2; tr++) {
            // sequences: each object alone, then a few back-to-back sequences of 2-3 objects in one stream
            std::vector<std::vector<int> > seqs; for (size_t i = 0; i < objs.size(); i++) { if (big && (objs[i].ty == "SecretKey" || objs[i].ty == "BKey") && tr == 1) continue; seqs.push_back(std::vector<int>(1, (int)i)); }
            if (!big) for (int s = 0; s < 6; s++) { std::vector<int> q; int len = 2 + rng.below(2); for (int j = 0; j < len; j++) q.push_back(rng.below(objs.size())); seqs.push_back(q); }
            for (auto& sq : seqs) {
                Sink sink; LogBuf lb(&sink); std::ostream os(&lb); FILE* F = tr ? open_sink(&sink) : NULL;
                VH_B; vh_s("e", "SeqBegin"); VH_C; vh_s("tr", tr ? "file" : "stream"); VH_C; vh_i("count", sq.size()); VH_E;
                std::vector<size_t> ends;
                for (int idx : sq) { Obj& o = objs[idx]; size_t c0 = sink.calls.size(), b0 = sink.data.size();
                    VH_B; vh_s("e", "Export"); VH_C; vh_s("ty", o.ty.c_str()); VH_C; emit_desc(o.desc(o.o)); VH_E;
                    if (tr) { o.expF(F, o.o); fflush(F); } else o.expS(os, o.o);
                    (void)c0; emit_tokens(sink.data, b0);
                    VH_B; vh_s("e", "ExportEnd"); VH_C; vh_i("bytes", sink.data.size() - b0); VH_C; vh_h("hb", hmix(1, sink.data.data() + b0, sink.data.size() - b0)); VH_E; ends.push_back(sink.data.size()); }
                if (F) fclose(F);
                // import everything back in order from one stream
                std::istringstream is(sink.data); FILE* G = tr ? fmemopen((void*)sink.data.data(), sink.data.size(), "r") : NULL;
                for (size_t j = 0; j < sq.size(); j++) { Obj& o = objs[sq[j]];
                    void* r = tr ? o.impF(G) : o.impS(is);
                    long pos = tr ? ftell(G) : (long)is.tellg(); int good = tr ? !ferror(G) : (int)(bool)is;
                    VH_B; vh_s("e", "Import"); VH_C; vh_s("ty", o.ty.c_str()); VH_C; emit_desc(o.desc(r)); VH_C; vh_i("pos", pos); VH_C; vh_i("good", good); VH_E;
                    // re-export the imported object
                    Sink s2; LogBuf lb2(&s2); std::ostream os2(&lb2);
                    if (tr) { FILE* F2 = open_sink(&s2); o.expF(F2, r); fclose(F2); } else o.expS(os2, r);
                    VH_B; vh_s("e", "ReExport"); VH_C; vh_i("bytes", s2.data.size()); VH_C; vh_h("hb", hmix(1, s2.data.data(), s2.data.size())); VH_E;
                    o.del(r);
                }
                if (G) fclose(G);
                VH_B; vh_s("e", "SeqEnd"); VH_C; vh_i("total", sink.data.size()); VH_E;
            }
        }
    }
    fflush(stdout);
    return 0;
}
