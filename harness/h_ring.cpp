// C11: drive the polynomial routines (schoolbook, Karatsuba x3, monomial x3, coefficient-wise) and print rows.
#include <tfhe.h>
#include <polynomials_arithmetic.h>
#include "vh.h"
#include <set>
#include <algorithm>

static void wl(const char* k, const uint32_t* v, int n) {   // dense list of words as [h,l] pairs
    fprintf(vh_out, "\"%s\":[", k);
    for (int i = 0; i < n; i++) fprintf(vh_out, "%s[%u,%u]", i ? "," : "", v[i] >> 16, v[i] & 0xffff);
    fputc(']', vh_out);
}
typedef std::vector<std::pair<int, uint32_t> > Terms;
static void tl(const char* k, const Terms& t) {
    fprintf(vh_out, "\"%s\":[", k);
    for (size_t i = 0; i < t.size(); i++) fprintf(vh_out, "%s[%d,%u,%u]", i ? "," : "", t[i].first, t[i].second >> 16, t[i].second & 0xffff);
    fputc(']', vh_out);
}
static Terms nz_rel(const Torus32* r, int N, uint32_t base) { Terms t; for (int i = 0; i < N; i++) if ((uint32_t)r[i] != base) t.push_back(std::make_pair(i, (uint32_t)r[i])); return t; }
static const uint32_t EXT[] = {0xffffffffu, 0x80000000u, 0x7fffffffu, 1u, 0x80000001u, 2u, 0x0000ffffu, 0xffff0000u};
static const char* MULF[] = {"naive", "kara", "addkara", "subkara"};

static void call_mul(int f, TorusPolynomial* r, const IntPolynomial* a, const TorusPolynomial* b) {
    switch (f) { case 0: torusPolynomialMultNaive(r, a, b); break; case 1: torusPolynomialMultKaratsuba(r, a, b); break;
        case 2: torusPolynomialAddMulRKaratsuba(r, a, b); break; default: torusPolynomialSubMulRKaratsuba(r, a, b); }
}
// sparse x sparse product, every multiplication routine
static void mul_sparse(int N, const Terms& A, const Terms& B, uint32_t r0) {
    IntPolynomial* a = new_IntPolynomial(N); TorusPolynomial* b = new_TorusPolynomial(N); TorusPolynomial* r = new_TorusPolynomial(N);
    for (int i = 0; i < N; i++) { a->coefs[i] = 0; b->coefsT[i] = 0; }
    for (auto& t : A) a->coefs[t.first] = (int32_t)t.second;
    for (auto& t : B) b->coefsT[t.first] = (Torus32)t.second;
    Terms A2, B2; for (int i = 0; i < N; i++) { if (a->coefs[i]) A2.push_back(std::make_pair(i, (uint32_t)a->coefs[i])); if (b->coefsT[i]) B2.push_back(std::make_pair(i, (uint32_t)b->coefsT[i])); }
    for (int f = 0; f < 4; f++) {
        for (int i = 0; i < N; i++) r->coefsT[i] = (Torus32)r0;
        call_mul(f, r, a, b);
        uint32_t base = f < 2 ? 0u : r0;
        VH_B; vh_s("k", "ms"); VH_C; vh_s("f", MULF[f]); VH_C; vh_i("N", N); VH_C; vh_w("r0", r0); VH_C; vh_w("base", base); VH_C; tl("A", A2); VH_C; tl("B", B2); VH_C; tl("nz", nz_rel(r->coefsT, N, base)); VH_E;
    }
    delete_IntPolynomial(a); delete_TorusPolynomial(b); delete_TorusPolynomial(r);
}
static void mul_dense(int N, VhRng& rng, int flavour) {
    IntPolynomial* a = new_IntPolynomial(N); TorusPolynomial* b = new_TorusPolynomial(N); TorusPolynomial* r = new_TorusPolynomial(N);
    std::vector<uint32_t> r0(N);
    for (int i = 0; i < N; i++) {
        a->coefs[i] = flavour == 0 ? (int32_t)rng.u32() : flavour == 1 ? (int32_t)EXT[rng.below(8)] : flavour == 2 ? (int32_t)EXT[(i * 3 + 1) % 3] : (int32_t)(rng.below(1024)) - 512;
        b->coefsT[i] = flavour == 0 ? (Torus32)rng.u32() : flavour == 1 ? (Torus32)EXT[rng.below(8)] : flavour == 2 ? (Torus32)EXT[(i + 1) % 3] : (Torus32)rng.u32();
        r0[i] = rng.u32();
    }
    for (int f = 0; f < 4; f++) {
        for (int i = 0; i < N; i++) r->coefsT[i] = (Torus32)r0[i];
        call_mul(f, r, a, b);
        VH_B; vh_s("k", "md"); VH_C; vh_s("f", MULF[f]); VH_C; vh_i("N", N); VH_C; wl("a", (uint32_t*)a->coefs, N); VH_C; wl("b", (uint32_t*)b->coefsT, N); VH_C; wl("r0", r0.data(), N); VH_C; wl("out", (uint32_t*)r->coefsT, N); VH_E;
    }
    // the Karatsuba entry points with the result being the torus operand itself (they compute the whole product before writing): same rows, r0 = b
    for (int f = 1; f < 4; f++) {
        std::vector<uint32_t> b0(N); for (int i = 0; i < N; i++) { b0[i] = (uint32_t)b->coefsT[i]; r->coefsT[i] = b->coefsT[i]; }
        call_mul(f, r, a, r);
        VH_B; vh_s("k", "md"); VH_C; vh_s("f", MULF[f]); VH_C; vh_i("N", N); VH_C; wl("a", (uint32_t*)a->coefs, N); VH_C; wl("b", b0.data(), N); VH_C; wl("r0", b0.data(), N); VH_C; wl("out", (uint32_t*)r->coefsT, N); VH_E;
    }
    delete_IntPolynomial(a); delete_TorusPolynomial(b); delete_TorusPolynomial(r);
}
static const char* XF[] = {"txai", "txaim1", "ixaim1"};
static void call_xai(int f, int N, int a, const uint32_t* src, uint32_t* out) {
    if (f < 2) { TorusPolynomial* s = new_TorusPolynomial(N); TorusPolynomial* r = new_TorusPolynomial(N);
        for (int i = 0; i < N; i++) { s->coefsT[i] = (Torus32)src[i]; r->coefsT[i] = (Torus32)0xdeadbeef; }
        if (f == 0) torusPolynomialMulByXai(r, a, s); else torusPolynomialMulByXaiMinusOne(r, a, s);
        for (int i = 0; i < N; i++) out[i] = (uint32_t)r->coefsT[i];
        delete_TorusPolynomial(s); delete_TorusPolynomial(r);
    } else { IntPolynomial* s = new_IntPolynomial(N); IntPolynomial* r = new_IntPolynomial(N);
        for (int i = 0; i < N; i++) { s->coefs[i] = (int32_t)src[i]; r->coefs[i] = (int32_t)0xdeadbeef; }
        intPolynomialMulByXaiMinusOne(r, a, s);
        for (int i = 0; i < N; i++) out[i] = (uint32_t)r->coefs[i];
        delete_IntPolynomial(s); delete_IntPolynomial(r);
    }
}
static void xai_dense(int N, int a, VhRng& rng, int flavour) {
    std::vector<uint32_t> src(N), out(N);
    for (int i = 0; i < N; i++) src[i] = flavour == 0 ? (uint32_t)(i + 1) * 0x01010101u + 7u : flavour == 1 ? EXT[rng.below(8)] : rng.u32();
    for (int f = 0; f < 3; f++) { call_xai(f, N, a, src.data(), out.data());
        VH_B; vh_s("k", "xd"); VH_C; vh_s("f", XF[f]); VH_C; vh_i("N", N); VH_C; vh_i("a", a); VH_C; wl("src", src.data(), N); VH_C; wl("out", out.data(), N); VH_E; }
}
static void xai_sparse(int N, int a, VhRng& rng) {
    std::vector<uint32_t> src(N, 0), out(N);
    int am = a % N; int ps[] = {0, N - 1, (N - am) % N, (2 * N - am - 1) % N, (int)rng.below(N)};
    for (int q = 0; q < 5; q++) src[ps[q]] = q < 2 ? EXT[q] : (rng.u32() | 1u);
    Terms S; for (int i = 0; i < N; i++) if (src[i]) S.push_back(std::make_pair(i, src[i]));
    for (int f = 0; f < 3; f++) { call_xai(f, N, a, src.data(), out.data());
        VH_B; vh_s("k", "xs"); VH_C; vh_s("f", XF[f]); VH_C; vh_i("N", N); VH_C; vh_i("a", a); VH_C; tl("S", S); VH_C; tl("nz", nz_rel((Torus32*)out.data(), N, 0)); VH_E; }
}
static const char* LF[] = {"add", "addto", "sub", "subto", "addmulz", "addmulzto", "submulz", "submulzto", "copy", "clear", "iaddto", "icopy", "iclear"};
static void lin_dense(int N, uint32_t p, VhRng& rng, int flavour) {
    TorusPolynomial* A = new_TorusPolynomial(N); TorusPolynomial* B = new_TorusPolynomial(N); TorusPolynomial* R = new_TorusPolynomial(N);
    IntPolynomial* IA = new_IntPolynomial(N); IntPolynomial* IR = new_IntPolynomial(N);
    std::vector<uint32_t> a(N), b(N), out(N);
    for (int i = 0; i < N; i++) { a[i] = flavour ? EXT[rng.below(8)] : rng.u32(); b[i] = flavour ? EXT[rng.below(8)] : rng.u32(); }
    for (int f = 0; f < 13; f++) {
        bool three = f == 0 || f == 2 || f == 4 || f == 6 || f == 8 || f == 9 || f == 11 || f == 12;       // result written from scratch: whatever the output object held before must not survive
        for (int i = 0; i < N; i++) { A->coefsT[i] = (Torus32)a[i]; B->coefsT[i] = (Torus32)b[i]; R->coefsT[i] = (Torus32)(three ? ~a[i] ^ 0x5a5a5a5au : a[i]); IA->coefs[i] = (int32_t)b[i]; IR->coefs[i] = (int32_t)(three ? ~a[i] : a[i]); }
        const Torus32* o = R->coefsT;
        switch (f) {
            case 0: torusPolynomialAdd(R, A, B); break; case 1: torusPolynomialAddTo(R, B); break;
            case 2: torusPolynomialSub(R, A, B); break; case 3: torusPolynomialSubTo(R, B); break;
            case 4: torusPolynomialAddMulZ(R, A, (int32_t)p, B); break; case 5: torusPolynomialAddMulZTo(R, (int32_t)p, B); break;
            case 6: torusPolynomialSubMulZ(R, A, (int32_t)p, B); break; case 7: torusPolynomialSubMulZTo(R, (int32_t)p, B); break;
            case 8: torusPolynomialCopy(R, B); break; case 9: torusPolynomialClear(R); break;
            case 10: intPolynomialAddTo(IR, IA); o = (Torus32*)IR->coefs; break; case 11: intPolynomialCopy(IR, IA); o = (Torus32*)IR->coefs; break;
            default: intPolynomialClear(IR); o = (Torus32*)IR->coefs; }
        for (int i = 0; i < N; i++) out[i] = (uint32_t)o[i];
        VH_B; vh_s("k", "ld"); VH_C; vh_s("f", LF[f]); VH_C; vh_i("N", N); VH_C; vh_w("p", p); VH_C; wl("a", a.data(), N); VH_C; wl("b", b.data(), N); VH_C; wl("out", out.data(), N); VH_E;
    }
    delete_TorusPolynomial(A); delete_TorusPolynomial(B); delete_TorusPolynomial(R); delete_IntPolynomial(IA); delete_IntPolynomial(IR);
}
// norms and distances (toruspolynomial-functions.cpp): sum of squares of an integer polynomial (both implementations), largest coefficient distance of two
// integer polynomials, largest torus distance of two torus polynomials (printed in units of 2^-32: the double holds it exactly)
static void norms(int N, VhRng& rng, int flavour) {
    IntPolynomial* p = new_IntPolynomial(N); IntPolynomial* q = new_IntPolynomial(N); TorusPolynomial* a = new_TorusPolynomial(N); TorusPolynomial* b = new_TorusPolynomial(N);
    std::vector<uint32_t> av(N), bv(N);
    for (int i = 0; i < N; i++) { p->coefs[i] = (int32_t)rng.below(2001) - 1000; q->coefs[i] = flavour == 1 ? p->coefs[i] : (int32_t)rng.below(2001) - 1000;
        av[i] = flavour ? EXT[rng.below(8)] : rng.u32(); bv[i] = flavour == 1 ? av[i] : flavour ? EXT[rng.below(8)] : rng.u32(); a->coefsT[i] = (Torus32)av[i]; b->coefsT[i] = (Torus32)bv[i]; }
    if (flavour == 2 && N > 1) { q->coefs[N - 1] = p->coefs[N - 1] + 1999; bv[0] = av[0] + 0x80000000u; b->coefsT[0] = (Torus32)bv[0]; }       // the maximum in the last / first position; distance exactly 1/2
    double td = torusPolynomialNormInftyDist(a, b) * 4294967296.0;
    VH_B; vh_s("k", "nrm"); VH_C; vh_i("N", N); VH_C; fputs("\"p\":[", vh_out); for (int i = 0; i < N; i++) fprintf(vh_out, "%s%d", i ? "," : "", p->coefs[i]); fputs("],\"q\":[", vh_out); for (int i = 0; i < N; i++) fprintf(vh_out, "%s%d", i ? "," : "", q->coefs[i]); fputs("]", vh_out); VH_C;
    wl("a", av.data(), N); VH_C; wl("b", bv.data(), N); VH_C; vh_i("sq2", (long)intPolynomialNormSq2(p)); VH_C; vh_i("n2sq", (long)intPolynomialNorm2sq(p)); VH_C; vh_i("idist", (long)intPolynomialNormInftyDist(p, q)); VH_C;
    vh_w("tdist", (uint32_t)(uint64_t)td); VH_C; vh_i("texact", td == (double)(uint64_t)td && td <= 2147483648.0 ? 1 : 0); VH_E;
    delete_IntPolynomial(p); delete_IntPolynomial(q); delete_TorusPolynomial(a); delete_TorusPolynomial(b);
}
int main(int argc, char** argv) {
    vh_init();
    const char* mode = argc > 1 ? argv[1] : "";
    VhRng rng(vh_arg(argc, argv, "--seed", 1));
    std::vector<long> Ns = vh_list(vh_sarg(argc, argv, "--N", "1,2,4,8,16,32"));
    long dense_max = vh_arg(argc, argv, "--densemax", 32), nsparse = vh_arg(argc, argv, "--sparse", 64), allpairs_max = vh_arg(argc, argv, "--pairsmax", 16);
    long xdense_max = vh_arg(argc, argv, "--xdensemax", 32), xall_max = vh_arg(argc, argv, "--xallmax", 2048);
    if (!strcmp(mode, "mul")) {
        for (long N : Ns) {
            if (N <= allpairs_max) {          // every basis pair: exhaustive by bilinearity
                for (int i = 0; i < N; i++) for (int j = 0; j < N; j++) { Terms A(1, std::make_pair(i, EXT[(i + j) % 8])), B(1, std::make_pair(j, EXT[(i * 3 + j + 1) % 8])); mul_sparse(N, A, B, 0x12345678u + i); }
            } else {                          // boundary pairs and a sample
                int h = N / 2; int bs[] = {0, 1, h - 1, h, h + 1, (int)N - 2, (int)N - 1, 4, 5, 8, 9};
                for (int i : bs) for (int j : bs) if (i >= 0 && j >= 0 && i < N && j < N) { Terms A(1, std::make_pair(i, EXT[rng.below(8)])), B(1, std::make_pair(j, rng.u32())); mul_sparse(N, A, B, rng.u32()); }
            }
            for (long s = 0; s < nsparse; s++) {   // few-term polynomials with extreme coefficients
                Terms A, B; int na = 1 + rng.below(3), nb = 1 + rng.below(3);
                for (int q = 0; q < na; q++) A.push_back(std::make_pair((int)rng.below(N), rng.below(2) ? EXT[rng.below(8)] : rng.u32()));
                for (int q = 0; q < nb; q++) B.push_back(std::make_pair((int)rng.below(N), rng.below(2) ? EXT[rng.below(8)] : rng.u32()));
                mul_sparse(N, A, B, rng.u32());
            }
            if (N <= dense_max) for (int fl = 0; fl < 4; fl++) mul_dense(N, rng, fl);
        }
    } else if (!strcmp(mode, "xai")) {
        for (long N : Ns) {
            for (int a = 0; a < 2 * N; a++) {
                bool edge = a <= 2 || a >= 2 * N - 2 || (a >= N - 2 && a <= N + 2);
                if (N <= xdense_max || edge) xai_dense(N, a, rng, 0);
                if (N <= xall_max || edge || rng.below(16) == 0) xai_sparse(N, a, rng);
            }
            if (N <= 64) for (int q = 0; q < 4; q++) { xai_dense(N, rng.below(2 * N), rng, 1); xai_dense(N, rng.below(2 * N), rng, 2); }
        }
    } else if (!strcmp(mode, "lin")) {
        uint32_t ps[] = {0u, 1u, 0xffffffffu, 2u, 0x80000000u, 0x7fffffffu, 32767u, 0xffff8000u, 12345u};
        for (long N : Ns) { if (N <= 64) for (int q = 0; q < 9; q++) lin_dense(N, ps[q], rng, q & 1); lin_dense(N, 0x80000000u, rng, 1); lin_dense(N, rng.u32(), rng, 0); if (N <= 64) for (int fl = 0; fl < 3; fl++) norms((int)N, rng, fl); }
    } else { fprintf(stderr, "usage: h_ring mul|xai|lin --N list ...\n"); return 2; }
    fflush(stdout);
    return 0;
}
