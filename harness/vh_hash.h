// Content hashes of library objects (for frame conditions, determinism memos, I/O equivalence).
#ifndef VH_HASH_H
#define VH_HASH_H
#include <tfhe.h>
#include "vh.h"
static inline uint64_t hmix(uint64_t h, const void* p, size_t nbytes) {
    const unsigned char* c = (const unsigned char*)p; size_t i = 0;
    for (; i + 8 <= nbytes; i += 8) { uint64_t w; memcpy(&w, c + i, 8); h = (h ^ w) * 0x9E3779B97F4A7C15ULL; h ^= h >> 29; }
    for (; i < nbytes; i++) { h = (h ^ c[i]) * 0x100000001B3ULL; }
    return h;
}
static inline uint64_t hLwe(const LweSample* s, int n, uint64_t h = 0x1234) { h = hmix(h, s->a, 4 * (size_t)n); h = hmix(h, &s->b, 4); return hmix(h, &s->current_variance, 8); }
static inline uint64_t hPoly(const TorusPolynomial* p, uint64_t h = 0x77) { return hmix(h, p->coefsT, 4 * (size_t)p->N); }
static inline uint64_t hTLwe(const TLweSample* s, const TLweParams* p, uint64_t h = 0x5678) { for (int c = 0; c <= p->k; c++) h = hmix(h, s->a[c].coefsT, 4 * (size_t)p->N); return hmix(h, &s->current_variance, 8); }
static inline uint64_t hTGsw(const TGswSample* s, const TGswParams* p, uint64_t h = 0x9abc) { for (int r = 0; r < p->kpl; r++) h = hTLwe(&s->all_sample[r], p->tlwe_params, h); return h; }
static inline uint64_t hLagr(const LagrangeHalfCPolynomial* q, int N, uint64_t h) { return hmix(h, q->data, 8 * (size_t)N); }      // N/2 complex = N doubles
static inline uint64_t hTGswFFT(const TGswSampleFFT* s, const TGswParams* p, uint64_t h = 0xdef0) {
    for (int r = 0; r < p->kpl; r++) for (int c = 0; c <= p->tlwe_params->k; c++) h = hLagr(&s->all_samples[r].a[c], p->tlwe_params->N, h);
    return h;
}
static inline uint64_t hKS(const LweKeySwitchKey* ks, uint64_t h = 0x4242) {
    int tot = ks->n * ks->t * ks->base, n = ks->out_params->n;
    for (int i = 0; i < tot; i++) h = hLwe(&ks->ks0_raw[i], n, h);
    int hdr[4] = {ks->n, ks->t, ks->basebit, ks->base}; return hmix(h, hdr, sizeof hdr);
}
static inline uint64_t hLweParams(const LweParams* p, uint64_t h) { h = hmix(h, &p->n, 4); h = hmix(h, &p->alpha_min, 8); return hmix(h, &p->alpha_max, 8); }
static inline uint64_t hTGswParams(const TGswParams* p, uint64_t h) {
    int v[6] = {p->l, p->Bgbit, p->Bg, p->halfBg, (int)p->maskMod, p->kpl}; h = hmix(h, v, sizeof v); h = hmix(h, &p->offset, 4); h = hmix(h, p->h, 4 * (size_t)p->l);
    const TLweParams* t = p->tlwe_params; h = hmix(h, &t->N, 4); h = hmix(h, &t->k, 4); h = hmix(h, &t->alpha_min, 8); h = hmix(h, &t->alpha_max, 8); return hLweParams(&t->extracted_lweparams, h);
}
static inline uint64_t hGateParams(const TFheGateBootstrappingParameterSet* p, uint64_t h = 0x1111) { h = hmix(h, &p->ks_t, 4); h = hmix(h, &p->ks_basebit, 4); h = hLweParams(p->in_out_params, h); return hTGswParams(p->tgsw_params, h); }
static inline uint64_t hCloud(const TFheGateBootstrappingCloudKeySet* c) {
    uint64_t h = 0x2222; int n = c->params->in_out_params->n;
    if (c->bkFFT) { for (int i = 0; i < n; i++) h = hTGswFFT(&c->bkFFT->bkFFT[i], c->params->tgsw_params, h); h = hKS(c->bkFFT->ks, h); }
    if (c->bk) { for (int i = 0; i < n; i++) h = hTGsw(&c->bk->bk[i], c->params->tgsw_params, h); h = hKS(c->bk->ks, h); }
    return h;
}
#endif
