// C13: drive modSwitchFromTorus32 / modSwitchToTorus32 / approxPhase / dtot32 / t32tod over grids and print rows.
#include <tfhe.h>
#include "vh.h"
#include <cmath>

static void row_ms(uint32_t x, int32_t M) {
    int32_t r = modSwitchFromTorus32((Torus32)x, M);
    Torus32 ap = approxPhase((Torus32)x, M);
    Torus32 t = modSwitchToTorus32(r, M);
    VH_B; vh_s("k", "ms"); VH_C; vh_w("x", x); VH_C; vh_i("M", M); VH_C; vh_i("r", r); VH_C; vh_w("ap", (uint32_t)ap); VH_C; vh_w("t", (uint32_t)t); VH_E;
}
static void row_enc(int32_t mu, int32_t M) {
    Torus32 t = modSwitchToTorus32(mu, M);
    int32_t back = modSwitchFromTorus32(t, M);
    VH_B; vh_s("k", "enc"); VH_C; vh_i("mu", mu); VH_C; vh_i("M", M); VH_C; vh_w("t", (uint32_t)t); VH_C; vh_i("back", back); VH_E;
}
static void row_conv(uint32_t x, int k) {
    double d = t32tod((Torus32)x);
    Torus32 r1 = dtot32(d);
    Torus32 r2 = dtot32(d + (double)k);
    VH_B; vh_s("k", "conv"); VH_C; vh_w("x", x); VH_C; vh_i("p", k); VH_C; vh_w("r1", (uint32_t)r1); VH_C; vh_w("r2", (uint32_t)r2); VH_E;
}

int main(int argc, char** argv) {
    vh_init();
    const char* mode = argc > 1 ? argv[1] : "";
    if (!strcmp(mode, "grid")) {          // every point of the W-bit torus, embedded: x = xi << (32-W)
        int W = vh_arg(argc, argv, "--W", 12);
        std::vector<long> Ms = vh_list(vh_sarg(argc, argv, "--M", "2,4"));
        for (long M : Ms) {
            for (uint32_t xi = 0; xi < (1u << W); xi++) row_ms(xi << (32 - W), (int32_t)M);
            long lim = M < 4096 ? M : 4096;
            for (long mu = 0; mu < lim; mu++) row_enc((int32_t)mu, (int32_t)M);
            if (M > 4096) for (long j = 0; j < 64; j++) { row_enc((int32_t)(M - 1 - j), (int32_t)M); row_enc((int32_t)(M / 2 - 32 + j), (int32_t)M); }
        }
        for (uint32_t xi = 0; xi < (1u << W); xi++) { uint32_t x = xi << (32 - W); row_conv(x, 0); row_conv(x, (int)(xi % 17) - 8); }
    } else if (!strcmp(mode, "edges")) {  // full width: neighbourhoods of the rounding edges k*2^32/M and (k+1/2)*2^32/M
        std::vector<long> Ms = vh_list(vh_sarg(argc, argv, "--M", "2,4"));
        long nrand = vh_arg(argc, argv, "--randM", 0), per = vh_arg(argc, argv, "--per", 64);
        VhRng rng(vh_arg(argc, argv, "--seed", 1));
        for (long i = 0; i < nrand; i++) Ms.push_back(2 + rng.below(32767));
        for (long M : Ms) {
            for (long j = 0; j < per; j++) {
                // choose k: first/last few and random ones
                uint64_t k = j < 4 ? (uint64_t)j : j < 8 ? (uint64_t)(M - 1 - (j - 4)) : rng.below((uint32_t)M);
                for (int half = 0; half < 2; half++) {
                    // edge position in units of 2^-32, rounded down
                    unsigned __int128 num = ((unsigned __int128)(2 * k + half)) << 32;
                    uint32_t e = (uint32_t)(num / (2 * (uint64_t)M));
                    for (int d = -2; d <= 2; d++) row_ms(e + (uint32_t)d, (int32_t)M);
                }
            }
            for (int d = -3; d <= 3; d++) { row_ms(0x80000000u + (uint32_t)d, (int32_t)M); row_ms((uint32_t)d, (int32_t)M); row_ms(0x7fffffffu + (uint32_t)d, (int32_t)M); }
            for (long j = 0; j < per; j++) { row_ms(rng.u32(), (int32_t)M); row_enc((int32_t)rng.below((uint32_t)M), (int32_t)M); }
            row_enc(0, (int32_t)M); row_enc((int32_t)M - 1, (int32_t)M); row_enc((int32_t)(M / 2), (int32_t)M);
        }
        for (long j = 0; j < per * 8; j++) { uint32_t x = rng.u32(); row_conv(x, (int)rng.below(2001) - 1000); }
        for (int d = -4; d <= 4; d++) { row_conv(0x80000000u + (uint32_t)d, d * 3); row_conv((uint32_t)d, -d); row_conv(0x7fffffffu + (uint32_t)d, 1 << 19); }
        // periodicity at large magnitudes: x with few fractional bits so that t32tod(x) + 2^e is exact in a double (e up to 51); reported exponent instead of the integer
        for (int e = 20; e <= 51; e++) for (int sgn = -1; sgn <= 1; sgn += 2) for (int q = 0; q < 4; q++) {
            int fb = 52 - e; if (fb > 32) fb = 32; uint32_t x = fb >= 32 ? rng.u32() : (rng.u32() >> (32 - fb)) << (32 - fb); if (q == 0) x = 0x80000000u; if (q == 1 && fb >= 2) x = 0x40000000u;
            double d = t32tod((Torus32)x); Torus32 r1 = dtot32(d); Torus32 r2 = dtot32(d + sgn * ldexp(1.0, e));
            VH_B; vh_s("k", "conv"); VH_C; vh_w("x", x); VH_C; vh_i("p", sgn * e); VH_C; vh_w("r1", (uint32_t)r1); VH_C; vh_w("r2", (uint32_t)r2); VH_E; }
    } else if (!strcmp(mode, "mix")) {    // histories: the calls that make up a row are interleaved with calls for other message-space sizes
        std::vector<long> Ms = vh_list(vh_sarg(argc, argv, "--M", "2,3,4,5,7,8,16,1000,1024,2048,4096,32768"));
        long iters = vh_arg(argc, argv, "--iters", 2000); VhRng rng(vh_arg(argc, argv, "--seed", 1));
        auto pickx = [&](long M) -> uint32_t { if (rng.below(3)) return rng.u32(); uint64_t k = rng.below((uint32_t)M); unsigned __int128 num = ((unsigned __int128)(2 * k + rng.below(2))) << 32; return (uint32_t)(num / (2 * (uint64_t)M)) + (uint32_t)((int)rng.below(5) - 2); };
        for (long it = 0; it < iters; it++) {
            int32_t M1 = (int32_t)Ms[rng.below(Ms.size())], M2 = (int32_t)Ms[rng.below(Ms.size())], M3 = (int32_t)Ms[rng.below(Ms.size())];
            uint32_t x1 = pickx(M1), x3 = pickx(M3); int32_t mu2 = (int32_t)rng.below((uint32_t)M2);
            int32_t r1, r3, back2; Torus32 ap1, ap3, t1, t2, t3;
            switch (rng.below(4)) {
            case 0: r1 = modSwitchFromTorus32((Torus32)x1, M1); t2 = modSwitchToTorus32(mu2, M2); back2 = modSwitchFromTorus32(t2, M2); ap3 = approxPhase((Torus32)x3, M3); r3 = modSwitchFromTorus32((Torus32)x3, M3);
                    ap1 = approxPhase((Torus32)x1, M1); t1 = modSwitchToTorus32(r1, M1); t3 = modSwitchToTorus32(r3, M3); break;
            case 1: ap1 = approxPhase((Torus32)x1, M1); r3 = modSwitchFromTorus32((Torus32)x3, M3); t2 = modSwitchToTorus32(mu2, M2); r1 = modSwitchFromTorus32((Torus32)x1, M1); t3 = modSwitchToTorus32(r3, M3);
                    back2 = modSwitchFromTorus32(t2, M2); t1 = modSwitchToTorus32(r1, M1); ap3 = approxPhase((Torus32)x3, M3); break;
            case 2: t2 = modSwitchToTorus32(mu2, M2); r1 = modSwitchFromTorus32((Torus32)x1, M1); ap3 = approxPhase((Torus32)x3, M3); back2 = modSwitchFromTorus32(t2, M2); t1 = modSwitchToTorus32(r1, M1);
                    r3 = modSwitchFromTorus32((Torus32)x3, M3); ap1 = approxPhase((Torus32)x1, M1); t3 = modSwitchToTorus32(r3, M3); break;
            default: r3 = modSwitchFromTorus32((Torus32)x3, M3); ap1 = approxPhase((Torus32)x1, M1); t2 = modSwitchToTorus32(mu2, M2); t3 = modSwitchToTorus32(r3, M3); r1 = modSwitchFromTorus32((Torus32)x1, M1);
                    ap3 = approxPhase((Torus32)x3, M3); back2 = modSwitchFromTorus32(t2, M2); t1 = modSwitchToTorus32(r1, M1); break;
            }
            VH_B; vh_s("k", "ms"); VH_C; vh_w("x", x1); VH_C; vh_i("M", M1); VH_C; vh_i("r", r1); VH_C; vh_w("ap", (uint32_t)ap1); VH_C; vh_w("t", (uint32_t)t1); VH_E;
            VH_B; vh_s("k", "enc"); VH_C; vh_i("mu", mu2); VH_C; vh_i("M", M2); VH_C; vh_w("t", (uint32_t)t2); VH_C; vh_i("back", back2); VH_E;
            VH_B; vh_s("k", "ms"); VH_C; vh_w("x", x3); VH_C; vh_i("M", M3); VH_C; vh_i("r", r3); VH_C; vh_w("ap", (uint32_t)ap3); VH_C; vh_w("t", (uint32_t)t3); VH_E;
        }
    } else { fprintf(stderr, "usage: h_arith grid|edges|mix ...\n"); return 2; }
    fflush(stdout);
    return 0;
}
