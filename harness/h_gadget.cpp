// C12: drive tGswTorus32PolynomialDecompH / tGswTLweDecompH and print one row per coefficient.
#include <tfhe.h>
#include "vh.h"
#include <thread>

static void rows(const char* fn, int l, int bg, int N, int comp, const std::vector<uint32_t>& in, const TorusPolynomial* after, const IntPolynomial* dec) {
    for (int j = 0; j < N; j++) {
        VH_B; vh_s("k", "dec"); VH_C; vh_s("f", fn); VH_C; vh_i("L", l); VH_C; vh_i("B", bg); VH_C; vh_i("N", N); VH_C; vh_i("j", j); VH_C; vh_i("c", comp); VH_C;
        vh_w("x", in[j]); VH_C; vh_w("a", (uint32_t)after->coefsT[j]); VH_C; fputs("\"d\":[", vh_out);
        for (int p = 0; p < l; p++) fprintf(vh_out, "%s%d", p ? "," : "", dec[p].coefs[j]);
        fputs("]", vh_out); VH_E;
    }
}
// decompose the values vals (padded to a multiple of N) through polynomials of degree N
static void run_poly(int l, int bg, int N, const std::vector<uint32_t>& vals) {
    TLweParams* tp = new_TLweParams(N, 1, 0., 1.);
    TGswParams* gp = new_TGswParams(l, bg, tp);
    TorusPolynomial* pol = new_TorusPolynomial(N);
    IntPolynomial* dec = new_IntPolynomial_array(l, N);
    for (size_t base = 0; base < vals.size(); base += N) {
        std::vector<uint32_t> in(N);
        for (int j = 0; j < N; j++) { in[j] = vals[(base + j) % vals.size()]; pol->coefsT[j] = (Torus32)in[j]; }
        tGswTorus32PolynomialDecompH(dec, pol, gp);
        rows("poly", l, bg, N, 0, in, pol, dec);
    }
    delete_IntPolynomial_array(l, dec); delete_TorusPolynomial(pol); delete_TGswParams(gp); delete_TLweParams(tp);
}
static void run_tlwe(int l, int bg, int N, int k, VhRng& rng, const std::vector<uint32_t>& vals, int zero_mask = 0) {
    TLweParams* tp = new_TLweParams(N, k, 0., 1.);
    TGswParams* gp = new_TGswParams(l, bg, tp);
    TLweSample* s = new_TLweSample(tp);
    IntPolynomial* dec = new_IntPolynomial_array((k + 1) * l, N);
    std::vector<std::vector<uint32_t> > in(k + 1, std::vector<uint32_t>(N));
    for (int c = 0; c <= k; c++) for (int j = 0; j < N; j++) {
        in[c][j] = ((zero_mask >> c) & 1) ? 0u : (rng.below(4) == 0 && !vals.empty()) ? vals[rng.below(vals.size())] : rng.u32();      // zero_mask: identically zero polynomials (trivial / partly trivial samples)
        s->a[c].coefsT[j] = (Torus32)in[c][j];
    }
    for (int q = 0; q < (k + 1) * l; q++) for (int j = 0; j < N; j++) dec[q].coefs[j] = 0x5A5A5A5A;       // whatever the output buffer held before must not survive
    tGswTLweDecompH(dec, s, gp);
    for (int c = 0; c <= k; c++) rows("tlwe", l, bg, N, c, in[c], &s->a[c], dec + c * l);
    delete_IntPolynomial_array((k + 1) * l, dec); delete_TLweSample(s); delete_TGswParams(gp); delete_TLweParams(tp);
}
static std::vector<uint32_t> edge_vals(int l, int bg, VhRng& rng, int nrand) {
    std::vector<uint32_t> v;
    uint32_t halfBg = 1u << (bg - 1), off = 0;
    for (int p = 1; p <= l; p++) off += halfBg << (32 - p * bg);
    for (int p = 1; p <= l; p++) {
        int sh = 32 - p * bg;
        // values where the field at level p turns over (carry into level p-1), seen through the offset
        uint32_t Bg = 1u << bg;
        uint32_t cs[] = {0, 1, halfBg - 1, halfBg, halfBg + 1, Bg - 1, rng.below(Bg), rng.below(Bg)};
        for (uint32_t c : cs) for (int d = -2; d <= 2; d++) { v.push_back((c << sh) - off + (uint32_t)d); v.push_back((c << sh) + (uint32_t)d); }
    }
    uint32_t tops[] = {0u, 1u, 0x7fffffffu, 0x80000000u, 0x80000001u, 0xffffffffu, 0xfffffffeu, 0u - off, 0u - off - 1u, 0u - off + 1u};
    for (uint32_t t : tops) v.push_back(t);
    for (int i = 0; i < nrand; i++) v.push_back(rng.u32());
    return v;
}
int main(int argc, char** argv) {
    vh_init();
    const char* mode = argc > 1 ? argv[1] : "";
    int l = vh_arg(argc, argv, "--l", 3), bg = vh_arg(argc, argv, "--bg", 7), W = vh_arg(argc, argv, "--W", l * bg + 1);
    long stride = vh_arg(argc, argv, "--stride", 1), from = vh_arg(argc, argv, "--from", 0), count = vh_arg(argc, argv, "--count", -1);
    VhRng rng(vh_arg(argc, argv, "--seed", 1));
    if (!strcmp(mode, "grid")) {              // the W-bit torus embedded: x = xi << (32-W)
        std::vector<uint32_t> vals;
        long tot = 1L << W;
        for (long xi = from; xi < tot && (count < 0 || (long)vals.size() < count); xi += stride) vals.push_back((uint32_t)xi << (32 - W));
        run_poly(l, bg, 1024, vals);
    } else if (!strcmp(mode, "edges")) {      // full width: carries between digits, wrap at the top, random; several degrees (lanes)
        std::vector<uint32_t> v = edge_vals(l, bg, rng, vh_arg(argc, argv, "--rand", 512));
        run_poly(l, bg, 1024, v);
        run_poly(l, bg, 8, std::vector<uint32_t>(v.begin(), v.begin() + (v.size() < 64 ? v.size() : 64)));
        run_poly(l, bg, 16, std::vector<uint32_t>(v.begin(), v.begin() + (v.size() < 64 ? v.size() : 64)));
        run_poly(l, bg, 64, std::vector<uint32_t>(v.begin(), v.begin() + (v.size() < 128 ? v.size() : 128)));
        for (int k = 1; k <= 2; k++) { run_tlwe(l, bg, 1024, k, rng, v); run_tlwe(l, bg, 16, k, rng, v);
            for (int zm = 1; zm < (1 << (k + 1)); zm++) run_tlwe(l, bg, 16, k, rng, v, zm); }       // every pattern of identically zero polynomials
    } else if (!strcmp(mode, "seq")) {        // histories: many layouts back to back in ONE process, then again in reverse order (a cache keyed by too little shows here)
        std::vector<long> ls = vh_list(vh_sarg(argc, argv, "--ls", "3,2")), bgs = vh_list(vh_sarg(argc, argv, "--bgs", "7,10"));
        long nr = vh_arg(argc, argv, "--rand", 64);
        for (int pass = 0; pass < 2; pass++) for (size_t q = 0; q < ls.size(); q++) { size_t i = pass ? ls.size() - 1 - q : q; int li = (int)ls[i], bi = (int)bgs[i];
            std::vector<uint32_t> v = edge_vals(li, bi, rng, nr); if (v.size() > 160) v.resize(160);
            run_poly(li, bi, (q % 2) ? 16 : 1024, v); run_tlwe(li, bi, (q % 2) ? 1024 : 16, 1 + (int)((q + pass) % 2), rng, v); }
    } else if (!strcmp(mode, "conc")) {       // four threads decompose their own samples into their own buffers at the same time (rows printed thread after thread)
        std::vector<long> ls = vh_list(vh_sarg(argc, argv, "--ls", "3,2")), bgs = vh_list(vh_sarg(argc, argv, "--bgs", "7,10")); long nr = vh_arg(argc, argv, "--rand", 32); unsigned seed = (unsigned)vh_arg(argc, argv, "--seed", 1);
        const int T = 4; std::vector<char*> bufs(T, (char*)0); std::vector<size_t> lens(T, 0); std::vector<std::thread> th;
        for (int t = 0; t < T; t++) th.emplace_back([&, t]() { FILE* m = open_memstream(&bufs[t], &lens[t]); vh_out = m; VhRng r(seed * 31 + t);
            for (int rep = 0; rep < 3; rep++) for (size_t q = 0; q < ls.size(); q++) { int li = (int)ls[(q + t) % ls.size()], bi = (int)bgs[(q + t) % ls.size()]; std::vector<uint32_t> v = edge_vals(li, bi, r, nr); if (v.size() > 96) v.resize(96);
                run_tlwe(li, bi, 16, 1 + (int)((q + t) % 2), r, v); run_poly(li, bi, 16, v); }
            fflush(m); fclose(m); vh_out = stdout; });
        for (auto& x : th) x.join();
        for (int t = 0; t < T; t++) if (bufs[t]) { fwrite(bufs[t], 1, lens[t], stdout); free(bufs[t]); }
    } else { fprintf(stderr, "usage: h_gadget grid|edges|seq|conc --l L --bg B ...\n"); return 2; }
    fflush(stdout);
    return 0;
}
