// C03: encrypt/decrypt round trips through the real API (LWE, gate bits, TLWE constant and polynomial, TGSW) and
// decryption of samples with chosen masks/errors.  Prints what goes in and what comes out.
#include <tfhe.h>
#include <polynomials_arithmetic.h>
#include "vh.h"

static void wl(const char* k, const uint32_t* v, int n) {
    fprintf(vh_out, "\"%s\":[", k);
    for (int i = 0; i < n; i++) fprintf(vh_out, "%s[%u,%u]", i ? "," : "", v[i] >> 16, v[i] & 0xffff);
    fputc(']', vh_out);
}
static void il(const char* k, const int32_t* v, int n) {
    fprintf(vh_out, "\"%s\":[", k);
    for (int i = 0; i < n; i++) fprintf(vh_out, "%s%d", i ? "," : "", v[i]);
    fputc(']', vh_out);
}
static void emit_lwe(const char* kind, int n, int M, int m, int ai, uint32_t mu, const LweSample* c, const LweKey* key, uint32_t e) {
    uint32_t ph = (uint32_t)lwePhase(c, key), dec = (uint32_t)lweSymDecrypt(c, key, M);
    VH_B; vh_s("k", kind); VH_C; vh_i("n", n); VH_C; vh_i("M", M); VH_C; vh_i("m", m); VH_C; vh_i("ai", ai); VH_C; vh_w("mu", mu); VH_C; vh_w("e", e); VH_C; vh_w("ph", ph); VH_C; vh_w("dec", dec); VH_C;
    if (n <= 16) { std::vector<uint32_t> v(n + 1); for (int i = 0; i < n; i++) v[i] = (uint32_t)c->a[i]; v[n] = (uint32_t)c->b; wl("c", v.data(), n + 1); VH_C; il("key", key->key, n); }
    else { fputs("\"c\":[],\"key\":[]", vh_out); }
    VH_E;
}
static void lwe_round_trips(int n, const std::vector<long>& Ms, VhRng& rng, int per) {
    LweParams* par = new_LweParams(n, 0., 1.);
    LweKey* key = new_LweKey(par); lweKeyGen(key);
    LweSample* c = new_LweSample(par);
    for (long M : Ms) {
        // noise levels: the decryptable maximum of the property (M*alpha = 1/20), tiny, zero; interleaved so that consecutive calls differ
        double alphas[4] = {1.0 / (20.0 * M), 1.0 / 1073741824.0, 0.0, 1.0 / (40.0 * M)};
        int cnt = M <= 16 ? (int)M : per;
        for (int q = 0; q < cnt; q++) {
            int m = M <= 16 ? q : (q == 0 ? 0 : q == 1 ? (int)M - 1 : q == 2 ? (int)M / 2 : (int)rng.below((uint32_t)M));
            Torus32 mu = modSwitchToTorus32(m, (int32_t)M);
            for (int ai = 0; ai < 4; ai++) {
                lweSymEncrypt(c, mu, alphas[ai], key);
                emit_lwe("lenc", n, (int)M, m, ai, (uint32_t)mu, c, key, 0);
            }
            // decrypt side: chosen mask and error right up to the decoding radius (M*|e| < 1/2)
            uint64_t rad = (UINT64_C(1) << 31) / (uint64_t)M;     // 2^32/(2M)
            int64_t es[6] = {0, (int64_t)rad - 2, -((int64_t)rad - 2), (int64_t)(rad / 2), -(int64_t)(rad / 3), (int64_t)rng.below((uint32_t)(rad > 2 ? rad - 2 : 1))};
            for (int ei = 0; ei < 6; ei++) {
                if (rad < 4 && ei > 0) break;
                uint32_t b = (uint32_t)mu + (uint32_t)es[ei];
                for (int i = 0; i < n; i++) { uint32_t a = (ei & 1) ? rng.u32() : (rng.below(2) ? 0xffffffffu : 0x80000000u); c->a[i] = (Torus32)a; if (key->key[i]) b += a; }
                c->b = (Torus32)b;
                emit_lwe("ldec", n, (int)M, m, -1, (uint32_t)mu, c, key, (uint32_t)es[ei]);
            }
        }
        for (int q = 0; q < 4; q++) {   // noiseless trivial samples decrypt under any key
            uint32_t x = q == 0 ? 0u : q == 1 ? 0x80000000u : rng.u32();
            lweNoiselessTrivial(c, (Torus32)x, par);
            emit_lwe("ltriv", n, (int)M, 0, -1, x, c, key, 0);
        }
    }
    // calls with very different noise levels back to back (single draws, so the parity of Gaussian draws varies):
    // a sample requested with a small alpha right after one with a large alpha must still carry the small noise
    {
        long smallM[3] = {2, 3, 4}, bigM[3] = {1000, 1024, 32768};
        for (int q = 0; q < 8 * per; q++) {
            long Ma = smallM[q % 3], Mb = bigM[(q / 3) % 3];
            int ma = (int)rng.below((uint32_t)Ma), mb = (int)rng.below((uint32_t)Mb);
            Torus32 mua = modSwitchToTorus32(ma, (int32_t)Ma), mub = modSwitchToTorus32(mb, (int32_t)Mb);
            lweSymEncrypt(c, mua, 1.0 / (20.0 * Ma), key); emit_lwe("lenc", n, (int)Ma, ma, 4, (uint32_t)mua, c, key, 0);
            if (q % 2) { lweSymEncrypt(c, mua, 1.0 / (20.0 * Ma), key); emit_lwe("lenc", n, (int)Ma, ma, 4, (uint32_t)mua, c, key, 0); }
            lweSymEncrypt(c, mub, 1.0 / (20.0 * Mb), key); emit_lwe("lenc", n, (int)Mb, mb, 5, (uint32_t)mub, c, key, 0);
        }
    }
    // noise levels that are both tiny and closer to each other than 1e-9 (message spaces 2^26 and 2^30, each at its decryptable maximum M*alpha = 1/20),
    // alternating: the second must not inherit the first one's level
    for (int q = 0; q < 16 * per; q++) {
        long Ma = 1L << 26, Mb = 1L << 30;
        int ma = (int)rng.below((uint32_t)Ma), mb = (int)rng.below((uint32_t)Mb);
        Torus32 mua = modSwitchToTorus32(ma, (int32_t)Ma), mub = modSwitchToTorus32(mb, (int32_t)Mb);
        lweSymEncrypt(c, mua, 1.0 / (20.0 * Ma), key); emit_lwe("lenc", n, (int)Ma, ma, 4, (uint32_t)mua, c, key, 0);
        lweSymEncrypt(c, mub, 1.0 / (20.0 * Mb), key); emit_lwe("lenc", n, (int)Mb, mb, 5, (uint32_t)mub, c, key, 0);
    }
    delete_LweSample(c); delete_LweKey(key); delete_LweParams(par);
}
static void gate_bits(int lambda, int reps) {
    TFheGateBootstrappingParameterSet* p = new_default_gate_bootstrapping_parameters(lambda);
    TFheGateBootstrappingSecretKeySet* sk = new_random_gate_bootstrapping_secret_keyset(p);
    LweSample* c = new_gate_bootstrapping_ciphertext(p);
    for (int r = 0; r < reps; r++) for (int b = 0; b < 2; b++) {
        bootsSymEncrypt(c, b, sk);
        uint32_t ph = (uint32_t)lwePhase(c, sk->lwe_key);
        int d = bootsSymDecrypt(c, sk);
        VH_B; vh_s("k", "bit"); VH_C; vh_i("lambda", lambda); VH_C; vh_i("n", p->in_out_params->n); VH_C; vh_i("bit", b); VH_C; vh_w("ph", ph); VH_C; vh_i("dec", d); VH_E;
    }
    // every noise up to the decryptable maximum: a fresh encryption whose body is shifted so that its phase is the encoding of the bit plus a chosen error, |e| < 1/8
    { const int32_t es[] = {(1 << 29) - 1, -((1 << 29) - 1), 1 << 28, -(1 << 28), (1 << 28) + 1, -((1 << 28) + 1), (1 << 28) - 1, -((1 << 28) - 1), 3 << 27, -(3 << 27), 1 << 27, -(1 << 27), 0x1fff0000, -0x1fff0000};
      for (size_t q = 0; q < sizeof es / sizeof es[0]; q++) for (int b = 0; b < 2; b++) {
        bootsSymEncrypt(c, b, sk); uint32_t mu = b ? (1u << 29) : 0u - (1u << 29);
        c->b = (Torus32)((uint32_t)c->b + (mu + (uint32_t)es[q]) - (uint32_t)lwePhase(c, sk->lwe_key));
        VH_B; vh_s("k", "bit"); VH_C; vh_i("lambda", lambda); VH_C; vh_i("n", p->in_out_params->n); VH_C; vh_i("bit", b); VH_C; vh_w("ph", (uint32_t)lwePhase(c, sk->lwe_key)); VH_C; vh_i("dec", bootsSymDecrypt(c, sk)); VH_E; } }
    // trivial constants of the gate API decrypt under the key too
    for (int b = 0; b < 2; b++) { bootsCONSTANT(c, b, &sk->cloud); VH_B; vh_s("k", "bit"); VH_C; vh_i("lambda", lambda); VH_C; vh_i("n", p->in_out_params->n); VH_C; vh_i("bit", b); VH_C; vh_w("ph", (uint32_t)lwePhase(c, sk->lwe_key)); VH_C; vh_i("dec", bootsSymDecrypt(c, sk)); VH_E; }
    delete_gate_bootstrapping_ciphertext(c); delete_gate_bootstrapping_secret_keyset(sk); delete_gate_bootstrapping_parameters(p);
}
static void tlwe_round_trips(int k, const std::vector<long>& Ms, VhRng& rng, int per) {
    const int N = 1024;
    TLweParams* par = new_TLweParams(N, k, 0., 1.);
    TLweKey* key = new_TLweKey(par); tLweKeyGen(key);
    TLweSample* c = new_TLweSample(par); TorusPolynomial* msg = new_TorusPolynomial(N); TorusPolynomial* dec = new_TorusPolynomial(N);
    // three keys in the same key object / at recycled addresses: a fresh one, a re-generation in place, and a delete + new
    for (int gen = 0; gen < 3; gen++) { size_t mi = 0;
    if (gen == 1) tLweKeyGen(key);
    if (gen == 2) { delete_TLweKey(key); key = new_TLweKey(par); tLweKeyGen(key); }
    for (long M : Ms) {
        if (gen > 0 && (mi++ % 4) != (size_t)gen) continue;
        double alphas[3] = {1.0 / (20.0 * M), 1.0 / 33554432.0, 0.0};
        int cnt = M <= 8 ? (int)M : per;
        for (int q = 0; q < cnt; q++) for (int ai = 0; ai < 3; ai++) {
            int m = M <= 8 ? q : (int)rng.below((uint32_t)M);
            Torus32 mu = modSwitchToTorus32(m, (int32_t)M);
            tLweSymEncryptT(c, mu, alphas[ai], key);
            Torus32 d = tLweSymDecryptT(c, key, (int32_t)M);
            VH_B; vh_s("k", "tencT"); VH_C; vh_i("kk", k); VH_C; vh_i("M", M); VH_C; vh_i("m", m); VH_C; vh_i("ai", ai); VH_C; vh_w("mu", (uint32_t)mu); VH_C; vh_w("dec", (uint32_t)d); VH_E;
        }
        for (int ai = 0; ai < 3; ai++) {     // polynomial messages: all message values appear among the coefficients
            std::vector<int32_t> ms(N); std::vector<uint32_t> mus(N), ds(N);
            for (int j = 0; j < N; j++) { ms[j] = j < M ? j : (int)rng.below((uint32_t)M); msg->coefsT[j] = modSwitchToTorus32(ms[j], (int32_t)M); mus[j] = (uint32_t)msg->coefsT[j]; }
            tLweSymEncrypt(c, msg, alphas[ai], key);
            tLweSymDecrypt(dec, c, key, (int32_t)M);
            for (int j = 0; j < N; j++) ds[j] = (uint32_t)dec->coefsT[j];
            VH_B; vh_s("k", "tencP"); VH_C; vh_i("kk", k); VH_C; vh_i("M", M); VH_C; vh_i("ai", ai); VH_C; il("m", ms.data(), N); VH_C; wl("mu", mus.data(), N); VH_C; wl("dec", ds.data(), N); VH_E;
        }
        {   // noiseless trivial TLWE sample under a random key
            for (int j = 0; j < N; j++) msg->coefsT[j] = (Torus32)rng.u32();
            std::vector<uint32_t> mus(N), ds(N); for (int j = 0; j < N; j++) mus[j] = (uint32_t)msg->coefsT[j];
            tLweNoiselessTrivial(c, msg, par); tLweSymDecrypt(dec, c, key, (int32_t)M);
            for (int j = 0; j < N; j++) ds[j] = (uint32_t)dec->coefsT[j];
            VH_B; vh_s("k", "ttriv"); VH_C; vh_i("kk", k); VH_C; vh_i("M", M); VH_C; wl("mu", mus.data(), N); VH_C; wl("dec", ds.data(), N); VH_E;
        }
    }
    }
    delete_TorusPolynomial(msg); delete_TorusPolynomial(dec); delete_TLweSample(c); delete_TLweKey(key); delete_TLweParams(par);
}
static void tgsw_round_trips(int k, int l, int bg, VhRng& rng, int per) {
    const int N = 1024;
    TLweParams* tp = new_TLweParams(N, k, 0., 1.); TGswParams* gp = new_TGswParams(l, bg, tp);
    TGswKey* key = new_TGswKey(gp); tGswKeyGen(key);
    TGswSample* c = new_TGswSample(gp); IntPolynomial* msg = new_IntPolynomial(N); IntPolynomial* dec = new_IntPolynomial(N);
    for (int gen = 0; gen < 3; gen++) {          // a fresh key, a re-generation in place, a delete + new
    if (gen == 1) tGswKeyGen(key);
    if (gen == 2) { delete_TGswKey(key); key = new_TGswKey(gp); tGswKeyGen(key); }
    for (int mb = 1; mb <= bg; mb++) {          // Msize = 2^mb <= Bg
        int M = 1 << mb;
        if (mb > 4 && mb != bg && mb != bg - 1) continue;
        if (gen > 0 && mb != 1 + gen && mb != bg) continue;
        double alphas[2] = {1.0 / 67108864.0, 0.0};
        for (int q = 0; q < per; q++) for (int ai = 0; ai < 2; ai++) {
            int m = q < 3 ? q - 1 : (int)rng.below((uint32_t)M) - M / 2;       // -1, 0, 1, then small integers of either sign
            tGswSymEncryptInt(c, m, alphas[ai], key);
            tGswSymDecrypt(dec, c, key, M);
            int nzother = 0; for (int j = 1; j < N; j++) if (dec->coefs[j]) nzother++;
            VH_B; vh_s("k", "gencI"); VH_C; vh_i("kk", k); VH_C; vh_i("l", l); VH_C; vh_i("bg", bg); VH_C; vh_i("M", M); VH_C; vh_i("ai", ai); VH_C; vh_i("m", m); VH_C; vh_i("dec", dec->coefs[0]); VH_C; vh_i("nzother", nzother); VH_E;
        }
        for (int ai = 0; ai < 2; ai++) {
            for (int j = 0; j < N; j++) msg->coefs[j] = j == 3 ? 1 : j == 5 ? -1 : (rng.below(8) == 0 ? (int)rng.below((uint32_t)M) - M / 2 : 0);    // X^j terms and a small-norm polynomial
            tGswSymEncrypt(c, msg, alphas[ai], key);
            tGswSymDecrypt(dec, c, key, M);
            VH_B; vh_s("k", "gencP"); VH_C; vh_i("kk", k); VH_C; vh_i("l", l); VH_C; vh_i("bg", bg); VH_C; vh_i("M", M); VH_C; vh_i("ai", ai); VH_C; il("m", msg->coefs, N); VH_C; il("dec", dec->coefs, N); VH_E;
        }
    }
    }
    delete_IntPolynomial(msg); delete_IntPolynomial(dec); delete_TGswSample(c); delete_TGswKey(key); delete_TGswParams(gp); delete_TLweParams(tp);
}
// histories: several TGSW layouts alive at once, the same message-space size used under one layout right after the other (what a cache keyed by
// Msize alone, or by anything less than the whole parameter set, gets wrong)
static void tgsw_interleaved(VhRng& rng, int per) {
    const int N = 1024; int lay[4][3] = {{1, 3, 7}, {1, 2, 10}, {1, 4, 8}, {2, 2, 8}};
    TLweParams* tp[4]; TGswParams* gp[4]; TGswKey* key[4]; TGswSample* c[4]; IntPolynomial* dec = new_IntPolynomial(N);
    for (int q = 0; q < 4; q++) { tp[q] = new_TLweParams(N, lay[q][0], 0., 1.); gp[q] = new_TGswParams(lay[q][1], lay[q][2], tp[q]); key[q] = new_TGswKey(gp[q]); tGswKeyGen(key[q]); c[q] = new_TGswSample(gp[q]); }
    for (int mb = 1; mb <= 7; mb++) for (int rep = 0; rep < per; rep++) for (int q = 0; q < 4; q++) {
        int M = 1 << mb, bg = lay[q][2]; if (mb > bg) continue;
        int m = rep < 3 ? rep - 1 : (int)rng.below((uint32_t)M) - M / 2; int ai = rep & 1; double alpha = ai ? 0.0 : 1.0 / 67108864.0;
        tGswSymEncryptInt(c[q], m, alpha, key[q]); tGswSymDecrypt(dec, c[q], key[q], M);
        int nzother = 0; for (int j = 1; j < N; j++) if (dec->coefs[j]) nzother++;
        VH_B; vh_s("k", "gencI"); VH_C; vh_i("kk", lay[q][0]); VH_C; vh_i("l", lay[q][1]); VH_C; vh_i("bg", bg); VH_C; vh_i("M", M); VH_C; vh_i("ai", ai ? 1 : 0); VH_C; vh_i("m", m); VH_C; vh_i("dec", dec->coefs[0]); VH_C; vh_i("nzother", nzother); VH_E;
    }
    for (int q = 0; q < 4; q++) { delete_TGswSample(c[q]); delete_TGswKey(key[q]); delete_TGswParams(gp[q]); delete_TLweParams(tp[q]); }
    delete_IntPolynomial(dec);
}
int main(int argc, char** argv) {
    vh_init();
    const char* mode = argc > 1 ? argv[1] : "";
    VhRng rng(vh_arg(argc, argv, "--seed", 1));
    uint32_t seedv[2] = {(uint32_t)vh_arg(argc, argv, "--seed", 1), 4242u}; tfhe_random_generator_setSeed(seedv, 2);
    std::vector<long> Ms = vh_list(vh_sarg(argc, argv, "--M", "2,3,4,5,7,8,16,100,1000,1024,32768"));
    long per = vh_arg(argc, argv, "--per", 6);
    if (!strcmp(mode, "lwe")) { for (long n : vh_list(vh_sarg(argc, argv, "--n", "1,8,500"))) lwe_round_trips((int)n, Ms, rng, (int)per); }
    else if (!strcmp(mode, "gate")) { gate_bits(80, (int)per); gate_bits(128, (int)per); }
    else if (!strcmp(mode, "tlwe")) { for (long k : vh_list(vh_sarg(argc, argv, "--k", "1,2"))) tlwe_round_trips((int)k, Ms, rng, (int)per); }
    else if (!strcmp(mode, "tgsw")) { tgsw_round_trips(1, 3, 7, rng, (int)per); tgsw_round_trips(1, 2, 10, rng, (int)per); tgsw_round_trips(2, 2, 8, rng, (int)per); tgsw_round_trips(1, 4, 8, rng, (int)per); tgsw_interleaved(rng, (int)per); }
    else { fprintf(stderr, "usage: h_enc lwe|gate|tlwe|tgsw ...\n"); return 2; }
    fflush(stdout);
    return 0;
}
