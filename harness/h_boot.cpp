// C04 / C09: (replay) run the real bootstrapping, blind rotation and external products on key material taken from a reduced
// RingScheme instance, embedded by x -> x*2^(32-W), X -> X^(1024/NP);  (full) bootstrapping at full size with trivial key material.
// Prints inputs and the observed phases (under the embedded / model keys).
#include <tfhe.h>
#include <polynomials_arithmetic.h>
#include "vh.h"
#include <fstream>
#include <thread>
#include <vector>
#include <sys/wait.h>

static void il(const char* k, const std::vector<long>& v) { fprintf(vh_out, "\"%s\":[", k); for (size_t i = 0; i < v.size(); i++) fprintf(vh_out, "%s%ld", i ? "," : "", v[i]); fputc(']', vh_out); }
static void wl(const char* k, const std::vector<uint32_t>& v) { fprintf(vh_out, "\"%s\":[", k); for (size_t i = 0; i < v.size(); i++) fprintf(vh_out, "%s[%u,%u]", i ? "," : "", v[i] >> 16, v[i] & 0xffff); fputc(']', vh_out); }

struct Inst { int W, NP, KK, LL, BGB, NN, T, BB; int sh, stride; std::vector<std::vector<long> > skey; std::vector<long> lkey; };
static long rd(std::ifstream& in) { long v; in >> v; return v; }
static void put_poly(TorusPolynomial* P, std::ifstream& in, const Inst& I) { torusPolynomialClear(P); for (int c = 0; c < I.NP; c++) P->coefsT[c * I.stride] = (Torus32)((uint32_t)rd(in) << I.sh); }
static void read_gsw(TGswSample* g, std::ifstream& in, const Inst& I) { for (int r = 0; r < (I.KK + 1) * I.LL; r++) { for (int c = 0; c <= I.KK; c++) put_poly(&g->all_sample[r].a[c], in, I); g->all_sample[r].current_variance = 0; } }

static const char* g_inst = "";
static int replay(const char* path, unsigned seed, const char* only) {
    bool do_boot = !only[0] || strstr(only, "boot"), do_ext = !only[0] || strstr(only, "ext"), do_rot = !only[0] || strstr(only, "rot");
    // In these instances the gadget resolves exactly the W-bit grid (l*Bgbit = W), so the decomposition FLOORS at the grid: an accumulator that is a
    // unit of 2^-32 below a grid point (FFT rounding of the previous step) decomposes to the grid point below.  In the library proper that is the
    // budgeted truncation noise; here it would be a whole message unit.  It is harmless while the following key elements encrypt 0 (the model keys
    // are 1,0 for n <= 2).  For instances with more key elements the blind rotation is therefore run one key element at a time with the
    // accumulator rounded back to the grid in between (FFT rounding is a few units, the grid step 2^(32-W)); whole multi-step runs are not emitted.
    bool stepwise_only = false;
    std::ifstream in(path); Inst I;
    I.W = rd(in); I.NP = rd(in); I.KK = rd(in); I.LL = rd(in); I.BGB = rd(in); I.NN = rd(in); I.T = rd(in); I.BB = rd(in); I.sh = 32 - I.W; I.stride = 1024 / I.NP;
    int base = 1 << I.BB;
    stepwise_only = I.NN > 2; if (stepwise_only) do_boot = false;
    I.skey.resize(I.KK); for (auto& s : I.skey) { s.resize(I.NP); for (auto& x : s) x = rd(in); }
    I.lkey.resize(I.NN); for (auto& x : I.lkey) x = rd(in);
    LweParams* lp = new_LweParams(I.NN, 0., 0.1); TLweParams* tp = new_TLweParams(1024, I.KK, 0., 0.1); TGswParams* gp = new_TGswParams(I.LL, I.BGB, tp);
    const LweParams* ep = &tp->extracted_lweparams;
    LweBootstrappingKey* bk = new_LweBootstrappingKey(I.T, I.BB, lp, gp);
    for (int i = 0; i < I.NN; i++) read_gsw(&bk->bk[i], in, I);
    for (int i = 0; i < I.KK * 1024; i++) for (int j = 0; j < I.T; j++) for (int h = 0; h < base; h++) lweNoiselessTrivial(&bk->ks->ks[i][j][h], 0, lp);
    for (int i = 0; i < I.KK * I.NP; i++) for (int j = 0; j < I.T; j++) for (int h = 1; h < base; h++) {      // model index i = c*NP + q  ->  real index c*1024 + q*stride
        LweSample* s = &bk->ks->ks[(i / I.NP) * 1024 + (i % I.NP) * I.stride][j][h]; for (int q = 0; q < I.NN; q++) s->a[q] = (Torus32)((uint32_t)rd(in) << I.sh); s->b = (Torus32)((uint32_t)rd(in) << I.sh); }
    LweBootstrappingKeyFFT* bkf = new_LweBootstrappingKeyFFT(bk);
    int nmsg = rd(in);
    std::vector<TGswSample*> gsw(nmsg); std::vector<TGswSampleFFT*> gswf(nmsg);
    for (int m = 0; m < nmsg; m++) { for (int q = 0; q < I.NP; q++) rd(in); }       // message polynomials (not needed by the code side)
    for (int m = 0; m < nmsg; m++) { gsw[m] = new_TGswSample(gp); read_gsw(gsw[m], in, I); gswf[m] = new_TGswSampleFFT(gp); tGswToFFTConvert(gswf[m], gsw[m], gp); }
    TLweSample* smp[3]; for (int t = 0; t < 3; t++) { smp[t] = new_TLweSample(tp); for (int c = 0; c <= I.KK; c++) put_poly(&smp[t]->a[c], in, I); smp[t]->current_variance = 0; }
    // the model's keys, embedded
    LweKey* lk = new_LweKey(lp); for (int q = 0; q < I.NN; q++) lk->key[q] = (int)I.lkey[q];
    TLweKey* tk = new_TLweKey(tp); for (int c = 0; c < I.KK; c++) for (int j = 0; j < 1024; j++) tk->key[c].coefs[j] = (j % I.stride == 0) ? (int)I.skey[c][j / I.stride] : 0;
    LweKey* xk = new_LweKey(ep); tLweExtractKey(xk, tk);
    VhRng rng(seed);
    long Q = 1L << I.W;
    LweSample* x = new_LweSample(lp); LweSample* u = new_LweSample(ep); LweSample* r = new_LweSample(lp);
    // ---- bootstrapping: every b of the grid, a over a covering set, three output messages, four entry points ----
    long avals[4] = {0, 3, Q / 2, Q - 3};
    std::vector<long> mus; mus.push_back(Q / 8); mus.push_back(Q / 4); mus.push_back(3);
    if (do_boot) for (long b = 0; b < Q; b++) for (int ai = 0; ai < 16; ai++) {
        std::vector<long> a(I.NN); for (int q = 0; q < I.NN; q++) a[q] = q < 2 ? avals[(ai >> (2 * q)) & 3] : (long)rng.below((uint32_t)Q);
        if (I.NN == 1 && ai >= 4) continue;
        for (int q = 0; q < I.NN; q++) x->a[q] = (Torus32)((uint32_t)a[q] << I.sh); x->b = (Torus32)((uint32_t)b << I.sh);
        long mu = mus[(b + ai) % 3]; Torus32 mu32 = (Torus32)((uint32_t)mu << I.sh);
        for (int f = 0; f < 4; f++) {
            if (f >= 2 && (b + ai) % 4) continue;          // the coefficient-domain variants are slower: a quarter of the cases
            uint32_t ph;
            if (f == 0) { tfhe_bootstrap_woKS_FFT(u, bkf, mu32, x); ph = (uint32_t)lwePhase(u, xk); } else if (f == 1) { tfhe_bootstrap_FFT(r, bkf, mu32, x); ph = (uint32_t)lwePhase(r, lk); }
            else if (f == 2) { tfhe_bootstrap_woKS(u, bk, mu32, x); ph = (uint32_t)lwePhase(u, xk); } else { tfhe_bootstrap(r, bk, mu32, x); ph = (uint32_t)lwePhase(r, lk); }
            VH_B; vh_s("k", "boot"); VH_C; vh_s("inst", g_inst); VH_C; vh_i("f", f); VH_C; il("a", a); VH_C; vh_i("b", b); VH_C; vh_i("mu", mu); VH_C; vh_w("ph", ph); VH_E;
        }
        if ((b + ai) % 3 == 0) {    // generic routine, arbitrary test polynomial (model: its component on the embedded sub-ring, v'[i] = 3i+1)
            TorusPolynomial* v = new_TorusPolynomial(1024); for (int j = 0; j < 1024; j++) v->coefsT[j] = (j % I.stride == 0) ? (Torus32)((uint32_t)((3 * (j / I.stride) + 1) % Q) << I.sh) : (Torus32)rng.u32();
            std::vector<int32_t> bara(I.NN); for (int q = 0; q < I.NN; q++) bara[q] = modSwitchFromTorus32(x->a[q], 2048); int barb = modSwitchFromTorus32(x->b, 2048);
            for (int f = 0; f < 2; f++) { if (f == 0) tfhe_blindRotateAndExtract_FFT(u, v, bkf->bkFFT, barb, bara.data(), I.NN, gp); else tfhe_blindRotateAndExtract(u, v, bk->bk, barb, bara.data(), I.NN, gp);
                VH_B; vh_s("k", "bootv"); VH_C; vh_s("inst", g_inst); VH_C; vh_i("f", f); VH_C; il("a", a); VH_C; vh_i("b", b); VH_C; vh_w("ph", (uint32_t)lwePhase(u, xk)); VH_E; }
            delete_TorusPolynomial(v);
        }
    }
    // ---- external products: every message of the list, chosen body coefficient, three mask sets; coefficient and FFT variants ----
    TLweSample* c1 = new_TLweSample(tp); TLweSample* res = new_TLweSample(tp); TorusPolynomial* ph = new_TorusPolynomial(1024);
    if (do_ext) for (int m = 0; m < nmsg; m++) for (int t = 0; t < 3; t++) for (int q = 0; q < 6; q++) {
        long c0 = q == 0 ? 0 : q == 1 ? Q / 2 : q == 2 ? Q - 1 : (long)rng.below((uint32_t)Q); int pos = q < 2 ? 0 : (int)rng.below(I.NP);
        tLweCopy(c1, smp[t], tp); c1->b->coefsT[pos * I.stride] += (Torus32)((uint32_t)c0 << I.sh);
        for (int f = 0; f < 3; f++) {
            tLweCopy(res, c1, tp);
            if (f == 0) tGswExternMulToTLwe(res, gsw[m], gp); else if (f == 1) tGswFFTExternMulToTLwe(res, gswf[m], gp); else tGswExternProduct(res, gsw[m], c1, gp);
            tLwePhase(ph, res, tk);
            std::vector<uint32_t> pv(I.NP); long off = 0; for (int j = 0; j < 1024; j++) { if (j % I.stride == 0) pv[j / I.stride] = (uint32_t)ph->coefsT[j]; else { long d = labs((long)ph->coefsT[j]); if (d > off) off = d; } }
            VH_B; vh_s("k", "ext"); VH_C; vh_s("inst", g_inst); VH_C; vh_i("f", f); VH_C; vh_i("m", m + 1); VH_C; vh_i("tag", t + 1); VH_C; vh_i("c0", c0); VH_C; vh_i("pos", pos); VH_C; wl("ph", pv); VH_C; vh_i("off", off); VH_E;
        }
    }
    // ---- the gate functions on a cloud key set built from the embedded key material (needs 1/8 on the W-bit grid: W >= 3) ----
    if ((!only[0] || strstr(only, "gate")) && I.W >= 3 && !stepwise_only) {
        TFheGateBootstrappingParameterSet* ps = new TFheGateBootstrappingParameterSet(I.T, I.BB, lp, gp);
        TFheGateBootstrappingCloudKeySet* ck = new TFheGateBootstrappingCloudKeySet(ps, bk, bkf);
        LweSample* in3 = new_LweSample_array(3, lp); LweSample* o = new_LweSample(lp);
        const char* gs[11] = {"NAND", "OR", "AND", "XOR", "XNOR", "NOR", "ANDNY", "ANDYN", "ORNY", "ORYN", "MUX"};
        long mvals[3] = {0, Q - 3, Q / 2 + 1}; long E = Q / 32 > 0 ? Q / 32 : 0;
        for (int gi = 0; gi < 11; gi++) for (int bits = 0; bits < (gi == 10 ? 8 : 4); bits++) for (int rep = 0; rep < 5; rep++) {
            long bit[3] = {bits & 1, (bits >> 1) & 1, (bits >> 2) & 1}, e[3], m[3][8];
            for (int x = 0; x < 3; x++) { e[x] = rep == 0 ? 0 : ((long)rng.below(3) - 1) * E; long dot = 0;
                for (int q = 0; q < I.NN; q++) { m[x][q] = rep == 0 ? 0 : mvals[rng.below(3)]; dot += m[x][q] * I.lkey[q]; in3[x].a[q] = (Torus32)((uint32_t)m[x][q] << I.sh); }
                long enc = bit[x] ? Q / 8 : Q - Q / 8; in3[x].b = (Torus32)((uint32_t)(((enc + e[x] + dot) % Q + Q) % Q) << I.sh); in3[x].current_variance = 0; }
            switch (gi) { case 0: bootsNAND(o, in3, in3 + 1, ck); break; case 1: bootsOR(o, in3, in3 + 1, ck); break; case 2: bootsAND(o, in3, in3 + 1, ck); break; case 3: bootsXOR(o, in3, in3 + 1, ck); break;
                case 4: bootsXNOR(o, in3, in3 + 1, ck); break; case 5: bootsNOR(o, in3, in3 + 1, ck); break; case 6: bootsANDNY(o, in3, in3 + 1, ck); break; case 7: bootsANDYN(o, in3, in3 + 1, ck); break;
                case 8: bootsORNY(o, in3, in3 + 1, ck); break; case 9: bootsORYN(o, in3, in3 + 1, ck); break; default: bootsMUX(o, in3, in3 + 1, in3 + 2, ck); }
            VH_B; vh_s("k", "gate"); VH_C; vh_s("inst", g_inst); VH_C; vh_s("g", gs[gi]); VH_C;
            for (int x = 0; x < 3; x++) { fprintf(vh_out, "\"x%c\":{\"bit\":%ld,\"e\":%ld,\"m\":[", "abc"[x], bit[x], e[x]); for (int q = 0; q < I.NN; q++) fprintf(vh_out, "%s%ld", q ? "," : "", m[x][q]); fputs("]},", vh_out); }
            vh_w("ph", (uint32_t)lwePhase(o, lk)); VH_C; std::vector<uint32_t> oa(I.NN); for (int q = 0; q < I.NN; q++) oa[q] = (uint32_t)o->a[q]; wl("oa", oa); VH_E;
        }
        delete_LweSample(o); delete_LweSample_array(3, in3);
    }
    // ---- blind rotation by chosen exponent vectors (multiples of the stride), whole and element by element ----
    TLweSample* acc = new_TLweSample(tp); TLweSample* acc2 = new_TLweSample(tp); TorusPolynomial* tv = new_TorusPolynomial(1024);
    long ev[7] = {0, 1, I.NP - 1, I.NP, I.NP + 1, 2 * I.NP - 1, 5};
    if (do_rot) for (int ia = 0; ia < 7; ia++) for (int ie = 0; ie < 49; ie++) {
        long aux = ev[ia]; std::vector<long> e(I.NN); for (int q = 0; q < I.NN; q++) e[q] = q == 0 ? ev[ie % 7] : q == 1 ? ev[ie / 7] : (long)rng.below(2 * I.NP);
        if (I.NN == 1 && ie >= 7) continue;
        for (int j = 0; j < 1024; j++) tv->coefsT[j] = 0; for (int i = 0; i < I.NP; i++) tv->coefsT[i * I.stride] = (Torus32)((uint32_t)((3 * i + 1) % Q) << I.sh);
        TorusPolynomial* rot = new_TorusPolynomial(1024); if (aux) torusPolynomialMulByXai(rot, (int)aux * I.stride, tv); else torusPolynomialCopy(rot, tv);
        std::vector<int32_t> bara(I.NN); for (int q = 0; q < I.NN; q++) bara[q] = (int32_t)e[q] * I.stride;
        for (int f = 0; f < 4; f++) {
            if (stepwise_only != (f == 3)) continue;
            tLweNoiselessTrivial(acc, rot, tp);
            if (f == 3) { for (int q = 0; q < I.NN; q++) { tfhe_blindRotate_FFT(acc, bkf->bkFFT + q, bara.data() + q, 1, gp);
                    uint32_t half = 1u << (I.sh - 1); for (int c = 0; c <= I.KK; c++) for (int j = 0; j < 1024; j++) { uint32_t v = (uint32_t)acc->a[c].coefsT[j]; acc->a[c].coefsT[j] = (Torus32)(((v + half) >> I.sh) << I.sh); } } }
            else if (f == 0) tfhe_blindRotate_FFT(acc, bkf->bkFFT, bara.data(), I.NN, gp); else if (f == 1) tfhe_blindRotate(acc, bk->bk, bara.data(), I.NN, gp);
            else { for (int q = 0; q < I.NN; q++) tfhe_blindRotate_FFT(acc, bkf->bkFFT + q, bara.data() + q, 1, gp); }      // one key element at a time
            tLwePhase(ph, acc, tk);
            std::vector<uint32_t> pv(I.NP); long off = 0; for (int j = 0; j < 1024; j++) { if (j % I.stride == 0) pv[j / I.stride] = (uint32_t)ph->coefsT[j]; else { long d = labs((long)ph->coefsT[j]); if (d > off) off = d; } }
            VH_B; vh_s("k", "rot"); VH_C; vh_s("inst", g_inst); VH_C; vh_i("f", f); VH_C; vh_i("aux", aux); VH_C; il("e", e); VH_C; wl("ph", pv); VH_C; vh_i("off", off); VH_E;
        }
        delete_TorusPolynomial(rot);
    }
    fflush(stdout);
    return 0;
}
// ---- full size, trivial key material: bk_i = s_i * gadget (zero masks, zero noise), key-switching rows noiseless with zero masks ----
// The accumulator stays a trivial sample, so the output phase is the same under every key: it must be +-mu according to the rounded phase.
static int full_body(const LweParams* lp, const TLweParams* tp, const TGswParams* gp, int n, int k, int l, int bgbit, int t, int bb, unsigned seed, int cases);
static int full(int n, int k, int l, int bgbit, int t, int bb, unsigned seed, int cases) {
    LweParams* lp = new_LweParams(n, 0., 0.1); TLweParams* tp = new_TLweParams(1024, k, 0., 0.1); TGswParams* gp = new_TGswParams(l, bgbit, tp);
    return full_body(lp, tp, gp, n, k, l, bgbit, t, bb, seed, cases);
}
// histories: several configurations one after the other in one process, the parameter objects re-initialised in the SAME storage through the
// alloc / init / destroy / free API (so anything the library keeps per parameter address, per thread or per process meets a different shape)
static int fullseq(unsigned seed, int cases) {
    int cfg[7][6] = {{4, 2, 2, 8, 4, 3}, {4, 1, 2, 8, 4, 3}, {3, 2, 3, 7, 8, 2}, {5, 1, 3, 7, 8, 2}, {2, 1, 2, 10, 5, 3}, {2, 2, 2, 10, 5, 3}, {4, 1, 2, 8, 4, 3}};
    LweParams* lp = alloc_LweParams(); TLweParams* tp = alloc_TLweParams(); TGswParams* gp = alloc_TGswParams(); int rc = 0;
    for (int q = 0; q < 7; q++) { const int* c = cfg[q];
        init_LweParams(lp, c[0], 0., 0.1); init_TLweParams(tp, 1024, c[1], 0., 0.1); init_TGswParams(gp, c[2], c[3], tp);
        rc |= full_body(lp, tp, gp, c[0], c[1], c[2], c[3], c[4], c[5], seed + q, cases);
        destroy_TGswParams(gp); destroy_TLweParams(tp); destroy_LweParams(lp); }
    free_TGswParams(gp); free_TLweParams(tp); free_LweParams(lp);
    return rc;
}
static int full_body(const LweParams* lp, const TLweParams* tp, const TGswParams* gp, int n, int k, int l, int bgbit, int t, int bb, unsigned seed, int cases) {
    const int N = 1024; const LweParams* ep = &tp->extracted_lweparams;
    VhRng rng(seed);
    std::vector<int> key(n); for (int i = 0; i < n; i++) key[i] = rng.below(2); if (n > 1) { key[0] = 1; key[n - 1] = 1; }
    LweBootstrappingKey* bk = new_LweBootstrappingKey(t, bb, lp, gp);
    IntPolynomial* one = new_IntPolynomial(N); intPolynomialClear(one);
    for (int i = 0; i < n; i++) { one->coefs[0] = key[i]; tGswNoiselessTrivial(&bk->bk[i], one, gp); }
    for (int i = 0; i < k * N; i++) for (int j = 0; j < t; j++) for (int h = 0; h < (1 << bb); h++) lweNoiselessTrivial(&bk->ks->ks[i][j][h], 0, lp);     // ring key = 0: the key switch subtracts nothing
    LweBootstrappingKeyFFT* bkf = new_LweBootstrappingKeyFFT(bk);
    LweSample* x = new_LweSample(lp); LweSample* u = new_LweSample(ep); LweSample* r = new_LweSample(lp);
    Torus32 mus[3] = {(Torus32)(1u << 29), (Torus32)0x12345678, (Torus32)(3u << 30)};
    for (int c = 0; c < cases; c++) {
        // b: sweep all 2N rounded phases and both rounding edges; masks: zero (trivial x), or random with the phase steered next to a sign boundary
        int cls = c % 2048; int edge = (c / 2048) % 3; uint32_t b = ((uint32_t)cls << 21) + (edge == 0 ? 0u : edge == 1 ? (1u << 20) - 1u : (uint32_t)(-(1 << 20)));   // centre, just below the upper edge, exactly the lower edge
        bool masks = (c % 7) == 3;
        std::vector<uint32_t> a(n, 0);
        if (masks) { int64_t acc = 0; for (int i = 0; i < n; i++) { a[i] = rng.below(3) == 0 ? ((rng.below(2048) << 21) + (rng.below(2) ? (1u << 20) : (1u << 20) - 1)) : rng.u32(); if (key[i]) acc += modSwitchFromTorus32((Torus32)a[i], 2 * N); }
            int target = (rng.below(4) == 0) ? 0 : (rng.below(3) == 0) ? N - 1 : (rng.below(2) ? N : 2 * N - 1);     // p next to the sign boundaries
            b = ((uint32_t)(((acc + target) % (2 * N) + 2 * N) % (2 * N)) << 21) + (rng.below(2) ? 0u : (uint32_t)(rng.below(1u << 20))); }
        for (int i = 0; i < n; i++) x->a[i] = (Torus32)a[i]; x->b = (Torus32)b;
        Torus32 mu = mus[c % 3];
        int f = c % 4;
        uint32_t ph;
        if (f == 0) { tfhe_bootstrap_woKS_FFT(u, bkf, mu, x); ph = (uint32_t)u->b; } else if (f == 1) { tfhe_bootstrap_FFT(r, bkf, mu, x); ph = (uint32_t)r->b; }
        else if (f == 2 && n <= 64) { tfhe_bootstrap_woKS(u, bk, mu, x); ph = (uint32_t)u->b; } else if (f == 3 && n <= 64) { tfhe_bootstrap(r, bk, mu, x); ph = (uint32_t)r->b; } else { tfhe_bootstrap_FFT(r, bkf, mu, x); ph = (uint32_t)r->b; f = 1; }
        long masknz = 0; { const LweSample* o = (f == 0 || f == 2) ? u : r; int on = (f == 0 || f == 2) ? k * N : n; for (int i = 0; i < on; i++) if (o->a[i]) masknz++; }
        std::vector<uint32_t> asel; for (int i = 0; i < n; i++) if (key[i] && a[i]) asel.push_back(a[i]);
        VH_B; vh_s("k", "full"); VH_C; vh_i("f", f); VH_C; vh_i("n", n); VH_C; vh_i("kk", k); VH_C; vh_i("l", l); VH_C; vh_i("bg", bgbit); VH_C; vh_w("mu", (uint32_t)mu); VH_C; vh_w("b", b); VH_C; wl("as", asel); VH_C; vh_w("ph", ph); VH_C; vh_i("masknz", masknz); VH_E;
    }
    delete_LweSample(x); delete_LweSample(u); delete_LweSample(r); delete_LweBootstrappingKeyFFT(bkf); delete_LweBootstrappingKey(bk); delete_IntPolynomial(one);
    fflush(stdout);
    return 0;
}
// ---- full size external products under real layouts: noiseless TGSW encryptions (uniform masks from the library generator) of +-X^j under a random ring key,
// TLWE samples with random and extreme coefficients; printed: the phase of the sample and of the product under that key at sampled positions ----
static int extfull(int k, int l, int bgbit, unsigned seed, int cases) {
    const int N = 1024; uint32_t sv[2] = {seed, 0xe4f0u}; tfhe_random_generator_setSeed(sv, 2);
    TLweParams* tp = new_TLweParams(N, k, 0., 0.1); TGswParams* gp = new_TGswParams(l, bgbit, tp);
    TGswKey* key = new_TGswKey(gp); tGswKeyGen(key); VhRng rng(seed);
    TGswSample* g = new_TGswSample(gp); TGswSampleFFT* gf = new_TGswSampleFFT(gp); IntPolynomial* m = new_IntPolynomial(N);
    TLweSample* c = new_TLweSample(tp); TLweSample* r = new_TLweSample(tp); TorusPolynomial* pc = new_TorusPolynomial(N); TorusPolynomial* pr = new_TorusPolynomial(N);
    for (int q = 0; q < cases; q++) {
        int j = q < 3 ? q * (N / 2 - 1) % N : (int)rng.below(N), sgn = (q % 2) ? -1 : 1, pat = q % 6;
        intPolynomialClear(m); m->coefs[j] = sgn; tGswSymEncrypt(g, m, 0., key); tGswToFFTConvert(gf, g, gp);
        for (int cc = 0; cc <= k; cc++) for (int i = 0; i < N; i++) { uint32_t v;
            switch (pat) { case 0: v = rng.u32(); break; case 1: v = 0x80000000u; break; case 2: v = 0x7fffffffu; break; case 3: v = (i & 1) ? 0x80000000u : 0x7fffffffu; break;
                           case 4: v = cc < k ? 0u : 0x80000000u; break; default: v = cc < k ? rng.u32() : (0x80000000u >> (i % 31)); }
            c->a[cc].coefsT[i] = (Torus32)v; }
        c->current_variance = 0; tLwePhase(pc, c, &key->tlwe_key);
        for (int f = 0; f < 3; f++) {       // 0: FFT in place, 1: coefficient domain in place, 2: coefficient domain into a separate result
            if (f == 0) { tLweCopy(r, c, tp); tGswFFTExternMulToTLwe(r, gf, gp); } else if (f == 1) { tLweCopy(r, c, tp); tGswExternMulToTLwe(r, g, gp); } else { for (int rep = 0; rep < 16; rep++) tGswExternProduct(r, g, c, gp); }      // the same const operand used sixteen times (CMux-tree style): it must not drift
            tLwePhase(pr, r, &key->tlwe_key);
            std::vector<long> pos; std::vector<uint32_t> vc, vr; for (int u = 0; u < 24; u++) { int i = u < 4 ? (u * 341) % N : (int)rng.below(N); int src = ((i - j) % N + N) % N; pos.push_back(i); vr.push_back((uint32_t)pr->coefsT[i]); vc.push_back((uint32_t)pc->coefsT[src]); }
            VH_B; vh_s("k", "extfull"); VH_C; vh_i("f", f); VH_C; vh_i("kk", k); VH_C; vh_i("l", l); VH_C; vh_i("bg", bgbit); VH_C; vh_i("j", j); VH_C; vh_i("sgn", sgn); VH_C; vh_i("pat", pat); VH_C; il("pos", pos); VH_C; wl("pc", vc); VH_C; wl("pr", vr); VH_E;
        }
    }
    fflush(stdout);
    return 0;
}
// ---- full size with REAL generated keys (uniform masks, configured noise): layouts up to Bgbit = 16, k = 2; the output phase under the secret key is +-mu
// up to bootstrapping noise, according to the rounded phase of the input ----
static int real(int n, int k, int l, int bgbit, int t, int bb, unsigned seed, int cases) {
    const int N = 1024; uint32_t sv[2] = {seed, 0x4ea1u}; tfhe_random_generator_setSeed(sv, 2);
    // bootstrapping-key noise far below one unit of 2^-32 (what remains is the FFT rounding of the row bodies, 1-2 units, times digits of up to Bg/2):
    // with Bgbit = 16 and eight steps that is about 2^22 units of standard deviation, the acceptance region of Table_C04F!RowReal is 2^26
    LweParams* lp = new_LweParams(n, 1e-8, 0.1); TLweParams* tp = new_TLweParams(N, k, 1e-12, 0.1); TGswParams* gp = new_TGswParams(l, bgbit, tp); const LweParams* ep = &tp->extracted_lweparams;
    LweKey* lk = new_LweKey(lp); lweKeyGen(lk); TGswKey* tk = new_TGswKey(gp); tGswKeyGen(tk);
    LweBootstrappingKey* bk = new_LweBootstrappingKey(t, bb, lp, gp); tfhe_createLweBootstrappingKey(bk, lk, tk); LweBootstrappingKeyFFT* bkf = new_LweBootstrappingKeyFFT(bk);
    LweKey* xk = new_LweKey(ep); tLweExtractKey(xk, &tk->tlwe_key);
    VhRng rng(seed); LweSample* x = new_LweSample(lp); LweSample* u = new_LweSample(ep); LweSample* r = new_LweSample(lp);
    Torus32 mus[3] = {(Torus32)(1u << 29), (Torus32)0x12345678, (Torus32)(3u << 30)};
    for (int c = 0; c < cases; c++) {
        std::vector<uint32_t> a(n); int64_t acc = 0; for (int i = 0; i < n; i++) { a[i] = rng.u32(); if (lk->key[i]) acc += modSwitchFromTorus32((Torus32)a[i], 2 * N); }
        int target = c < 8 ? (int)((int[]){0, 1, N - 1, N, N + 1, 2 * N - 1, N / 2, 3 * N / 2}[c]) : (int)rng.below(2 * N);
        uint32_t b = ((uint32_t)(((acc + target) % (2 * N) + 2 * N) % (2 * N)) << 21) + (uint32_t)((int)rng.below(1u << 19) - (1 << 18));     // well inside the rounding interval of p = target
        // the sample must really have that phase class: b - sum a_i s_i is what the bootstrapping rounds coefficient by coefficient, so p is defined on the rounded words (as in Table_C04F)
        for (int i = 0; i < n; i++) x->a[i] = (Torus32)a[i]; x->b = (Torus32)b;
        Torus32 mu = mus[c % 3]; int f = c % 4; uint32_t ph;
        if (f == 0) { tfhe_bootstrap_woKS_FFT(u, bkf, mu, x); ph = (uint32_t)lwePhase(u, xk); } else if (f == 1) { tfhe_bootstrap_FFT(r, bkf, mu, x); ph = (uint32_t)lwePhase(r, lk); }
        else if (f == 2) { tfhe_bootstrap_woKS(u, bk, mu, x); ph = (uint32_t)lwePhase(u, xk); } else { tfhe_bootstrap(r, bk, mu, x); ph = (uint32_t)lwePhase(r, lk); }
        std::vector<uint32_t> asel; for (int i = 0; i < n; i++) if (lk->key[i]) asel.push_back(a[i]);
        VH_B; vh_s("k", "real"); VH_C; vh_i("f", f); VH_C; vh_i("n", n); VH_C; vh_i("kk", k); VH_C; vh_i("l", l); VH_C; vh_i("bg", bgbit); VH_C; vh_w("mu", (uint32_t)mu); VH_C; vh_w("b", b); VH_C; wl("as", asel); VH_C; vh_w("ph", ph); VH_E;
    }
    fflush(stdout);
    return 0;
}
int main(int argc, char** argv) {
    vh_init();
    if (argc >= 2 && !strcmp(argv[1], "real")) return real((int)vh_arg(argc, argv, "--n", 8), (int)vh_arg(argc, argv, "--k", 1), (int)vh_arg(argc, argv, "--l", 2), (int)vh_arg(argc, argv, "--bg", 16), (int)vh_arg(argc, argv, "--t", 8), (int)vh_arg(argc, argv, "--bb", 2), (unsigned)vh_arg(argc, argv, "--seed", 1), (int)vh_arg(argc, argv, "--cases", 64));
    if (argc >= 2 && !strcmp(argv[1], "extfull")) return extfull((int)vh_arg(argc, argv, "--k", 1), (int)vh_arg(argc, argv, "--l", 2), (int)vh_arg(argc, argv, "--bg", 10), (unsigned)vh_arg(argc, argv, "--seed", 1), (int)vh_arg(argc, argv, "--cases", 24));
    if (argc >= 2 && !strcmp(argv[1], "fullseq")) return fullseq((unsigned)vh_arg(argc, argv, "--seed", 1), (int)vh_arg(argc, argv, "--cases", 512));
    if (argc >= 2 && !strcmp(argv[1], "full")) return full((int)vh_arg(argc, argv, "--n", 8), (int)vh_arg(argc, argv, "--k", 1), (int)vh_arg(argc, argv, "--l", 3), (int)vh_arg(argc, argv, "--bg", 7), (int)vh_arg(argc, argv, "--t", 8), (int)vh_arg(argc, argv, "--bb", 2), (unsigned)vh_arg(argc, argv, "--seed", 1), (int)vh_arg(argc, argv, "--cases", 6144));
    if (argc >= 3 && !strcmp(argv[1], "replay")) {       // several instances one after the other in one process (state kept between calls of different shapes shows here)
        int rc = 0, T = (int)vh_arg(argc, argv, "--threads", 1); unsigned seed = (unsigned)vh_arg(argc, argv, "--seed", 1); const char* only = vh_sarg(argc, argv, "--only", "");
        for (int i = 2; i < argc && argv[i][0] != '-'; i++) { g_inst = argv[i];
            if (T <= 1) { rc |= replay(argv[i], seed, only); continue; }
            // the same instance replayed by T threads at once, each on its own objects and into its own buffer (rows are printed thread after thread)
            std::vector<char*> bufs(T, (char*)0); std::vector<size_t> lens(T, 0); std::vector<int> rcs(T, 0); std::vector<std::thread> th;
            for (int t = 0; t < T; t++) th.emplace_back([&, t]() { FILE* m = open_memstream(&bufs[t], &lens[t]); vh_out = m; rcs[t] = replay(argv[i], seed, only); fflush(m); fclose(m); vh_out = stdout; });
            for (auto& x : th) x.join();
            for (int t = 0; t < T; t++) { rc |= rcs[t]; if (bufs[t]) { fwrite(bufs[t], 1, lens[t], stdout); free(bufs[t]); } } }
        fflush(stdout); return rc; }
    fprintf(stderr, "usage: h_boot replay <instance.txt>\n"); return 2;
}
