// C14 / C08: LWE and TLWE linear operations (red-zoned arrays), sample extraction, key switching on noiseless keys.
#include <tfhe.h>
#include <polynomials_arithmetic.h>
#include "vh.h"
EXPORT void tLweNoiselessTrivialT(TLweSample *result, const Torus32 mu, const TLweParams *params);

static void wl(const char* k, const uint32_t* v, int n) {
    fprintf(vh_out, "\"%s\":[", k);
    for (int i = 0; i < n; i++) fprintf(vh_out, "%s[%u,%u]", i ? "," : "", v[i] >> 16, v[i] & 0xffff);
    fputc(']', vh_out);
}
static void il(const char* k, const int32_t* v, int n) {
    fprintf(vh_out, "\"%s\":[", k);
    for (int i = 0; i < n; i++) fprintf(vh_out, "%s%d", i ? "," : "", v[i]);
    fputc(']', vh_out);
}
static const uint32_t EXT[] = {0xffffffffu, 0x80000000u, 0x7fffffffu, 1u, 0x80000001u, 2u, 0x0000ffffu, 0xffff0000u};
static const int GUARD = 32;
static const uint32_t PAT = 0xC0FFEE00u;
// an LweSample whose mask lives inside a red-zoned buffer
struct RZ {
    LweSample* s; Torus32* orig; std::vector<uint32_t> buf; int n;
    RZ(const LweParams* p) : n(p->n) { s = new_LweSample(p); orig = s->a; buf.assign(n + 2 * GUARD, 0); for (size_t i = 0; i < buf.size(); i++) buf[i] = PAT + (uint32_t)i; s->a = (Torus32*)(buf.data() + GUARD); }
    ~RZ() { s->a = orig; delete_LweSample(s); }
    void set(const std::vector<uint32_t>& v) { for (size_t i = 0; i < buf.size(); i++) buf[i] = PAT + (uint32_t)i; for (int i = 0; i < n; i++) s->a[i] = (Torus32)v[i]; s->b = (Torus32)v[n]; }
    int damaged() const { int c = 0; for (int i = 0; i < GUARD; i++) { if (buf[i] != PAT + (uint32_t)i) c++; if (buf[GUARD + n + i] != PAT + (uint32_t)(GUARD + n + i)) c++; } return c; }
    std::vector<uint32_t> get() const { std::vector<uint32_t> v(n + 1); for (int i = 0; i < n; i++) v[i] = (uint32_t)s->a[i]; v[n] = (uint32_t)s->b; return v; }
};
static const char* LF[] = {"clear", "copy", "negate", "trivial", "addto", "subto", "addmulto", "submulto", "subto_alias", "addto_alias", "negate_alias", "copy_alias"};
static long var_int(double v) { return (v >= 0 && v < 2147483000.0 && v == (double)(long)v) ? (long)v : -1; }
static void lwe_ops(int n, uint32_t p, VhRng& rng, int flavour) {
    LweParams* par = new_LweParams(n, 0., 1.);
    LweKey* key = new_LweKey(par);
    for (int i = 0; i < n; i++) key->key[i] = flavour == 2 ? 1 : (int)rng.below(2);
    if (n > 0 && flavour == 1) key->key[n - 1] = 1;
    std::vector<uint32_t> r0(n + 1), s(n + 1);
    for (int i = 0; i <= n; i++) { r0[i] = flavour ? EXT[rng.below(8)] : rng.u32(); s[i] = flavour == 1 ? EXT[rng.below(8)] : rng.u32(); }
    uint32_t mu = rng.u32();
    int32_t ps = ((int32_t)p > -32768 && (int32_t)p < 32768) ? (int32_t)p : 0;
    for (int f = 0; f < 12; f++) {
        RZ R(par), S(par);
        R.set(r0); S.set(s);
        R.s->current_variance = 7.; S.s->current_variance = 1.;
        Torus32 ph0 = lwePhase(R.s, key), ph1 = lwePhase(S.s, key);
        switch (f) {
            case 0: lweClear(R.s, par); break; case 1: lweCopy(R.s, S.s, par); break; case 2: lweNegate(R.s, S.s, par); break;
            case 3: lweNoiselessTrivial(R.s, (Torus32)mu, par); break; case 4: lweAddTo(R.s, S.s, par); break; case 5: lweSubTo(R.s, S.s, par); break;
            case 6: lweAddMulTo(R.s, (int32_t)p, S.s, par); break; case 7: lweSubMulTo(R.s, (int32_t)p, S.s, par); break;
            case 8: lweSubTo(R.s, R.s, par); break; case 9: lweAddTo(R.s, R.s, par); break;
            case 10: lweNegate(R.s, R.s, par); break; default: lweCopy(R.s, R.s, par); }           // result is the operand itself (what bootsNOT(x, x) / bootsCOPY(x, x) do)
        Torus32 ph2 = lwePhase(R.s, key);
        std::vector<uint32_t> out = R.get();
        uint32_t ph[3] = {(uint32_t)ph0, (uint32_t)ph1, (uint32_t)ph2};
        VH_B; vh_s("k", "lwe"); VH_C; vh_s("f", LF[f]); VH_C; vh_i("n", n); VH_C; vh_w("p", p); VH_C; vh_i("ps", ps); VH_C; vh_i("pok", ps == (int32_t)p); VH_C; vh_w("mu", mu); VH_C;
        il("key", key->key, n); VH_C; wl("r0", r0.data(), n + 1); VH_C; wl("s", s.data(), n + 1); VH_C; wl("out", out.data(), n + 1); VH_C; wl("ph", ph, 3); VH_C;
        vh_i("can", R.damaged() + S.damaged()); VH_C; vh_i("vo", var_int(R.s->current_variance)); VH_E;
    }
    delete_LweKey(key); delete_LweParams(par);
}
// ---- TLWE ----
static void get_tlwe(const TLweSample* s, int N, int k, std::vector<uint32_t>& v) { v.resize((k + 1) * N); for (int c = 0; c <= k; c++) for (int j = 0; j < N; j++) v[c * N + j] = (uint32_t)s->a[c].coefsT[j]; }
static void set_tlwe(TLweSample* s, int N, int k, const std::vector<uint32_t>& v) { for (int c = 0; c <= k; c++) for (int j = 0; j < N; j++) s->a[c].coefsT[j] = (Torus32)v[c * N + j]; }
static const char* TF[] = {"clear", "copy", "trivial", "trivialT", "addto", "subto", "addmulto", "submulto", "xaim1", "addtto"};
static void tlwe_ops(int N, int k, uint32_t p, VhRng& rng, int flavour) {
    TLweParams* par = new_TLweParams(N, k, 0., 1.);
    TLweSample* R = new_TLweSample(par); TLweSample* S = new_TLweSample(par); TorusPolynomial* mu = new_TorusPolynomial(N);
    std::vector<uint32_t> r0((k + 1) * N), s((k + 1) * N), out, muv(N);
    for (size_t i = 0; i < r0.size(); i++) { r0[i] = flavour ? EXT[rng.below(8)] : rng.u32(); s[i] = flavour ? EXT[rng.below(8)] : rng.u32(); }
    for (int j = 0; j < N; j++) { muv[j] = rng.u32(); mu->coefsT[j] = (Torus32)muv[j]; }
    int32_t ps = ((int32_t)p > -32768 && (int32_t)p < 32768) ? (int32_t)p : 0;
    static int call = 0; int edges[8] = {0, N, 2 * N - 1, 1, N - 1, N + 1, 0, N};
    int a = call < 8 || rng.below(4) == 0 ? edges[call % 8] : (int)rng.below(2 * N), pos = rng.below(k + 1); call++;      // exponents exactly 0, N, 2N-1, ... first
    for (int f = 0; f < 10; f++) {
        set_tlwe(R, N, k, r0); set_tlwe(S, N, k, s); R->current_variance = 7.; S->current_variance = 1.;
        switch (f) {
            case 0: tLweClear(R, par); break; case 1: tLweCopy(R, S, par); break; case 2: tLweNoiselessTrivial(R, mu, par); break; case 3: tLweNoiselessTrivialT(R, (Torus32)muv[0], par); break;
            case 4: tLweAddTo(R, S, par); break; case 5: tLweSubTo(R, S, par); break; case 6: tLweAddMulTo(R, (int32_t)p, S, par); break; case 7: tLweSubMulTo(R, (int32_t)p, S, par); break;
            case 8: tLweMulByXaiMinusOne(R, a, S, par); break; default: tLweAddTTo(R, pos, (Torus32)muv[0], par); }
        get_tlwe(R, N, k, out);
        VH_B; vh_s("k", "tlwe"); VH_C; vh_s("f", TF[f]); VH_C; vh_i("N", N); VH_C; vh_i("kk", k); VH_C; vh_w("p", p); VH_C; vh_i("ps", ps); VH_C; vh_i("pok", ps == (int32_t)p); VH_C; vh_i("a", a); VH_C; vh_i("pos", pos); VH_C;
        wl("mu", muv.data(), N); VH_C; wl("r0", r0.data(), (k + 1) * N); VH_C; wl("s", s.data(), (k + 1) * N); VH_C; wl("out", out.data(), (k + 1) * N); VH_C; vh_i("vo", var_int(R->current_variance)); VH_E;
    }
    delete_TorusPolynomial(mu); delete_TLweSample(R); delete_TLweSample(S); delete_TLweParams(par);
}
// ---- extraction: every index j; dense TLWE sample for small N, sparse for large N ----
typedef std::vector<std::pair<int, uint32_t> > Terms;
static void tl(const char* k, const Terms& t) {
    fprintf(vh_out, "\"%s\":[", k);
    for (size_t i = 0; i < t.size(); i++) fprintf(vh_out, "%s[%d,%u,%u]", i ? "," : "", t[i].first, t[i].second >> 16, t[i].second & 0xffff);
    fputc(']', vh_out);
}
static void extraction(int N, int k, VhRng& rng, bool dense) {
    TLweParams* par = new_TLweParams(N, k, 0., 1.);
    const LweParams* lp = &par->extracted_lweparams;
    TLweSample* x = new_TLweSample(par); TLweKey* tk = new_TLweKey(par); LweKey* lk = new_LweKey(lp);
    for (int c = 0; c < k; c++) for (int j = 0; j < N; j++) tk->key[c].coefs[j] = rng.below(2);
    tLweExtractKey(lk, tk);
    std::vector<int32_t> tkv(k * N); for (int c = 0; c < k; c++) for (int j = 0; j < N; j++) tkv[c * N + j] = tk->key[c].coefs[j];
    VH_B; vh_s("k", "extkey"); VH_C; vh_i("N", N); VH_C; vh_i("kk", k); VH_C; il("tk", tkv.data(), k * N); VH_C; il("lk", lk->key, k * N); VH_E;
    for (int j = 0; j < N; j++) {
        std::vector<uint32_t> xv((k + 1) * N, 0);
        if (dense) for (size_t i = 0; i < xv.size(); i++) xv[i] = rng.below(4) ? rng.u32() : EXT[rng.below(8)];
        else for (int c = 0; c <= k; c++) { int ps[] = {0, N - 1, j, (j + 1) % N, (int)rng.below(N)}; for (int q = 0; q < 5; q++) xv[c * N + ps[q]] = rng.u32() | 1u; }
        set_tlwe(x, N, k, xv);
        RZ R(lp);
        std::vector<uint32_t> junk(k * N + 1); for (size_t i = 0; i < junk.size(); i++) junk[i] = 0xdead0000u + (uint32_t)i; R.set(junk);
        if (j == 0 && rng.below(2)) tLweExtractLweSample(R.s, x, lp, par); else tLweExtractLweSampleIndex(R.s, x, j, lp, par);
        std::vector<uint32_t> out = R.get();
        VH_B; vh_s("k", dense ? "extd" : "exts"); VH_C; vh_i("N", N); VH_C; vh_i("kk", k); VH_C; vh_i("j", j); VH_C; vh_i("can", R.damaged()); VH_C;
        if (dense) { il("tk", tkv.data(), k * N); VH_C; wl("x", xv.data(), (k + 1) * N); VH_C; wl("out", out.data(), k * N + 1); }
        else { Terms X, O; for (size_t i = 0; i < xv.size(); i++) if (xv[i]) X.push_back(std::make_pair((int)i, xv[i])); for (size_t i = 0; i < out.size(); i++) if (out[i]) O.push_back(std::make_pair((int)i, out[i])); tl("x", X); VH_C; tl("out", O); }
        VH_E;
    }
    delete_LweKey(lk); delete_TLweKey(tk); delete_TLweSample(x); delete_TLweParams(par);
}
// ---- key switching on a noiseless key made by the real generator ----
// alpha > 0: a noisy key; every row then also carries the noise of all rows of the key (phase of the row minus the message it encodes), so that the
// exact relation can be stated with "the noise of the rows actually used"
static void keyswitch(int t, int bb, int nin, int nout, VhRng& rng, int nsamples, bool rows, double alpha = 0.) {
    LweParams* pin = new_LweParams(nin, 0., 1.); LweParams* pout = new_LweParams(nout, alpha, 1.);   // alpha_min = 0: noiseless rows
    LweKey* kin = new_LweKey(pin); LweKey* kout = new_LweKey(pout);
    for (int i = 0; i < nin; i++) kin->key[i] = (i == 0 || i == nin - 1) ? 1 : (int)rng.below(2);
    for (int i = 0; i < nout; i++) kout->key[i] = rng.below(2);
    LweKeySwitchKey* ks = new_LweKeySwitchKey(nin, t, bb, pout);
    lweCreateKeySwitchKey(ks, kin, kout);
    int base = 1 << bb;
    if (rows && alpha == 0.) for (int i = 0; i < nin; i++) for (int j = 0; j < t; j++) for (int h = 0; h < base; h++) {
        if (base > 16 && h > 2 && h < base - 2 && rng.below(base / 8)) continue;
        const LweSample* r = &ks->ks[i][j][h]; int az = 1; for (int q = 0; q < nout; q++) if (r->a[q]) az = 0;
        VH_B; vh_s("k", "ksrow"); VH_C; vh_i("t", t); VH_C; vh_i("bb", bb); VH_C; vh_i("i", i); VH_C; vh_i("j", j + 1); VH_C; vh_i("h", h); VH_C; vh_i("s", kin->key[i]); VH_C; vh_w("ph", (uint32_t)lwePhase(r, kout)); VH_C; vh_i("az", az); VH_E;
    }
    LweSample* in = new_LweSample(pin);
    int sh = 32 - t * bb;   // truncated bits
    for (int q = 0; q < nsamples; q++) {
        std::vector<uint32_t> a(nin);
        for (int i = 0; i < nin; i++) {
            uint32_t v;
            switch (rng.below(6)) {
                case 0: v = rng.u32(); break;
                case 1: { uint32_t c = rng.u32() >> sh << sh; v = c + (1u << (sh - 1)) + (uint32_t)((int)rng.below(5) - 2); break; }   // rounding half-points +-2
                case 2: { uint32_t c = rng.u32() >> sh << sh; v = c + (uint32_t)((int)rng.below(5) - 2); break; }                         // grid points +-2
                case 3: v = 0x7fffffffu - rng.below(1u << (sh < 20 ? sh : 20)); break;                                                     // just below 1/2: carry through the sign bit
                case 4: v = 0xffffffffu - rng.below(1u << (sh < 20 ? sh : 20)); break;                                                     // top of range: wrap to 0
                default: { int j = 1 + rng.below(t); uint32_t d = rng.below(2) ? (uint32_t)(base - 1) : 0u; v = (d << (32 - j * bb)) + (uint32_t)((int)rng.below(3) - 1) + (rng.below(2) ? (1u << (sh - 1)) : 0u); } }   // digit all-ones / zero
            if (q % 8 == 5) v = 0;                                                          // a noiseless trivial sample: no row is selected at all
            if (q % 8 == 6) v = sh > 1 ? rng.below(1u << (sh - 1)) : 0;                     // every coefficient below the rounding precision: rounds to digit 0 everywhere
            a[i] = v; in->a[i] = (Torus32)v;
        }
        in->b = (Torus32)rng.u32();
        RZ R(pout);
        std::vector<uint32_t> junk(nout + 1, 0xabcdef01u); R.set(junk);
        lweKeySwitch(R.s, ks, in);
        std::vector<uint32_t> out = R.get();
        VH_B; vh_s("k", "ks"); VH_C; vh_i("t", t); VH_C; vh_i("bb", bb); VH_C; vh_i("nin", nin); VH_C; vh_i("nout", nout); VH_C; il("kin", kin->key, nin); VH_C; il("kout", kout->key, nout <= 16 ? nout : 0); VH_C;
        wl("a", a.data(), nin); VH_C; vh_w("b", (uint32_t)in->b); VH_C; vh_w("po", (uint32_t)lwePhase(R.s, kout)); VH_C; wl("out", out.data(), nout <= 16 ? nout + 1 : 0); VH_C; vh_i("can", R.damaged());
        if (alpha > 0.) { VH_C; fputs("\"en\":[", vh_out);
            for (int i = 0; i < nin; i++) { fprintf(vh_out, "%s[", i ? "," : ""); for (int j = 0; j < t; j++) { fprintf(vh_out, "%s[", j ? "," : "");
                for (int h = 1; h < base; h++) { uint32_t e = (uint32_t)lwePhase(&ks->ks[i][j][h], kout) - ((uint32_t)(kin->key[i] * h) << (32 - (j + 1) * bb)); fprintf(vh_out, "%s[%u,%u]", h > 1 ? "," : "", e >> 16, e & 0xffff); }
                fputc(']', vh_out); } fputc(']', vh_out); }
            fputc(']', vh_out); }
        VH_E;
    }
    delete_LweSample(in); delete_LweKeySwitchKey(ks); delete_LweKey(kin); delete_LweKey(kout); delete_LweParams(pin); delete_LweParams(pout);
}
int main(int argc, char** argv) {
    vh_init();
    const char* mode = argc > 1 ? argv[1] : "";
    VhRng rng(vh_arg(argc, argv, "--seed", 1));
    uint32_t seedv[2] = {(uint32_t)vh_arg(argc, argv, "--seed", 1), 77u}; tfhe_random_generator_setSeed(seedv, 2);
    if (!strcmp(mode, "lwe")) {
        std::vector<long> ns = vh_list(vh_sarg(argc, argv, "--n", "1,2,3"));
        uint32_t ps[] = {0u, 1u, 0xffffffffu, 2u, 0xfffffffeu, 32767u, 0xffff8001u, 0x80000000u, 0x7fffffffu, 12345u};
        long reps = vh_arg(argc, argv, "--reps", 3);
        for (long n : ns) for (long r = 0; r < reps; r++) lwe_ops((int)n, n <= 64 ? ps[(r + n) % 10] : ps[(r * 7 + 7) % 10], rng, (int)(r % 3));
    } else if (!strcmp(mode, "tlwe")) {
        std::vector<long> Ns = vh_list(vh_sarg(argc, argv, "--N", "2,4,8"));
        uint32_t ps[] = {0u, 1u, 0xffffffffu, 0x80000000u, 32767u, 0xffff8001u, 3u};
        for (long N : Ns) for (int k = 1; k <= (N > 64 ? 1 : 3); k++) for (int r = 0; r < (N > 64 ? 2 : 3); r++) tlwe_ops((int)N, k, ps[(r * 3 + k + N) % 7], rng, r & 1);
    } else if (!strcmp(mode, "extract")) {
        std::vector<long> Ns = vh_list(vh_sarg(argc, argv, "--N", "2,4,8"));
        long dmax = vh_arg(argc, argv, "--densemax", 16);
        for (long N : Ns) for (int k = 1; k <= (N > 128 ? 2 : 3); k++) extraction((int)N, k, rng, N <= dmax);
    } else if (!strcmp(mode, "ks")) {
        int t = vh_arg(argc, argv, "--t", 8), bb = vh_arg(argc, argv, "--bb", 2);
        std::vector<long> nin = vh_list(vh_sarg(argc, argv, "--nin", "1,2,3")), nout = vh_list(vh_sarg(argc, argv, "--nout", "1,3,8,9"));
        long ns = vh_arg(argc, argv, "--samples", 64);
        double alpha = ldexp(1., -(int)vh_arg(argc, argv, "--noiselog", 0)); if (vh_arg(argc, argv, "--noiselog", 0) == 0) alpha = 0.;
        for (long a : nin) for (long b : nout) keyswitch(t, bb, (int)a, (int)b, rng, (int)ns, a <= 3 && b <= 9, alpha);
    } else if (!strcmp(mode, "ksseq")) {      // histories: many layouts and dimensions back to back in ONE process, forward then reversed
        std::vector<long> ts = vh_list(vh_sarg(argc, argv, "--ts", "8,15")), bbs = vh_list(vh_sarg(argc, argv, "--bbs", "2,1"));
        long ns = vh_arg(argc, argv, "--samples", 24);
        for (int pass = 0; pass < 2; pass++) for (size_t q = 0; q < ts.size(); q++) { size_t i = pass ? ts.size() - 1 - q : q;
            int a = 1 + (int)((q * 3 + pass) % 9), b = 1 + (int)((q * 5 + 2 * pass) % 11);
            keyswitch((int)ts[i], (int)bbs[i], a, b, rng, (int)ns, a <= 3 && b <= 9); }
    } else { fprintf(stderr, "usage: h_lwe lwe|tlwe|extract|ks ...\n"); return 2; }
    fflush(stdout);
    return 0;
}
