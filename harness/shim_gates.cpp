// LD_PRELOAD shim: records the gate-API calls of an unmodified program (the repository's own integration programs) as MachineP events.
// It forwards every call to the real library and logs, at the call's return, register identities and phases under the secret key
// it saw being generated.  Output: ndjson to $VH_TRACE; stops the program (exit 0) after $VH_MAXEV events.
#include <tfhe.h>
#include <dlfcn.h>
#include <cstdio>
#include <cstdlib>
#include <map>
#include <random>
#include <sstream>
#include <unistd.h>
extern std::default_random_engine generator;
static FILE* out = 0; static long nev = 0, maxev = 0; static const TFheGateBootstrappingSecretKeySet* SK = 0;
static std::map<const LweSample*, int> ids;
static int idof(const LweSample* s) { auto it = ids.find(s); if (it != ids.end()) return it->second; int k = (int)ids.size(); ids[s] = k; return k; }
static int ph(const LweSample* s) { return lwePhase(s, SK->lwe_key) >> 8; }
static std::string rng() { std::ostringstream o; o << generator; return o.str(); }
static void init() { if (!out) { const char* p = getenv("VH_TRACE"); out = fopen(p ? p : "/dev/null", "w"); const char* m = getenv("VH_MAXEV"); maxev = m ? atol(m) : 0; } }
static void done() { if (maxev && nev >= maxev) { fprintf(out, "{\"seq\":%ld,\"e\":\"End\"}\n", nev); fflush(out); _exit(0); } }
template <typename F> static F real(const char* name) { return (F)dlsym(RTLD_NEXT, name); }
extern "C" {
TFheGateBootstrappingSecretKeySet* new_random_gate_bootstrapping_secret_keyset(const TFheGateBootstrappingParameterSet* params) {
    init(); typedef TFheGateBootstrappingSecretKeySet* (*F)(const TFheGateBootstrappingParameterSet*);
    TFheGateBootstrappingSecretKeySet* r = real<F>("new_random_gate_bootstrapping_secret_keyset")(params); SK = r; ids.clear();
    fprintf(out, "{\"seq\":%ld,\"e\":\"Key\",\"lambda\":%d,\"R\":0,\"n\":%d}\n", nev++, params->in_out_params->n == 500 ? 80 : 128, params->in_out_params->n); return r;
}
void bootsSymEncrypt(LweSample* result, int32_t message, const TFheGateBootstrappingSecretKeySet* key) {
    init(); typedef void (*F)(LweSample*, int32_t, const TFheGateBootstrappingSecretKeySet*); real<F>("bootsSymEncrypt")(result, message, key); SK = key;
    fprintf(out, "{\"seq\":%ld,\"e\":\"Load\",\"d\":%d,\"bit\":%d,\"inj\":0,\"out\":%d,\"rng\":1,\"regs\":[],\"src\":[]}\n", nev++, idof(result), message ? 1 : 0, ph(result)); done();
}
static void gate(const char* g, LweSample* d, const LweSample* a, const LweSample* b, const LweSample* c, int v, void (*call)(void*), void* ctx) {
    int ia = a ? idof(a) : 0, ib = b ? idof(b) : 0, ic = c ? idof(c) : 0, id = idof(d);
    int pa = a ? ph(a) : 0, pb = b ? ph(b) : 0, pc = c ? ph(c) : 0;
    std::string r0 = rng(); call(ctx); int same = r0 == rng();
    fprintf(out, "{\"seq\":%ld,\"e\":\"Gate\",\"g\":\"%s\",\"d\":%d,\"a\":%d,\"b\":%d,\"c\":%d,\"v\":%d,\"out\":%d,\"rng\":%d,\"regs\":[],\"src\":[", nev++, g, id, ia, ib, ic, v, ph(d), same);
    int first = 1; if (a) { fprintf(out, "[%d,%d]", ia, pa); first = 0; } if (b) { fprintf(out, "%s[%d,%d]", first ? "" : ",", ib, pb); first = 0; } if (c) fprintf(out, "%s[%d,%d]", first ? "" : ",", ic, pc);
    fprintf(out, "]}\n"); done();
}
struct B3 { const char* n; LweSample* r; const LweSample* a; const LweSample* b; const LweSample* c; const TFheGateBootstrappingCloudKeySet* bk; int v; };
#define BIN(NAME, STR) void NAME(LweSample* r, const LweSample* a, const LweSample* b, const TFheGateBootstrappingCloudKeySet* bk) { init(); B3 x = {#NAME, r, a, b, 0, bk, 0}; \
    gate(STR, r, a, b, 0, 0, [](void* p) { B3* q = (B3*)p; typedef void (*F)(LweSample*, const LweSample*, const LweSample*, const TFheGateBootstrappingCloudKeySet*); real<F>(q->n)(q->r, q->a, q->b, q->bk); }, &x); }
BIN(bootsNAND, "NAND") BIN(bootsOR, "OR") BIN(bootsAND, "AND") BIN(bootsXOR, "XOR") BIN(bootsXNOR, "XNOR") BIN(bootsNOR, "NOR") BIN(bootsANDNY, "ANDNY") BIN(bootsANDYN, "ANDYN") BIN(bootsORNY, "ORNY") BIN(bootsORYN, "ORYN")
void bootsMUX(LweSample* r, const LweSample* a, const LweSample* b, const LweSample* c, const TFheGateBootstrappingCloudKeySet* bk) { init(); B3 x = {"bootsMUX", r, a, b, c, bk, 0};
    gate("MUX", r, a, b, c, 0, [](void* p) { B3* q = (B3*)p; typedef void (*F)(LweSample*, const LweSample*, const LweSample*, const LweSample*, const TFheGateBootstrappingCloudKeySet*); real<F>(q->n)(q->r, q->a, q->b, q->c, q->bk); }, &x); }
void bootsNOT(LweSample* r, const LweSample* a, const TFheGateBootstrappingCloudKeySet* bk) { init(); B3 x = {"bootsNOT", r, a, 0, 0, bk, 0};
    gate("NOT", r, a, 0, 0, 0, [](void* p) { B3* q = (B3*)p; typedef void (*F)(LweSample*, const LweSample*, const TFheGateBootstrappingCloudKeySet*); real<F>(q->n)(q->r, q->a, q->bk); }, &x); }
void bootsCOPY(LweSample* r, const LweSample* a, const TFheGateBootstrappingCloudKeySet* bk) { init(); B3 x = {"bootsCOPY", r, a, 0, 0, bk, 0};
    gate("COPY", r, a, 0, 0, 0, [](void* p) { B3* q = (B3*)p; typedef void (*F)(LweSample*, const LweSample*, const TFheGateBootstrappingCloudKeySet*); real<F>(q->n)(q->r, q->a, q->bk); }, &x); }
void bootsCONSTANT(LweSample* r, int32_t v, const TFheGateBootstrappingCloudKeySet* bk) { init(); B3 x = {"bootsCONSTANT", r, 0, 0, 0, bk, v ? 1 : 0};
    gate("CONST", r, 0, 0, 0, v ? 1 : 0, [](void* p) { B3* q = (B3*)p; typedef void (*F)(LweSample*, int32_t, const TFheGateBootstrappingCloudKeySet*); real<F>(q->n)(q->r, q->v, q->bk); }, &x); }
int32_t bootsSymDecrypt(const LweSample* s, const TFheGateBootstrappingSecretKeySet* key) { init(); typedef int32_t (*F)(const LweSample*, const TFheGateBootstrappingSecretKeySet*); int32_t r = real<F>("bootsSymDecrypt")(s, key);
    if (ids.count(s)) fprintf(out, "{\"seq\":%ld,\"e\":\"Dec\",\"r\":%d,\"bit\":%d}\n", nev++, idof(s), r); return r; }
}
