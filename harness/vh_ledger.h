// Allocation ledger: interposes malloc/free/calloc/realloc/memalign/posix_memalign/aligned_alloc and operator new/delete in the
// harness executable (which also captures the allocations of libtfhe-*.so).  Every block gets a header and front/rear red zones;
// fresh memory is filled with a configurable byte, freed memory is poisoned and quarantined.  The ledger only records:
// counts, live bytes, damaged red zones.  Include in exactly one translation unit.
#ifndef VH_LEDGER_H
#define VH_LEDGER_H
#include <cstdlib>
#include <cstring>
#include <cstdint>
#include <atomic>
#include <new>
#include <pthread.h>
#include <sys/mman.h>
extern "C" void* __libc_malloc(size_t); extern "C" void __libc_free(void*); extern "C" void* __libc_memalign(size_t, size_t); extern "C" void* __libc_realloc(void*, size_t);
namespace led {
static const uint64_t MAGIC = 0x1ed9e7b10c4a11ceULL, DEAD = 0xdeadb10cdeadb10cULL;
static const size_t RZ = 64;                       // red zone bytes each side
struct Hdr { uint64_t magic; size_t size; size_t align; void* base; Hdr* prev; Hdr* next; uint64_t serial; uint64_t pad; };   // 64 bytes
static std::atomic<long> nalloc(0), nfree(0), live_bytes(0), live_blocks(0), damaged(0), dfree(0);
static std::atomic<uint64_t> serial(0);
static std::atomic<int> fill(0xA5);
static std::atomic<int> guard(0);          // 1: blocks of 1 KiB .. 64 KiB end on an inaccessible page (an access past the end faults, reads included)
static pthread_mutex_t mu = PTHREAD_MUTEX_INITIALIZER;
static Hdr head = {0, 0, 0, 0, &head, &head, 0, 0};
static Hdr* qhead = 0; static Hdr* qtail = 0; static size_t qbytes = 0; static size_t qcap = (size_t)768 << 20;
static inline size_t hdrspace(size_t align) { size_t h = sizeof(Hdr) + RZ; return align > 16 ? ((h + align - 1) / align) * align : h; }
static inline unsigned char* front(Hdr* h) { return (unsigned char*)h + sizeof(Hdr); }
static void* alloc(size_t n, size_t align) {
    size_t hs = hdrspace(align);
    if (guard.load() && n >= 1024 && n <= (size_t)(1 << 16) && align <= 4096) {
        size_t nr = (n + align - 1) / align * align, pages = (hs + nr + 4095) / 4096;
        char* base = (char*)mmap(NULL, (pages + 1) * 4096, PROT_READ | PROT_WRITE, MAP_PRIVATE | MAP_ANONYMOUS, -1, 0);
        if (base != (char*)MAP_FAILED) {
            mprotect(base + pages * 4096, 4096, PROT_NONE);
            char* payload = base + pages * 4096 - nr; Hdr* h = (Hdr*)(payload - RZ - sizeof(Hdr));
            h->magic = MAGIC; h->size = n; h->align = align; h->base = base; h->serial = serial.fetch_add(1); h->pad = pages;         // pad != 0 marks a guarded block
            memset(front(h), 0xCA, RZ); memset(payload, fill.load(), n); memset(payload + n, 0xCB, nr - n);
            pthread_mutex_lock(&mu); h->next = head.next; h->prev = &head; head.next->prev = h; head.next = h; pthread_mutex_unlock(&mu);
            nalloc++; live_bytes += (long)n; live_blocks++;
            return payload;
        }
    }
    char* base = (char*)(align > 16 ? __libc_memalign(align, hs + n + RZ) : __libc_malloc(hs + n + RZ));
    if (!base) return 0;
    char* payload = base + hs; Hdr* h = (Hdr*)(payload - RZ - sizeof(Hdr));
    h->magic = MAGIC; h->size = n; h->align = align; h->base = base; h->serial = serial.fetch_add(1); h->pad = 0;
    memset(front(h), 0xCA, RZ); memset(payload + n, 0xCB, RZ); memset(payload, fill.load(), n);
    pthread_mutex_lock(&mu); h->next = head.next; h->prev = &head; head.next->prev = h; head.next = h; pthread_mutex_unlock(&mu);
    nalloc++; live_bytes += (long)n; live_blocks++;
    return payload;
}
static long check(Hdr* h) { long d = 0; unsigned char* f = front(h); unsigned char* r = (unsigned char*)h + sizeof(Hdr) + RZ + h->size;
    size_t rear = h->pad ? ((h->size + h->align - 1) / h->align * h->align - h->size) : RZ;               // a guarded block has only its alignment slack behind it, then the inaccessible page
    for (size_t i = 0; i < RZ; i++) if (f[i] != 0xCA) d++;
    for (size_t i = 0; i < rear; i++) if (r[i] != 0xCB) d++;
    return d; }
static void release(void* q) {
    if (!q) return;
    Hdr* h = (Hdr*)((char*)q - RZ - sizeof(Hdr));
    if (h->magic == DEAD) { dfree++; return; }                       // double free
    if (h->magic != MAGIC) { __libc_free(q); return; }               // not ours (allocated before interposition was live)
    long d = check(h); if (d) damaged += d;
    if (h->pad) { pthread_mutex_lock(&mu); h->prev->next = h->next; h->next->prev = h->prev; pthread_mutex_unlock(&mu);
        nfree++; live_bytes -= (long)h->size; live_blocks--; munmap(h->base, (h->pad + 1) * 4096); return; }            // (a later access faults: the mapping is gone)
    pthread_mutex_lock(&mu); h->prev->next = h->next; h->next->prev = h->prev;
    h->magic = DEAD; memset(q, 0xDD, h->size);                        // poison, then quarantine instead of returning the memory at once
    h->next = 0; if (qtail) qtail->next = h; else qhead = h; qtail = h; qbytes += h->size;
    while (qbytes > qcap && qhead && qhead != h) { Hdr* o = qhead; qhead = o->next; qbytes -= o->size; if (!qhead) qtail = 0; __libc_free(o->base); }
    pthread_mutex_unlock(&mu);
    nfree++; live_bytes -= (long)h->size; live_blocks--;
}
static long scan_live() { long d = 0; pthread_mutex_lock(&mu); for (Hdr* h = head.next; h != &head; h = h->next) d += check(h); pthread_mutex_unlock(&mu); return d; }
struct Snap { long nalloc, nfree, bytes, blocks, damaged, dfree; };
static Snap snap() { Snap s = {nalloc.load(), nfree.load(), live_bytes.load(), live_blocks.load(), damaged.load() + scan_live(), dfree.load()}; return s; }
}
extern "C" void* malloc(size_t n) { return led::alloc(n, 16); }
extern "C" void free(void* p) { led::release(p); }
extern "C" void* calloc(size_t a, size_t b) { void* p = led::alloc(a * b, 16); if (p) memset(p, 0, a * b); return p; }
extern "C" void* realloc(void* q, size_t n) { if (!q) return led::alloc(n, 16); led::Hdr* h = (led::Hdr*)((char*)q - led::RZ - sizeof(led::Hdr)); if (h->magic != led::MAGIC) return __libc_realloc(q, n);
    void* r = led::alloc(n, 16); if (r) { memcpy(r, q, h->size < n ? h->size : n); led::release(q); } return r; }
extern "C" void* memalign(size_t al, size_t n) { return led::alloc(n, al < 16 ? 16 : al); }
extern "C" void* aligned_alloc(size_t al, size_t n) { return led::alloc(n, al < 16 ? 16 : al); }
extern "C" int posix_memalign(void** out, size_t al, size_t n) { void* p = led::alloc(n, al < 16 ? 16 : al); if (!p) return 12; *out = p; return 0; }
void* operator new(size_t n) { return led::alloc(n, 16); } void* operator new[](size_t n) { return led::alloc(n, 16); }
void operator delete(void* p) noexcept { led::release(p); } void operator delete[](void* p) noexcept { led::release(p); }
void operator delete(void* p, size_t) noexcept { led::release(p); } void operator delete[](void* p, size_t) noexcept { led::release(p); }
#endif
