// C19: request default parameters for every lambda (in a forked child: out-of-range requests abort) and print every field.
#include <tfhe.h>
#include "vh.h"
#include <cmath>
#include <sys/wait.h>
#include <climits>
#include <fcntl.h>
static void dbl(const char* k, double v) {
    int e; double m = frexp(v, &e); uint64_t M = (uint64_t)ldexp(m, 53);
    fprintf(vh_out, "\"%s\":{\"m\":[%u,%u,%u,%u],\"e\":%d,\"s\":\"%.10g\"}", k, (unsigned)(M & 0xffff), (unsigned)((M >> 16) & 0xffff), (unsigned)((M >> 32) & 0xffff), (unsigned)((M >> 48) & 0xffff), e - 53, v);
}
static void print_fields(int32_t lam) {
    TFheGateBootstrappingParameterSet* p = new_default_gate_bootstrapping_parameters(lam);
    const TGswParams* g = p->tgsw_params; const TLweParams* t = g->tlwe_params; const LweParams* in = p->in_out_params;
    fprintf(vh_out, "\"ret\":1,"); vh_i("n", in->n); VH_C; dbl("ks_stdev", in->alpha_min); VH_C; dbl("in_max", in->alpha_max); VH_C;
    vh_i("N", t->N); VH_C; vh_i("kk", t->k); VH_C; dbl("bk_stdev", t->alpha_min); VH_C; dbl("bk_max", t->alpha_max); VH_C;
    vh_i("l", g->l); VH_C; vh_i("Bgbit", g->Bgbit); VH_C; vh_i("Bg", g->Bg); VH_C; vh_i("halfBg", g->halfBg); VH_C; vh_i("maskMod", (long)g->maskMod); VH_C; vh_i("kpl", g->kpl); VH_C;
    vh_w("offset", g->offset); VH_C; fputs("\"h\":[", vh_out); for (int i = 0; i < g->l; i++) fprintf(vh_out, "%s[%u,%u]", i ? "," : "", (uint32_t)g->h[i] >> 16, (uint32_t)g->h[i] & 0xffff); fputs("],", vh_out);
    vh_i("ks_t", p->ks_t); VH_C; vh_i("ks_basebit", p->ks_basebit); VH_C; vh_i("ext_n", t->extracted_lweparams.n); VH_C; dbl("ext_min", t->extracted_lweparams.alpha_min); VH_C; dbl("ext_max", t->extracted_lweparams.alpha_max);
}
int main(int argc, char** argv) {
    vh_init();
    std::vector<long> ls; for (long l = -5; l <= 300; l++) ls.push_back(l); ls.push_back(INT_MIN); ls.push_back(INT_MAX); ls.push_back(INT_MIN + 1);
    for (long lam : ls) {
        int fd[2]; if (pipe(fd)) return 3;
        fflush(stdout);
        pid_t pid = fork();
        if (pid == 0) {
            signal(SIGABRT, SIG_DFL); close(fd[0]); vh_out = fdopen(fd[1], "w"); int devnull = open("/dev/null", 1); dup2(devnull, 2);
            print_fields((int32_t)lam);
            fflush(vh_out); _exit(0);
        }
        close(fd[1]);
        std::string body; char buf[4096]; ssize_t r; while ((r = read(fd[0], buf, sizeof buf)) > 0) body.append(buf, r); close(fd[0]);
        int st = 0; waitpid(pid, &st, 0);
        const char* outcome = WIFSIGNALED(st) ? "abort" : (WIFEXITED(st) && WEXITSTATUS(st) == 0) ? "return" : "exit";
        // lambda as sign + two halves (INT32_MIN does not fit a TLC integer negated)
        printf("{\"k\":\"sel\",\"lam\":%ld,\"outcome\":\"%s\",\"sig\":%d", lam == INT_MIN ? -2147483647L : lam, outcome, WIFSIGNALED(st) ? WTERMSIG(st) : 0);
        if (!body.empty() && !WIFSIGNALED(st)) printf(",%s", body.c_str());
        printf("}\n");
    }
    // the same requests inside one process, in both orders (a selector that keeps state between calls shows here)
    int seqs[] = {80, 128, 80, 1, 128, 81, 40, 100};
    for (int lam : seqs) { printf("{\"k\":\"sel\",\"lam\":%d,\"outcome\":\"return\",\"sig\":0,", lam); fflush(stdout); vh_out = stdout; print_fields(lam); printf("}\n"); }
    fflush(stdout);
    return 0;
}
