// C06: many threads evaluating with one shared cloud key; hook events from the FFT processors; content hashes of every evaluation.
#include "vh_hash.h"
#include <tfhe_verif_hooks.h>
#include <polynomials_arithmetic.h>
#include <lagrangehalfc_arithmetic.h>
#include <thread>
#include <mutex>
#include <atomic>
#include <map>
#include <algorithm>
#include <sstream>
#include <sched.h>
#include <sys/wait.h>
#include <unistd.h>
#include <signal.h>

struct Rec { long seq; std::string json; };
static std::mutex g_mu; static std::vector<Rec> g_log; static std::atomic<long> g_seq(0);
static std::atomic<int> g_next_tid(0);
static thread_local int t_tid = -1;
struct UseKey { const void* proc; const void* buf; bool operator<(const UseKey& o) const { return proc < o.proc || (proc == o.proc && buf < o.buf); } };
static thread_local std::map<UseKey, long>* t_use = 0;
static thread_local long t_decomp = 0;
static std::map<const void*, int> g_ids; static int g_nid = 1;       // small stable ids for addresses (under g_mu)
static int idof(const void* p) { auto it = g_ids.find(p); if (it != g_ids.end()) return it->second; return g_ids[p] = g_nid++; }
static void logev(const std::string& body) { long s = g_seq.fetch_add(1); std::lock_guard<std::mutex> l(g_mu); Rec r; r.seq = s; r.json = body; g_log.push_back(r); }
static void hook(const char* ev, const void* obj, const void* buf, long a, long b) {
    (void)b;
    if (!strcmp(ev, "FftBegin")) { if (!t_use) t_use = new std::map<UseKey, long>(); UseKey k = {obj, buf}; (*t_use)[k]++; return; }
    if (!strcmp(ev, "FftEnd")) return;
    if (!strcmp(ev, "DecompDirty")) { t_decomp++; return; }
    if (!strcmp(ev, "DecompClean")) return;
    long s = g_seq.fetch_add(1);
    std::lock_guard<std::mutex> l(g_mu);
    char tmp[256]; snprintf(tmp, sizeof tmp, "\"e\":\"%s\",\"tid\":%d,\"proc\":%d,\"buf\":%d,\"a\":%ld", ev, t_tid, idof(obj), buf ? idof(buf) : 0, a);
    Rec r; r.seq = s; r.json = tmp; g_log.push_back(r);
}
extern "C" { tfhe_verif_hook_t tfhe_verif_hook = hook; }

static void flush_use() {
    if (t_use) { for (auto& kv : *t_use) { long s = g_seq.fetch_add(1); std::lock_guard<std::mutex> l(g_mu); char tmp[256];
            snprintf(tmp, sizeof tmp, "\"e\":\"Use\",\"tid\":%d,\"proc\":%d,\"buf\":%d,\"a\":%ld", t_tid, idof(kv.first.proc), idof(kv.first.buf), kv.second); Rec r; r.seq = s; r.json = tmp; g_log.push_back(r); }
        delete t_use; t_use = 0; }
}
static std::string h2(uint64_t h) { char b[64]; snprintf(b, sizeof b, "[%u,%u]", (unsigned)(h & 0x7fffffff), (unsigned)((h >> 31) & 0x7fffffff)); return b; }
static void ev_eval(const char* op, uint64_t key, const std::vector<uint64_t>& ins, uint64_t out, const char* hist) {
    std::ostringstream o; o << "\"e\":\"Eval\",\"tid\":" << t_tid << ",\"op\":\"" << op << "\",\"alias\":\"none\",\"hist\":\"" << hist << "\",\"ins\":[";
    for (size_t i = 0; i < ins.size(); i++) o << (i ? "," : "") << h2(ins[i]);
    o << "],\"insa\":["; for (size_t i = 0; i < ins.size(); i++) o << (i ? "," : "") << h2(ins[i]);
    o << "],\"al\":[],\"key\":" << h2(key) << ",\"keya\":" << h2(key) << ",\"par\":[1,1],\"para\":[1,1],\"out\":" << h2(out) << ",\"rng\":1";
    logev(o.str());
}
struct Ws { LagrangeHalfCPolynomial* la; LagrangeHalfCPolynomial* lb; LagrangeHalfCPolynomial* lr; };
struct Shared { TFheGateBootstrappingParameterSet* p; TFheGateBootstrappingSecretKeySet* sk; LweSample* in; int nin; uint64_t keyh; std::vector<uint64_t> inh; std::vector<Ws> ws; };
// a Lagrange-domain product in workspaces that ANOTHER thread allocated (a coordinator pre-allocating buffers): the transforms still run on the calling thread's processor
static uint64_t lagr_product(const Ws& w, unsigned seed) {
    VhRng r(seed); IntPolynomial* a = new_IntPolynomial(1024); TorusPolynomial* b = new_TorusPolynomial(1024); TorusPolynomial* c = new_TorusPolynomial(1024);
    for (int i = 0; i < 1024; i++) { a->coefs[i] = (int)r.below(128) - 64; b->coefsT[i] = (Torus32)r.u32(); }
    IntPolynomial_ifft(w.la, a); TorusPolynomial_ifft(w.lb, b); LagrangeHalfCPolynomialMul(w.lr, w.la, w.lb); TorusPolynomial_fft(c, w.lr);
    uint64_t h = hPoly(c); delete_IntPolynomial(a); delete_TorusPolynomial(b); delete_TorusPolynomial(c); return h;
}
static void yield_some(VhRng& r) { int k = r.below(4); for (int i = 0; i < k; i++) sched_yield(); }
// different things a thread may have done before (or between) the evaluations under test
static void history(int kind, VhRng& r, const Shared& S) {
    if (kind == 1) {          // FFT products of unrelated polynomials
        IntPolynomial* a = new_IntPolynomial(1024); TorusPolynomial* b = new_TorusPolynomial(1024); TorusPolynomial* c = new_TorusPolynomial(1024);
        for (int i = 0; i < 1024; i++) { a->coefs[i] = (int)r.below(1024) - 512; b->coefsT[i] = (Torus32)r.u32(); }
        for (int q = 0; q < 3; q++) { torusPolynomialMultFFT(c, a, b); torusPolynomialAddMulRFFT(c, a, b); }
        delete_IntPolynomial(a); delete_TorusPolynomial(b); delete_TorusPolynomial(c);
    } else if (kind == 2) {   // other gates on private data
        LweSample* t = new_gate_bootstrapping_ciphertext_array(3, S.p); bootsCONSTANT(t, 1, &S.sk->cloud); bootsCONSTANT(t + 1, 0, &S.sk->cloud);
        bootsXOR(t + 2, t, t + 1, &S.sk->cloud); bootsMUX(t, t + 2, t + 1, t, &S.sk->cloud); delete_gate_bootstrapping_ciphertext_array(3, t);
    } else if (kind == 3) {   // a bootstrapping with another output message
        LweSample* t = new_gate_bootstrapping_ciphertext_array(2, S.p); bootsCONSTANT(t, 1, &S.sk->cloud); tfhe_bootstrap_FFT(t + 1, S.sk->cloud.bkFFT, modSwitchToTorus32(1, 4), t); delete_gate_bootstrapping_ciphertext_array(2, t);
    }
}
static void evaluations(const Shared& S, VhRng& r, int count, const char* hist) {
    int n = S.p->in_out_params->n; LweSample* out = new_gate_bootstrapping_ciphertext(S.p); const TFheGateBootstrappingCloudKeySet* bk = &S.sk->cloud;
    for (int q = 0; q < count; q++) {
        int a = r.below(S.nin), b = r.below(S.nin), c = r.below(S.nin), g = r.below(13) % 7;      // (the coefficient-domain bootstrapping is slower: half as often)
        if (g == 6) { unsigned ps = 7000 + r.below(4); uint64_t h = lagr_product(S.ws[(size_t)t_tid % S.ws.size()], ps); ev_eval("lagrange_product", S.keyh, {(uint64_t)ps}, h, hist); continue; }
        yield_some(r);
        if (g == 0) { bootsNAND(out, S.in + a, S.in + b, bk); ev_eval("NAND", S.keyh, {S.inh[a], S.inh[b]}, hLwe(out, n), hist); }
        else if (g == 1) { bootsXOR(out, S.in + a, S.in + b, bk); ev_eval("XOR", S.keyh, {S.inh[a], S.inh[b]}, hLwe(out, n), hist); }
        else if (g == 2) { bootsMUX(out, S.in + a, S.in + b, S.in + c, bk); ev_eval("MUX", S.keyh, {S.inh[a], S.inh[b], S.inh[c]}, hLwe(out, n), hist); }
        else if (g == 3) { bootsANDYN(out, S.in + a, S.in + b, bk); ev_eval("ANDYN", S.keyh, {S.inh[a], S.inh[b]}, hLwe(out, n), hist); }
        else if (g == 4) { Torus32 mu = modSwitchToTorus32(1, 4); tfhe_bootstrap_FFT(out, bk->bkFFT, mu, S.in + a); ev_eval("bootstrap_FFT/4", S.keyh, {S.inh[a]}, hLwe(out, n), hist); }
        else { Torus32 mu = modSwitchToTorus32(1, 8); tfhe_bootstrap(out, bk->bk, mu, S.in + a); ev_eval("bootstrap_coef/8", S.keyh, {S.inh[a]}, hLwe(out, n), hist); }       // the coefficient-domain entry points (tGswExternMulToTLwe, tfhe_blindRotate)
    }
    delete_gate_bootstrapping_ciphertext(out);
}
static void worker(const Shared* S, unsigned seed, int count, int hist_kind, bool keygen) {
    t_tid = g_next_tid.fetch_add(1) + 1;
    { char tmp[64]; snprintf(tmp, sizeof tmp, "\"e\":\"ThreadStart\",\"tid\":%d", t_tid); logev(tmp); }
    VhRng r(seed);
    for (unsigned i = 0; i < r.below(3); i++) sched_yield();
    if (keygen) {   // key generation on this thread with its own data, while the others evaluate (uses this thread's processor only; draws from the global generator)
        TLweParams* tp = new_TLweParams(1024, 1, 1e-9, 0.01); TGswParams* gp = new_TGswParams(2, 8, tp); TGswKey* k = new_TGswKey(gp); tGswKeyGen(k);
        TGswSample* s = new_TGswSample(gp); tGswSymEncryptInt(s, 1, 1e-9, k); TGswSampleFFT* sf = new_TGswSampleFFT(gp); tGswToFFTConvert(sf, s, gp);
        delete_TGswSampleFFT(sf); delete_TGswSample(s); delete_TGswKey(k); delete_TGswParams(gp); delete_TLweParams(tp);
    } else {
        const char* hn[4] = {"none", "fftprod", "gates", "boot4"};
        history(hist_kind, r, *S);
        evaluations(*S, r, count, hn[hist_kind]);
        history((hist_kind + 1) % 4, r, *S);
        evaluations(*S, r, count / 2 + 1, hn[(hist_kind + 1) % 4]);
    }
    flush_use();
    { char tmp[96]; snprintf(tmp, sizeof tmp, "\"e\":\"ThreadEnd\",\"tid\":%d,\"decomp\":%ld", t_tid, t_decomp); logev(tmp); }
}
// "storm": T evaluators released together before every single evaluation (a spin barrier per step: all of them are in the same phase of a gate at the same
// time), while a client thread keeps using the non-evaluation part of the library on the same keys (encrypt, decrypt, encode with other message spaces).
struct Storm { std::atomic<int> arrived; std::atomic<int> gen; std::atomic<int> done; int T; };
static void storm_barrier(Storm& B) { int g = B.gen.load(); if (B.arrived.fetch_add(1) + 1 == B.T) { B.arrived.store(0); B.gen.fetch_add(1); } else while (B.gen.load() == g) { } }
static void storm_worker(const Shared* S, Storm* B, unsigned seed, int count) {
    t_tid = g_next_tid.fetch_add(1) + 1;
    { char tmp[64]; snprintf(tmp, sizeof tmp, "\"e\":\"ThreadStart\",\"tid\":%d", t_tid); logev(tmp); }
    VhRng r(seed); int n = S->p->in_out_params->n; LweSample* out = new_gate_bootstrapping_ciphertext(S->p); const TFheGateBootstrappingCloudKeySet* bk = &S->sk->cloud;
    for (int q = 0; q < count; q++) { int a = r.below(S->nin), b = r.below(S->nin), g = r.below(3);
        storm_barrier(*B);
        if (g == 0) { bootsNAND(out, S->in + a, S->in + b, bk); ev_eval("NAND", S->keyh, {S->inh[a], S->inh[b]}, hLwe(out, n), "storm"); }
        else if (g == 1) { bootsXOR(out, S->in + a, S->in + b, bk); ev_eval("XOR", S->keyh, {S->inh[a], S->inh[b]}, hLwe(out, n), "storm"); }
        else { bootsANDYN(out, S->in + a, S->in + b, bk); ev_eval("ANDYN", S->keyh, {S->inh[a], S->inh[b]}, hLwe(out, n), "storm"); } }
    delete_gate_bootstrapping_ciphertext(out); B->done.fetch_add(1);
    flush_use();
    { char tmp[96]; snprintf(tmp, sizeof tmp, "\"e\":\"ThreadEnd\",\"tid\":%d,\"decomp\":%ld", t_tid, t_decomp); logev(tmp); }
}
static void storm_client(const Shared* S, Storm* B) {
    t_tid = g_next_tid.fetch_add(1) + 1;
    { char tmp[64]; snprintf(tmp, sizeof tmp, "\"e\":\"ThreadStart\",\"tid\":%d", t_tid); logev(tmp); }
    LweSample* c = new_gate_bootstrapping_ciphertext_array(2, S->p); long k = 0, bad = 0; const LweKey* lk = S->sk->lwe_key;
    while (B->done.load() < B->T) { int bit = (int)(k & 1);
        bootsSymEncrypt(c, bit, S->sk); if (bootsSymDecrypt(c, S->sk) != bit) bad++;
        int M = 3 + (int)(k % 14); int m = (int)(k % M); lweSymEncrypt(c + 1, modSwitchToTorus32(m, M), 1e-6, lk); if (modSwitchFromTorus32(lwePhase(c + 1, lk), M) != m) bad++;
        (void)approxPhase((Torus32)(k * 2654435761u), 16 + (int)(k % 5)); k++; }
    delete_gate_bootstrapping_ciphertext_array(2, c);
    flush_use();
    { char tmp[128]; snprintf(tmp, sizeof tmp, "\"e\":\"Client\",\"tid\":%d,\"ops\":%ld,\"wrong\":%ld", t_tid, k, bad); logev(tmp); }
    { char tmp[96]; snprintf(tmp, sizeof tmp, "\"e\":\"ThreadEnd\",\"tid\":%d,\"decomp\":%ld", t_tid, t_decomp); logev(tmp); }
}
int main(int argc, char** argv) {
    vh_init();
    int lambda = vh_arg(argc, argv, "--lambda", 80), rounds = vh_arg(argc, argv, "--rounds", 2), count = vh_arg(argc, argv, "--count", 3); unsigned seed = vh_arg(argc, argv, "--seed", 1);
    std::vector<long> tcounts = vh_list(vh_sarg(argc, argv, "--threads", "1,4,16"));
    t_tid = 0; int helper = vh_arg(argc, argv, "--helper", 0);
    Shared S; int n = 0; VhRng r(seed);
    logev("\"e\":\"ThreadStart\",\"tid\":0");
    if (vh_arg(argc, argv, "--probe", 0) == 2) {
        // probe 2: the very first use of the library in this process is K threads creating their first Lagrange polynomial at the same moment (first use
        // of the process-lifetime processor, SharedInit.tla); each then writes its polynomial and multiplies (its own thread_local processor); after the
        // join the main thread writes every polynomial (in a child process: the outcome is recorded, identities are judged).
        const int K = 8; std::atomic<int> ready(0); std::vector<LagrangeHalfCPolynomial*> P(K, (LagrangeHalfCPolynomial*)0); std::vector<std::thread> th;
        auto polyev = [&](const char* e, int tid, const LagrangeHalfCPolynomial* Q, const char* extra) { long sq = g_seq.fetch_add(1); std::lock_guard<std::mutex> l(g_mu); char tmp[256];
            snprintf(tmp, sizeof tmp, "\"e\":\"%s\",\"tid\":%d,\"poly\":%d,\"proc\":%d%s", e, tid, idof(Q), idof(Q->precomp), extra); Rec r; r.seq = sq; r.json = tmp; g_log.push_back(r); };
        for (int i = 0; i < K; i++) th.emplace_back([&, i]() { t_tid = g_next_tid.fetch_add(1) + 1; { char tmp[64]; snprintf(tmp, sizeof tmp, "\"e\":\"ThreadStart\",\"tid\":%d", t_tid); logev(tmp); }
            ready.fetch_add(1); while (ready.load() < K) { }
            P[i] = new_LagrangeHalfCPolynomial(1024); polyev("PolyNew", t_tid, P[i], "");
            LagrangeHalfCPolynomialClear(P[i]); LagrangeHalfCPolynomialAddTorusConstant(P[i], 77 + i); polyev("PolyUse", t_tid, P[i], ",\"outcome\":\"ok\"");
            Ws w; w.la = new_LagrangeHalfCPolynomial(1024); w.lb = new_LagrangeHalfCPolynomial(1024); w.lr = new_LagrangeHalfCPolynomial(1024);
            ev_eval("lagrange_product", 0x600dULL, {(uint64_t)7000}, lagr_product(w, 7000), "first");
            delete_LagrangeHalfCPolynomial(w.la); delete_LagrangeHalfCPolynomial(w.lb); delete_LagrangeHalfCPolynomial(w.lr);
            flush_use(); { char tmp[96]; snprintf(tmp, sizeof tmp, "\"e\":\"ThreadEnd\",\"tid\":%d,\"decomp\":0", t_tid); logev(tmp); } });
        for (auto& t : th) t.join();
        { long sq = g_seq.fetch_add(1); std::lock_guard<std::mutex> l(g_mu); Rec rr; rr.seq = sq; rr.json = "\"e\":\"Joined\",\"upto\":" + std::to_string(g_next_tid.load()); g_log.push_back(rr); }
        for (int i = 0; i < K; i++) { fflush(stdout); pid_t pid = fork(); if (pid == 0) { signal(SIGSEGV, SIG_DFL); LagrangeHalfCPolynomialClear(P[i]); LagrangeHalfCPolynomialAddTorusConstant(P[i], 12345); _exit(0); }
            int st = 0; waitpid(pid, &st, 0); polyev("PolyUse", 0, P[i], (WIFEXITED(st) && WEXITSTATUS(st) == 0) ? ",\"outcome\":\"ok\"" : ",\"outcome\":\"signal\""); }
        { Ws w; w.la = new_LagrangeHalfCPolynomial(1024); w.lb = new_LagrangeHalfCPolynomial(1024); w.lr = new_LagrangeHalfCPolynomial(1024);
          ev_eval("lagrange_product", 0x600dULL, {(uint64_t)7000}, lagr_product(w, 7000), "main"); flush_use(); }
        std::sort(g_log.begin(), g_log.end(), [](const Rec& a, const Rec& b) { return a.seq < b.seq; });
        for (auto& rec : g_log) printf("{\"seq\":%ld,%s}\n", rec.seq, rec.json.c_str());
        fflush(stdout); return 0;
    }
    // workspaces used by the workers are allocated by the main thread, which outlives them (a Lagrange polynomial keeps a pointer to the FFT processor of the
    // thread that created it: see the probe below and defect D8, repaired by 0f4e6fe)
    for (int q = 0; q < 64; q++) { Ws w; w.la = new_LagrangeHalfCPolynomial(1024); w.lb = new_LagrangeHalfCPolynomial(1024); w.lr = new_LagrangeHalfCPolynomial(1024); S.ws.push_back(w); }
    if (vh_arg(argc, argv, "--probe", 0) == 1) {
        // probe: a polynomial created by a thread that has exited, then used by the main thread.  Events only name identities (which processor the polynomial
        // points to, who created it); the use itself runs in a child process and its outcome is recorded but not judged here.
        auto polyev = [&](const char* e, int tid, const LagrangeHalfCPolynomial* P, const char* extra) { long sq = g_seq.fetch_add(1); std::lock_guard<std::mutex> l(g_mu); char tmp[256];
            snprintf(tmp, sizeof tmp, "\"e\":\"%s\",\"tid\":%d,\"poly\":%d,\"proc\":%d%s", e, tid, idof(P), idof(P->precomp), extra); Rec r; r.seq = sq; r.json = tmp; g_log.push_back(r); };
        auto use = [&](LagrangeHalfCPolynomial* P) { fflush(stdout); pid_t pid = fork(); if (pid == 0) { signal(SIGSEGV, SIG_DFL); LagrangeHalfCPolynomialClear(P); LagrangeHalfCPolynomialAddTorusConstant(P, 12345); _exit(0); }
            int st = 0; waitpid(pid, &st, 0); char ex[64]; snprintf(ex, sizeof ex, ",\"outcome\":\"%s\"", (WIFEXITED(st) && WEXITSTATUS(st) == 0) ? "ok" : "signal"); polyev("PolyUse", 0, P, ex); };
        LagrangeHalfCPolynomial* Pm = new_LagrangeHalfCPolynomial(1024); polyev("PolyNew", 0, Pm, "");
        LagrangeHalfCPolynomial* Px = 0;
        std::thread x([&]() { t_tid = g_next_tid.fetch_add(1) + 1; { char tmp[64]; snprintf(tmp, sizeof tmp, "\"e\":\"ThreadStart\",\"tid\":%d", t_tid); logev(tmp); }
            Px = new_LagrangeHalfCPolynomial(1024); polyev("PolyNew", t_tid, Px, ""); { char tmp[96]; snprintf(tmp, sizeof tmp, "\"e\":\"ThreadEnd\",\"tid\":%d,\"decomp\":0", t_tid); logev(tmp); } });
        x.join();
        { long sq = g_seq.fetch_add(1); std::lock_guard<std::mutex> l(g_mu); Rec rr; rr.seq = sq; rr.json = "\"e\":\"Joined\",\"upto\":" + std::to_string(g_next_tid.load()); g_log.push_back(rr); }
        use(Pm);          // control: created by the main thread, which is alive
        use(Px);          // created by a thread that has exited
        std::sort(g_log.begin(), g_log.end(), [](const Rec& a, const Rec& b) { return a.seq < b.seq; });
        for (auto& rec : g_log) printf("{\"seq\":%ld,%s}\n", rec.seq, rec.json.c_str());
        fflush(stdout); return 0;
    }
    auto setup = [&]() {
    uint32_t sv[2] = {seed, 0x7eadu}; tfhe_random_generator_setSeed(sv, 2);
    S.p = new_default_gate_bootstrapping_parameters(lambda); S.sk = new_random_gate_bootstrapping_secret_keyset(S.p); S.nin = 4; S.in = new_gate_bootstrapping_ciphertext_array(S.nin, S.p);
    n = S.p->in_out_params->n;
    for (int i = 0; i < S.nin; i++) { bootsSymEncrypt(S.in + i, r.below(2), S.sk); S.inh.push_back(hLwe(S.in + i, n)); }
    S.keyh = 0x600dULL + seed;
    // inputs 0 and 1 re-randomised (same phases) so that the body of NAND's combination (1/8 - a.b - b.b) is exactly 0: the rounded body barb is 0
    { const int32_t* key = S.sk->lwe_key->key; int i = 0; while (i < n && !key[i]) i++;
      if (i < n) { uint32_t tgt[2] = {0u, (uint32_t)modSwitchToTorus32(1, 8)}; for (int q = 0; q < 2; q++) { LweSample* X = S.in + q; uint32_t d = tgt[q] - (uint32_t)X->b; X->a[i] = (Torus32)((uint32_t)X->a[i] + d); X->b = (Torus32)((uint32_t)X->b + d); S.inh[q] = hLwe(X, n); } } }
    for (unsigned ps = 7000; ps < 7004; ps++) ev_eval("lagrange_product", S.keyh, {(uint64_t)ps}, lagr_product(S.ws[0], ps), "ref");
    // sequential single-thread reference: every (gate, inputs) combination the workers may use
    { const TFheGateBootstrappingCloudKeySet* bk = &S.sk->cloud; LweSample* out = new_gate_bootstrapping_ciphertext(S.p);
      for (int a = 0; a < S.nin; a++) { tfhe_bootstrap_FFT(out, bk->bkFFT, modSwitchToTorus32(1, 4), S.in + a); ev_eval("bootstrap_FFT/4", S.keyh, {S.inh[a]}, hLwe(out, n), "ref");
        tfhe_bootstrap(out, bk->bk, modSwitchToTorus32(1, 8), S.in + a); ev_eval("bootstrap_coef/8", S.keyh, {S.inh[a]}, hLwe(out, n), "ref");
        for (int b = 0; b < S.nin; b++) { bootsNAND(out, S.in + a, S.in + b, bk); ev_eval("NAND", S.keyh, {S.inh[a], S.inh[b]}, hLwe(out, n), "ref"); bootsXOR(out, S.in + a, S.in + b, bk); ev_eval("XOR", S.keyh, {S.inh[a], S.inh[b]}, hLwe(out, n), "ref");
          bootsANDYN(out, S.in + a, S.in + b, bk); ev_eval("ANDYN", S.keyh, {S.inh[a], S.inh[b]}, hLwe(out, n), "ref"); } }
      delete_gate_bootstrapping_ciphertext(out); }
    };
    if (!helper) setup();
    else {   // the first user of the library in this process is a helper thread (key generation, reference run) that exits before any worker starts
        std::thread h([&]() { t_tid = g_next_tid.fetch_add(1) + 1; { char tmp[64]; snprintf(tmp, sizeof tmp, "\"e\":\"ThreadStart\",\"tid\":%d", t_tid); logev(tmp); }
            setup(); flush_use(); { char tmp[96]; snprintf(tmp, sizeof tmp, "\"e\":\"ThreadEnd\",\"tid\":%d,\"decomp\":%ld", t_tid, t_decomp); logev(tmp); } });
        h.join();
        long sq = g_seq.fetch_add(1); std::lock_guard<std::mutex> l(g_mu); Rec rr; rr.seq = sq; rr.json = "\"e\":\"Joined\",\"upto\":" + std::to_string(g_next_tid.load()); g_log.push_back(rr);
    }
    for (int round = 0; round < rounds; round++) for (long T : tcounts) {
        std::vector<std::thread> th;
        for (int i = 0; i < T; i++) th.emplace_back(worker, &S, seed * 1000 + round * 97 + i, count, (int)((i + round) % 4), T > 2 && i == 1);
        for (size_t i = 0; i < th.size(); i++) th[i].join();
        // every thread of this batch has been joined: ids tid_base+1 .. are done
        long s = g_seq.fetch_add(1); std::lock_guard<std::mutex> l(g_mu); Rec rr; rr.seq = s; rr.json = "\"e\":\"Joined\",\"upto\":" + std::to_string(g_next_tid.load()); g_log.push_back(rr);
    }
    int storm = vh_arg(argc, argv, "--storm", 0);
    if (storm > 0) {
        Storm B; B.arrived.store(0); B.gen.store(0); B.done.store(0); B.T = 8; std::vector<std::thread> th;
        for (int i = 0; i < B.T; i++) th.emplace_back(storm_worker, &S, &B, seed * 7919 + i, storm);
        // (two clients; many more runnable threads than cores was tried and is worse: evaluators preempted at the barrier no longer run their gates together)
        int nclients = vh_arg(argc, argv, "--clients", 2);
        for (int i = 0; i < nclients; i++) th.emplace_back(storm_client, &S, &B);
        for (size_t i = 0; i < th.size(); i++) th[i].join();
        long s2 = g_seq.fetch_add(1); std::lock_guard<std::mutex> l(g_mu); Rec rr; rr.seq = s2; rr.json = "\"e\":\"Joined\",\"upto\":" + std::to_string(g_next_tid.load()); g_log.push_back(rr);
    }
    flush_use();
    std::sort(g_log.begin(), g_log.end(), [](const Rec& a, const Rec& b) { return a.seq < b.seq; });
    for (auto& rec : g_log) printf("{\"seq\":%ld,%s}\n", rec.seq, rec.json.c_str());
    fflush(stdout);
    return 0;
}
