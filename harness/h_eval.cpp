// C15 (and the single-thread reference of C06): call every evaluation entry point, with every aliasing pattern for the gates,
// and print hashes of all inputs, keys, parameters before and after, of the output, and whether the generator moved.
#include "vh_hash.h"
#include <random>
#include <sstream>
extern std::default_random_engine generator;
static std::string rng_state() { std::ostringstream o; o << generator; return o.str(); }
static long seqno = 0;
struct Ev {
    const char* op; const char* alias; std::vector<uint64_t> ins, insa; std::vector<int> al; uint64_t key, keya, par, para, out; int rng;
    void emit() {
        VH_B; vh_i("seq", seqno++); VH_C; vh_s("e", "Eval"); VH_C; vh_s("op", op); VH_C; vh_s("alias", alias); VH_C; vh_i("tid", 0); VH_C;
        fputs("\"ins\":[", vh_out); for (size_t i = 0; i < ins.size(); i++) fprintf(vh_out, "%s[%u,%u]", i ? "," : "", (unsigned)(ins[i] & 0x7fffffff), (unsigned)((ins[i] >> 31) & 0x7fffffff)); fputs("],", vh_out);
        fputs("\"insa\":[", vh_out); for (size_t i = 0; i < insa.size(); i++) fprintf(vh_out, "%s[%u,%u]", i ? "," : "", (unsigned)(insa[i] & 0x7fffffff), (unsigned)((insa[i] >> 31) & 0x7fffffff)); fputs("],", vh_out);
        fputs("\"al\":[", vh_out); for (size_t i = 0; i < al.size(); i++) fprintf(vh_out, "%s%d", i ? "," : "", al[i]); fputs("],", vh_out);
        vh_h("key", key); VH_C; vh_h("keya", keya); VH_C; vh_h("par", par); VH_C; vh_h("para", para); VH_C; vh_h("out", out); VH_C; vh_i("rng", rng); VH_E;
    }
};
typedef void (*Bin)(LweSample*, const LweSample*, const LweSample*, const TFheGateBootstrappingCloudKeySet*);
int main(int argc, char** argv) {
    vh_init();
    int lambda = vh_arg(argc, argv, "--lambda", 128); unsigned seed = vh_arg(argc, argv, "--seed", 1); int reps = vh_arg(argc, argv, "--reps", 1);
    uint32_t sv[2] = {seed, 0xe7a1u}; tfhe_random_generator_setSeed(sv, 2);
    TFheGateBootstrappingParameterSet* p = new_default_gate_bootstrapping_parameters(lambda);
    TFheGateBootstrappingSecretKeySet* sk = new_random_gate_bootstrapping_secret_keyset(p);
    const TFheGateBootstrappingCloudKeySet* bk = &sk->cloud;
    const LweParams* lp = p->in_out_params; int n = lp->n;
    const TGswParams* gp = p->tgsw_params; const TLweParams* tp = gp->tlwe_params; const LweParams* ep = &tp->extracted_lweparams; int N = tp->N;
    LweSample* c = new_gate_bootstrapping_ciphertext_array(8, p);
    VhRng rng(seed);
    const char* names[10] = {"NAND", "OR", "AND", "XOR", "XNOR", "NOR", "ANDNY", "ANDYN", "ORNY", "ORYN"};
    Bin fns[10] = {bootsNAND, bootsOR, bootsAND, bootsXOR, bootsXNOR, bootsNOR, bootsANDNY, bootsANDYN, bootsORNY, bootsORYN};
    for (int rep = 0; rep < reps; rep++) {
        int x = rng.below(2), y = rng.below(2), z = rng.below(2);
        bootsSymEncrypt(c + 0, x, sk); bootsSymEncrypt(c + 1, y, sk); bootsSymEncrypt(c + 2, z, sk);
        // ---- binary gates: patterns none, r=a, r=b, a=b, all ----
        for (int g = 0; g < 10; g++) for (int pat = 0; pat < 5; pat++) {
            lweCopy(c + 4, c + 0, lp); lweCopy(c + 5, c + 1, lp);      // working copies A=4, B=5, R=6
            int R = pat == 1 ? 4 : pat == 2 ? 5 : pat == 4 ? 4 : 6, A = 4, B = (pat == 3 || pat == 4) ? 4 : 5;
            const char* pn[5] = {"none", "r=a", "r=b", "a=b", "all"};
            Ev e; e.op = names[g]; e.alias = pn[pat]; e.ins = {hLwe(c + A, n), hLwe(c + B, n)}; e.key = hCloud(bk); e.par = hGateParams(p);
            if (R == A) e.al.push_back(0); if (R == B) e.al.push_back(1);
            std::string r0 = rng_state();
            fns[g](c + R, c + A, c + B, bk);
            e.rng = r0 == rng_state(); e.insa = {hLwe(c + A, n), hLwe(c + B, n)}; e.keya = hCloud(bk); e.para = hGateParams(p); e.out = hLwe(c + R, n); e.emit();
        }
        // ---- MUX: none, r=a, r=b, r=c, a=b, all ----
        for (int pat = 0; pat < 6; pat++) {
            lweCopy(c + 4, c + 0, lp); lweCopy(c + 5, c + 1, lp); lweCopy(c + 7, c + 2, lp);
            int A = 4, B = 5, C = 7, R = 6; const char* pn[6] = {"none", "r=a", "r=b", "r=c", "a=b", "all"};
            if (pat == 1) R = A; if (pat == 2) R = B; if (pat == 3) R = C; if (pat == 4) B = A; if (pat == 5) { B = A; C = A; R = A; }
            Ev e; e.op = "MUX"; e.alias = pn[pat]; e.ins = {hLwe(c + A, n), hLwe(c + B, n), hLwe(c + C, n)}; e.key = hCloud(bk); e.par = hGateParams(p);
            if (R == A) e.al.push_back(0); if (R == B) e.al.push_back(1); if (R == C) e.al.push_back(2);
            std::string r0 = rng_state();
            bootsMUX(c + R, c + A, c + B, c + C, bk);
            e.rng = r0 == rng_state(); e.insa = {hLwe(c + A, n), hLwe(c + B, n), hLwe(c + C, n)}; e.keya = hCloud(bk); e.para = hGateParams(p); e.out = hLwe(c + R, n); e.emit();
        }
        // ---- NOT, COPY: none, r=a ; CONSTANT ----
        for (int g = 0; g < 2; g++) for (int pat = 0; pat < 2; pat++) {
            lweCopy(c + 4, c + 0, lp); int A = 4, R = pat ? 4 : 6;
            Ev e; e.op = g ? "COPY" : "NOT"; e.alias = pat ? "r=a" : "none"; e.ins = {hLwe(c + A, n)}; e.key = hCloud(bk); e.par = hGateParams(p); if (R == A) e.al.push_back(0);
            std::string r0 = rng_state();
            if (g) bootsCOPY(c + R, c + A, bk); else bootsNOT(c + R, c + A, bk);
            e.rng = r0 == rng_state(); e.insa = {hLwe(c + A, n)}; e.keya = hCloud(bk); e.para = hGateParams(p); e.out = hLwe(c + R, n); e.emit();
        }
        { Ev e; e.op = "CONSTANT"; e.alias = "none"; e.ins = {(uint64_t)x}; e.key = hCloud(bk); e.par = hGateParams(p); std::string r0 = rng_state(); bootsCONSTANT(c + 6, x, bk);
          e.rng = r0 == rng_state(); e.insa = e.ins; e.keya = hCloud(bk); e.para = hGateParams(p); e.out = hLwe(c + 6, n); e.emit(); }
        // ---- bootstrapping entry points, key switch, extraction ----
        Torus32 mu = modSwitchToTorus32(1, 8) + (Torus32)(rep * 12345);
        LweSample* u = new_LweSample(ep); LweSample* r = new_LweSample(lp);
        for (int v = 0; v < 4; v++) {
            bool alias = (v == 0 && rep % 2);         // tfhe_bootstrap_FFT with result == x
            LweSample* X = c + 4; lweCopy(X, c + (v % 3), lp);
            Ev e; e.op = v == 0 ? "bootstrap_FFT" : v == 1 ? "bootstrap_woKS_FFT" : v == 2 ? "bootstrap" : "bootstrap_woKS"; e.alias = alias ? "r=x" : "none";
            e.ins = {hLwe(X, n), (uint64_t)(uint32_t)mu}; e.key = hCloud(bk); e.par = hGateParams(p); if (alias) e.al.push_back(0);
            std::string r0 = rng_state();
            if (v == 0) tfhe_bootstrap_FFT(alias ? X : r, bk->bkFFT, mu, X); else if (v == 1) tfhe_bootstrap_woKS_FFT(u, bk->bkFFT, mu, X);
            else if (v == 2) tfhe_bootstrap(r, bk->bk, mu, X); else tfhe_bootstrap_woKS(u, bk->bk, mu, X);
            e.rng = r0 == rng_state(); e.insa = {hLwe(X, n), (uint64_t)(uint32_t)mu}; e.keya = hCloud(bk); e.para = hGateParams(p);
            e.out = (v == 0) ? hLwe(alias ? X : r, n) : (v == 2) ? hLwe(r, n) : hLwe(u, N * tp->k); e.emit();
        }
        { Ev e; e.op = "keyswitch"; e.alias = "none"; e.ins = {hLwe(u, N * tp->k)}; e.key = hCloud(bk); e.par = hGateParams(p); std::string r0 = rng_state();
          lweKeySwitch(r, bk->bkFFT->ks, u); e.rng = r0 == rng_state(); e.insa = {hLwe(u, N * tp->k)}; e.keya = hCloud(bk); e.para = hGateParams(p); e.out = hLwe(r, n); e.emit(); }
        // blind rotation with an arbitrary test polynomial, extraction, external products
        TorusPolynomial* v = new_TorusPolynomial(N); for (int j = 0; j < N; j++) v->coefsT[j] = (Torus32)rng.u32();
        std::vector<int32_t> bara(n); for (int i = 0; i < n; i++) bara[i] = rng.below(2 * N); int barb = rng.below(2 * N);
        for (int f = 0; f < 2; f++) {
            Ev e; e.op = f ? "blindRotateAndExtract" : "blindRotateAndExtract_FFT"; e.alias = "none"; e.ins = {hPoly(v), hmix(7, bara.data(), 4 * n), (uint64_t)barb}; e.key = hCloud(bk); e.par = hGateParams(p);
            std::string r0 = rng_state();
            if (f) tfhe_blindRotateAndExtract(u, v, bk->bk->bk, barb, bara.data(), n, gp); else tfhe_blindRotateAndExtract_FFT(u, v, bk->bkFFT->bkFFT, barb, bara.data(), n, gp);
            e.rng = r0 == rng_state(); e.insa = {hPoly(v), hmix(7, bara.data(), 4 * n), (uint64_t)barb}; e.keya = hCloud(bk); e.para = hGateParams(p); e.out = hLwe(u, N * tp->k); e.emit();
        }
        TLweSample* acc = new_TLweSample(tp); TLweSample* acc2 = new_TLweSample(tp); TLweSample* res = new_TLweSample(tp);
        for (int cc = 0; cc <= tp->k; cc++) for (int j = 0; j < N; j++) acc->a[cc].coefsT[j] = (Torus32)rng.u32(); acc->current_variance = 0;
        for (int f = 0; f < 5; f++) {
            tLweCopy(acc2, acc, tp);
            const char* on[5] = {"externMulToTLwe", "externProduct", "FFTExternMulToTLwe", "blindRotate_FFT", "extract"};
            Ev e; e.op = on[f]; e.alias = (f == 0 || f == 2 || f == 3) ? "inplace" : "none"; e.ins = {hTLwe(acc2, tp)}; if (f == 3) e.ins.push_back(hmix(7, bara.data(), 4 * n)); e.key = hCloud(bk); e.par = hGateParams(p);
            if (f == 0 || f == 2 || f == 3) e.al.push_back(0);
            std::string r0 = rng_state();
            int j = rng.below(N);
            if (f == 0) tGswExternMulToTLwe(acc2, &bk->bk->bk[3], gp); else if (f == 1) tGswExternProduct(res, &bk->bk->bk[3], acc2, gp);
            else if (f == 2) tGswFFTExternMulToTLwe(acc2, &bk->bkFFT->bkFFT[3], gp); else if (f == 3) tfhe_blindRotate_FFT(acc2, bk->bkFFT->bkFFT, bara.data(), 40, gp);
            else { e.ins.push_back((uint64_t)j); tLweExtractLweSampleIndex(u, acc2, j, ep, tp); }
            e.rng = r0 == rng_state(); e.insa = {hTLwe(acc2, tp)}; if (f == 3) e.insa.push_back(hmix(7, bara.data(), 4 * n)); if (f == 4) e.insa.push_back((uint64_t)j);
            e.keya = hCloud(bk); e.para = hGateParams(p);
            e.out = f == 1 ? hTLwe(res, tp) : f == 4 ? hLwe(u, N * tp->k) : hTLwe(acc2, tp); e.emit();
        }
        delete_TLweSample(acc); delete_TLweSample(acc2); delete_TLweSample(res); delete_TorusPolynomial(v); delete_LweSample(u); delete_LweSample(r);
    }
    // ---- the TGSW-level entry points under other layouts (l = 1, l*Bgbit = 32, Bgbit = 2, k = 2, ...): inputs, the TGSW sample and the parameters stay untouched ----
    { int lay[8][3] = {{1, 8, 1}, {1, 16, 1}, {1, 10, 2}, {2, 16, 1}, {16, 2, 1}, {4, 8, 2}, {3, 7, 1}, {2, 10, 2}};
      static char names[8][4][48];
      for (int q = 0; q < 8; q++) { int l = lay[q][0], bgb = lay[q][1], k = lay[q][2]; const int N2 = 1024;
        TLweParams* tp2 = new_TLweParams(N2, k, 0., 1.); TGswParams* gp2 = new_TGswParams(l, bgb, tp2);
        TGswSample* g = new_TGswSample(gp2); TGswSampleFFT* gf = new_TGswSampleFFT(gp2);
        for (int r = 0; r < gp2->kpl; r++) { for (int cc = 0; cc <= k; cc++) for (int j = 0; j < N2; j++) g->all_sample[r].a[cc].coefsT[j] = (Torus32)rng.u32(); g->all_sample[r].current_variance = 0; }
        tGswToFFTConvert(gf, g, gp2);
        TLweSample* x = new_TLweSample(tp2); TLweSample* x2 = new_TLweSample(tp2); TLweSample* res = new_TLweSample(tp2); IntPolynomial* dec = new_IntPolynomial_array(gp2->kpl, N2);
        for (int cc = 0; cc <= k; cc++) for (int j = 0; j < N2; j++) x->a[cc].coefsT[j] = (j % 5 == 0) ? (Torus32)(0x80000000u >> (j % 31)) : (Torus32)rng.u32(); x->current_variance = 0;
        uint64_t hp = hTGswParams(gp2, 0x33);
        for (int f = 0; f < 4; f++) {
            snprintf(names[q][f], sizeof names[q][f], "%s/l%d-b%d-k%d", f == 0 ? "externProduct" : f == 1 ? "tLweDecompH" : f == 2 ? "polyDecompH" : "FFTExternMulToTLwe", l, bgb, k);
            tLweCopy(x2, x, tp2);
            Ev e; e.op = names[q][f]; e.alias = f == 3 ? "inplace" : "none"; e.ins = {hTLwe(x2, tp2)}; e.key = f == 3 ? hTGswFFT(gf, gp2) : hTGsw(g, gp2); e.par = hp; if (f == 3) e.al.push_back(0);
            std::string r0 = rng_state();
            if (f == 0) tGswExternProduct(res, g, x2, gp2); else if (f == 1) tGswTLweDecompH(dec, x2, gp2); else if (f == 2) tGswTorus32PolynomialDecompH(dec, &x2->a[k], gp2); else tGswFFTExternMulToTLwe(x2, gf, gp2);
            e.rng = r0 == rng_state(); e.insa = {hTLwe(x2, tp2)}; e.keya = f == 3 ? hTGswFFT(gf, gp2) : hTGsw(g, gp2); e.para = hTGswParams(gp2, 0x33);
            uint64_t ho = 0x99; if (f == 0) ho = hTLwe(res, tp2); else if (f == 3) ho = hTLwe(x2, tp2); else for (int r = 0; r < (f == 1 ? gp2->kpl : l); r++) ho = hmix(ho, dec[r].coefs, 4 * (size_t)N2);
            e.out = ho; e.emit();
        }
        delete_IntPolynomial_array(gp2->kpl, dec); delete_TLweSample(x); delete_TLweSample(x2); delete_TLweSample(res); delete_TGswSampleFFT(gf); delete_TGswSample(g); delete_TGswParams(gp2); delete_TLweParams(tp2); } }
    delete_gate_bootstrapping_ciphertext_array(8, c); delete_gate_bootstrapping_secret_keyset(sk); delete_gate_bootstrapping_parameters(p);
    fflush(stdout);
    return 0;
}
