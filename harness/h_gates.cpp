// C01 / C02 / C15: execute gate programs on the real library with real keys and print one event per API call.
// Program (text, one op per line):  key <lambda> <R> <seed> | load d bit inj | gate NAME d a b c | const d v | dec r | end
#include <tfhe.h>
#include "vh.h"
#include <random>
#include <sstream>
#include <fstream>
#include <iostream>
extern std::default_random_engine generator;

static std::string rng_state() { std::ostringstream o; o << generator; return o.str(); }
static inline int q24(Torus32 x) { return x >> 8; }
struct M {
    TFheGateBootstrappingParameterSet* p = 0; TFheGateBootstrappingSecretKeySet* sk = 0; LweSample* c = 0; LweSample* triv = 0; int R = 0;
    void drop() { if (c) delete_gate_bootstrapping_ciphertext_array(R, c); if (triv) delete_gate_bootstrapping_ciphertext(triv); if (sk) delete_gate_bootstrapping_secret_keyset(sk); if (p) delete_gate_bootstrapping_parameters(p); c = triv = 0; sk = 0; p = 0; }
    void regs() { fputs("\"regs\":[", vh_out); for (int r = 0; r < R; r++) fprintf(vh_out, "%s%d", r ? "," : "", q24(lwePhase(c + r, sk->lwe_key))); fputs("]", vh_out); }
};
int main(int argc, char** argv) {
    vh_init();
    if (argc < 2) { fprintf(stderr, "usage: h_gates <program>\n"); return 2; }
    std::ifstream in(argv[1]);
    std::string line; M m; long seq = 0;
    while (std::getline(in, line)) {
        std::istringstream ls(line); std::string op; ls >> op;
        if (op == "key") {
            int lambda, R; unsigned seed; ls >> lambda >> R >> seed;
            m.drop();
            uint32_t sv[3] = {seed, (uint32_t)lambda, 0x5eedu}; tfhe_random_generator_setSeed(sv, 3);
            m.p = new_default_gate_bootstrapping_parameters(lambda); m.sk = new_random_gate_bootstrapping_secret_keyset(m.p); m.R = R;
            m.c = new_gate_bootstrapping_ciphertext_array(R, m.p); m.triv = new_gate_bootstrapping_ciphertext(m.p);
            for (int r = 0; r < R; r++) bootsCONSTANT(m.c + r, 0, &m.sk->cloud);     // registers start defined (constant 0) so that every phase is meaningful
            VH_B; vh_i("seq", seq++); VH_C; vh_s("e", "Key"); VH_C; vh_i("lambda", lambda); VH_C; vh_i("R", R); VH_C; vh_i("n", m.p->in_out_params->n); VH_E;
            for (int r = 0; r < R; r++) { VH_B; vh_i("seq", seq++); VH_C; vh_s("e", "Gate"); VH_C; vh_s("g", "CONST"); VH_C; vh_i("d", r); VH_C; vh_i("v", 0); VH_C; vh_i("a", 0); VH_C; vh_i("b", 0); VH_C; vh_i("c", 0); VH_C;
                vh_i("out", q24(lwePhase(m.c + r, m.sk->lwe_key))); VH_C; vh_i("rng", 1); VH_C; fputs("\"regs\":[", vh_out);
                for (int q = 0; q < R; q++) fprintf(vh_out, "%s%d", q ? "," : "", q <= r ? q24(lwePhase(m.c + q, m.sk->lwe_key)) : 0); fputs("],\"src\":[]", vh_out); VH_E; }
        } else if (op == "load") {
            int d, bit; long inj; ls >> d >> bit >> inj;
            bootsSymEncrypt(m.c + d, bit, m.sk);
            if (inj) { lweNoiselessTrivial(m.triv, (Torus32)(inj * 256), m.p->in_out_params); lweAddTo(m.c + d, m.triv, m.p->in_out_params); }
            VH_B; vh_i("seq", seq++); VH_C; vh_s("e", "Load"); VH_C; vh_i("d", d); VH_C; vh_i("bit", bit); VH_C; vh_i("inj", inj); VH_C; vh_i("out", q24(lwePhase(m.c + d, m.sk->lwe_key))); VH_C; vh_i("rng", 1); VH_C; m.regs(); VH_C; fputs("\"src\":[]", vh_out); VH_E;
        } else if (op == "gate" || op == "const") {
            std::string g; int d, a = 0, b = 0, c = 0, v = 0;
            if (op == "const") { g = "CONST"; ls >> d >> v; } else ls >> g >> d >> a >> b >> c;
            const TFheGateBootstrappingCloudKeySet* bk = &m.sk->cloud;
            std::string r0 = rng_state();
            LweSample *D = m.c + d, *A = m.c + a, *B = m.c + b, *C = m.c + c;
            if (g == "NAND") bootsNAND(D, A, B, bk); else if (g == "OR") bootsOR(D, A, B, bk); else if (g == "AND") bootsAND(D, A, B, bk);
            else if (g == "XOR") bootsXOR(D, A, B, bk); else if (g == "XNOR") bootsXNOR(D, A, B, bk); else if (g == "NOR") bootsNOR(D, A, B, bk);
            else if (g == "ANDNY") bootsANDNY(D, A, B, bk); else if (g == "ANDYN") bootsANDYN(D, A, B, bk); else if (g == "ORNY") bootsORNY(D, A, B, bk);
            else if (g == "ORYN") bootsORYN(D, A, B, bk); else if (g == "MUX") bootsMUX(D, A, B, C, bk); else if (g == "NOT") bootsNOT(D, A, bk);
            else if (g == "COPY") bootsCOPY(D, A, bk); else if (g == "CONST") bootsCONSTANT(D, v, bk); else { fprintf(stderr, "bad gate %s\n", g.c_str()); return 2; }
            int same = r0 == rng_state();
            VH_B; vh_i("seq", seq++); VH_C; vh_s("e", "Gate"); VH_C; vh_s("g", g.c_str()); VH_C; vh_i("d", d); VH_C; vh_i("a", a); VH_C; vh_i("b", b); VH_C; vh_i("c", c); VH_C; vh_i("v", v); VH_C;
            vh_i("out", q24(lwePhase(D, m.sk->lwe_key))); VH_C; vh_i("rng", same); VH_C; m.regs(); VH_C; fputs("\"src\":[]", vh_out); VH_E;
        } else if (op == "steer") {       // re-randomise register r without changing its phase so that its body word is v (a_i += d, b += d at a set key bit)
            int r; long long v; ls >> r >> v; LweSample* X = m.c + r; int n = m.p->in_out_params->n; int i = 0; while (i < n && !m.sk->lwe_key->key[i]) i++;
            if (i < n) { uint32_t d = (uint32_t)v - (uint32_t)X->b; X->a[i] = (Torus32)((uint32_t)X->a[i] + d); X->b = (Torus32)((uint32_t)X->b + d); }
        } else if (op == "dec") {
            int r; ls >> r;
            VH_B; vh_i("seq", seq++); VH_C; vh_s("e", "Dec"); VH_C; vh_i("r", r); VH_C; vh_i("bit", bootsSymDecrypt(m.c + r, m.sk)); VH_E;
        } else if (op == "end") {
            VH_B; vh_i("seq", seq++); VH_C; vh_s("e", "End"); VH_E;
        }
    }
    m.drop();
    fflush(stdout);
    return 0;
}
