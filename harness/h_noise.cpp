// C07: noise level and mask freshness of fresh ciphertexts and generated key rows; determinism of the library generator.
// Errors are printed in units of alpha/64 (so that every stream has nominal standard deviation 64), batched.
#include "vh_hash.h"
#include <polynomials_arithmetic.h>
#include <random>
#include <sstream>
#include <cmath>
extern std::default_random_engine generator;
static uint64_t tok() { std::ostringstream o; o << generator; std::string s = o.str(); return hmix(0x70, s.data(), s.size()); }
static long seqn = 0;
struct Stream {
    std::string name; double alpha; std::vector<long> batch; long hist[16]; long nmask; long zeros; std::vector<uint32_t> prev; long same, npairs; int32_t preverr; bool haveprev; long sameerr;
    Stream(const std::string& n, double a) : name(n), alpha(a), nmask(0), zeros(0), same(0), npairs(0), preverr(0), haveprev(false), sameerr(0) { memset(hist, 0, sizeof hist); }
    // per-coordinate freshness: a coordinate that equals the same coordinate of the previous mask (probability 2^-32 for a fresh uniform mask)
    void maskvec(const Torus32* a, int n) { if ((int)prev.size() == n) { for (int i = 0; i < n; i++) if ((uint32_t)a[i] == prev[i]) same++; npairs += n; } prev.assign((const uint32_t*)a, (const uint32_t*)a + n); }
    // freshness of the noise itself: an error equal to the previous one of the stream (probability about 0.28 / (alpha 2^32) for independent draws)
    void err(int32_t e) { if (haveprev && e == preverr) sameerr++; preverr = e; haveprev = true; if (e == 0) zeros++; if (alpha == 0) batch.push_back(e); else batch.push_back(lround((double)e / (alpha * 4294967296.0 / 64.0))); if (batch.size() >= 64) flush(); }
    void mask(uint32_t w) { hist[w >> 28]++; nmask++; }
    void flush() { if (batch.empty()) return; VH_B; vh_i("seq", seqn++); VH_C; vh_s("e", "Errs"); VH_C; vh_s("s", name.c_str()); VH_C; fputs("\"v\":[", vh_out); for (size_t i = 0; i < batch.size(); i++) fprintf(vh_out, "%s%ld", i ? "," : "", batch[i]); fputs("]", vh_out); VH_E; batch.clear(); }
    void end() { flush(); long s32 = alpha == 0 ? 0 : lround(alpha * 4294967296.0); if (s32 > 2000000000L) s32 = 2000000000L;
        VH_B; vh_i("seq", seqn++); VH_C; vh_s("e", "StreamEnd"); VH_C; vh_s("s", name.c_str()); VH_C; vh_i("s32", s32); VH_C; vh_i("exact", alpha == 0 ? 1 : 0); VH_C; fputs("\"hist\":[", vh_out); for (int i = 0; i < 16; i++) fprintf(vh_out, "%s%ld", i ? "," : "", hist[i]); fprintf(vh_out, "],\"nmask\":%ld,\"same\":%ld,\"npairs\":%ld,\"zeros\":%ld,\"sameerr\":%ld", nmask, same, npairs, zeros, sameerr); VH_E; }
};
static std::string fmt(const char* f, double a, int x = 0) { char b[96]; snprintf(b, sizeof b, f, a, x); return b; }
static void rand_ev(const char* op, uint64_t t0, uint64_t args, uint64_t out) {
    VH_B; vh_i("seq", seqn++); VH_C; vh_s("e", "Rand"); VH_C; vh_s("op", op); VH_C; vh_h("tok", t0); VH_C; vh_h("args", args); VH_C; vh_h("out", out); VH_C; vh_h("toka", tok()); VH_E;
}
static void seed_ev(unsigned s) { uint32_t v[3] = {s, 0xc07u, 5u}; tfhe_random_generator_setSeed(v, 3); VH_B; vh_i("seq", seqn++); VH_C; vh_s("e", "Seed"); VH_C; vh_i("v", s); VH_C; vh_h("toka", tok()); VH_E; }

// ---- generator: same seed twice, different seeds, repeated encryptions; odd and even numbers of Gaussian draws before re-seeding ----
static void determinism(unsigned seed) {
    LweParams* lp = new_LweParams(40, 1e-5, 0.01); LweKey* k = new_LweKey(lp); LweSample* c = new_LweSample(lp);
    TLweParams* tp = new_TLweParams(1024, 1, 1e-8, 0.01); TLweKey* tk = new_TLweKey(tp); TLweSample* tc = new_TLweSample(tp);
    unsigned seeds[5] = {seed, seed, seed + 1, seed, seed + 1};
    for (int round = 0; round < 5; round++) {
        int nenc = 1 + (round % 3);                       // 1, 2, 3 encryptions: odd and even numbers of draws before the next re-seed
        seed_ev(seeds[round]);
        uint64_t t0 = tok(); lweKeyGen(k); rand_ev("lweKeyGen", t0, 40, hmix(1, k->key, 160));
        for (int q = 0; q < nenc + 2; q++) { t0 = tok(); lweSymEncrypt(c, (Torus32)0x20000000, 1e-5, k); rand_ev("lweSymEncrypt", t0, 0x20000000u + 40, hLwe(c, 40)); }      // the same message repeatedly
        t0 = tok(); tLweKeyGen(tk); rand_ev("tLweKeyGen", t0, 1024, hmix(2, tk->key[0].coefs, 4096));
        t0 = tok(); tLweSymEncryptT(tc, (Torus32)0x10000000, 1e-8, tk); rand_ev("tLweSymEncryptT", t0, 0x10000000u, hTLwe(tc, tp));
        if (round >= 3) {     // a complete gate key set from this point of the stream
            TFheGateBootstrappingParameterSet* p = new_default_gate_bootstrapping_parameters(80); t0 = tok(); TFheGateBootstrappingSecretKeySet* sk = new_random_gate_bootstrapping_secret_keyset(p);
            uint64_t h = hmix(3, sk->lwe_key->key, 4 * 500); h = hKS(sk->cloud.bk->ks, h); h = hTGsw(&sk->cloud.bk->bk[7], p->tgsw_params, h); rand_ev("gate_keyset80", t0, 80, h);
            LweSample* b = new_gate_bootstrapping_ciphertext(p); t0 = tok(); bootsSymEncrypt(b, 1, sk); rand_ev("bootsSymEncrypt", t0, 1, hLwe(b, 500));
            delete_gate_bootstrapping_ciphertext(b); delete_gate_bootstrapping_secret_keyset(sk); delete_gate_bootstrapping_parameters(p);
        }
    }
    delete_LweSample(c); delete_LweKey(k); delete_LweParams(lp); delete_TLweSample(tc); delete_TLweKey(tk); delete_TLweParams(tp);
}
// ---- fresh samples over a sweep of noise levels ----
static void fresh(int per) {
    double alphas[7] = {ldexp(1., -30), ldexp(1., -25), ldexp(1., -20), ldexp(1., -15), ldexp(1., -10), ldexp(1., -5), 0.0};
    const int n = 500;
    LweParams* lp = new_LweParams(n, 0, 1); LweKey* k = new_LweKey(lp); lweKeyGen(k); LweSample* c = new_LweSample(lp);
    { long ones = 0; for (int i = 0; i < n; i++) ones += k->key[i]; VH_B; vh_i("seq", seqn++); VH_C; vh_s("e", "KeyBits"); VH_C; vh_s("s", "lwe500"); VH_C; vh_i("ones", ones); VH_C; vh_i("n", n); VH_E; }
    for (int ai = 0; ai < 7; ai++) { Stream s(fmt("lwe/a%.3g", alphas[ai]), alphas[ai]);
        for (int q = 0; q < per; q++) { Torus32 mu = (Torus32)(q * 0x01234567u); lweSymEncrypt(c, mu, alphas[ai], k); s.err(lwePhase(c, k) - mu); for (int i = 0; i < 8; i++) s.mask((uint32_t)c->a[(q * 8 + i) % n]); s.maskvec(c->a, n); }
        s.end(); }
    // noise levels closer to each other than 1e-9, and 0 right after a tiny one: the sampler has no memory of the level it was asked for last
    // (a level far away first, so that the tiny one is really the level asked for last; then levels 1.5x apart, each measured on its own)
    { double close[10] = {ldexp(1., -20), ldexp(1., -31), 0.0, ldexp(1., -20), ldexp(1., -30), ldexp(1., -31), 0.0, ldexp(1., -15), 1.5 * ldexp(1., -15), ldexp(1., -15)};
      for (int ci = 0; ci < 10; ci++) { Stream s(fmt("lwe/close-a%.3g/%d", close[ci], ci), close[ci]);
        for (int q = 0; q < per; q++) { Torus32 mu = (Torus32)(q * 0x02468acfu); lweSymEncrypt(c, mu, close[ci], k); s.err(lwePhase(c, k) - mu); for (int i = 0; i < 8; i++) s.mask((uint32_t)c->a[(q * 8 + i) % n]); s.maskvec(c->a, n); }
        s.end(); } }
    // other dimensions, odd ones and 1 included: every coordinate of every mask is fresh, the noise level does not depend on the dimension
    { int dims[5] = {1, 7, 64, 501, 631};
      for (int di = 0; di < 5; di++) { int nn = dims[di]; LweParams* lp2 = new_LweParams(nn, 0, 1); LweKey* k2 = new_LweKey(lp2); lweKeyGen(k2); LweSample* c2 = new_LweSample(lp2); double al = ldexp(1., -15 - di);
        Stream s(fmt("lwe/n%.0f", (double)nn), al);
        for (int q = 0; q < per / 2 + 600; q++) { Torus32 mu = (Torus32)(q * 0x01234567u); if (q % 2) lweSymEncrypt(c2, mu, al, k2); else lweSymEncryptWithExternalNoise(c2, mu, 0., al, k2);
            if (q % 2) s.err(lwePhase(c2, k2) - mu); for (int i = 0; i < 4; i++) s.mask((uint32_t)c2->a[(q * 4 + i) % nn]); s.maskvec(c2->a, nn); }
        s.end(); delete_LweSample(c2); delete_LweKey(k2); delete_LweParams(lp2); }
      // the external-noise entry point with messages at and next to 1/2 (the torus wraps there) and noise of either sign supplied by the caller
      { LweParams* lp3 = new_LweParams(33, 0, 1); LweKey* k3 = new_LweKey(lp3); lweKeyGen(k3); LweSample* c3 = new_LweSample(lp3); double al = ldexp(1., -14);
        std::mt19937 own(12345u); std::normal_distribution<double> nd(0., al); uint32_t msgs[4] = {0x80000000u, 0x7fffffffu, 0x80000001u, 0u};
        Stream s("lwe-ext/half", al);
        for (int q = 0; q < per / 2 + 600; q++) { Torus32 mu = (Torus32)msgs[q % 4]; lweSymEncryptWithExternalNoise(c3, mu, nd(own), al, k3); s.err(lwePhase(c3, k3) - mu); s.mask((uint32_t)c3->a[q % 33]); s.mask((uint32_t)c3->a[(q * 7 + 3) % 33]); s.maskvec(c3->a, 33); }
        s.end(); delete_LweSample(c3); delete_LweKey(k3); delete_LweParams(lp3); }
      // a key-switching key with odd output dimension from the public generator: rows are fresh encryptions under the output key
      LweParams* pi = new_LweParams(40, 0, 1); LweParams* po = new_LweParams(33, ldexp(1., -20), 1); LweKey* ki = new_LweKey(pi); LweKey* ko = new_LweKey(po); lweKeyGen(ki); lweKeyGen(ko);
      LweKeySwitchKey* ks = new_LweKeySwitchKey(40, 6, 2, po); lweCreateKeySwitchKey(ks, ki, ko);
      Stream s("ks/custom33", ldexp(1., -20));
      for (int i = 0; i < 40; i++) for (int j = 0; j < 6; j++) for (int h = 1; h < 4; h++) { const LweSample& r = ks->ks[i][j][h]; Torus32 msg = (Torus32)((uint32_t)(ki->key[i] * h) << (32 - (j + 1) * 2));
          s.err(lwePhase(&r, ko) - msg); s.mask((uint32_t)r.a[(i + j + h) % 33]); s.mask((uint32_t)r.a[(i * 7 + j + h) % 33]); s.maskvec(r.a, 33); }
      s.end(); delete_LweKeySwitchKey(ks); delete_LweKey(ki); delete_LweKey(ko); delete_LweParams(pi); delete_LweParams(po); }
    // key-switching keys with few rows per input coefficient (t*(base-1) = 1, 2, 3, 4): every row still carries the full noise level, and the noise of the rows
    // that belong to one input coefficient does not cancel (the generator centres the noise vector over the whole key, not per coefficient)
    { const int lay[4][3] = {{1400, 1, 1}, {3000, 2, 1}, {3000, 1, 2}, {4000, 4, 1}};
      for (int q = 0; q < 4; q++) { int nin = lay[q][0], t = lay[q][1], bb = lay[q][2], base = 1 << bb; double al = ldexp(1., -20);
        LweParams* pi = new_LweParams(nin, 0, 1); LweParams* po = new_LweParams(9, al, 1); LweKey* ki = new_LweKey(pi); LweKey* ko = new_LweKey(po); lweKeyGen(ki); lweKeyGen(ko);
        LweKeySwitchKey* ks = new_LweKeySwitchKey(nin, t, bb, po); lweCreateKeySwitchKey(ks, ki, ko);
        Stream s(fmt("ks/t%.0fb%d", (double)t, bb), al); Stream sb(fmt("ksblock/t%.0fb%d", (double)t, bb), al * sqrt((double)(t * (base - 1))));
        for (int i = 0; i < nin; i++) { int32_t sum = 0;
            for (int j = 0; j < t; j++) for (int h = 1; h < base; h++) { const LweSample& r = ks->ks[i][j][h]; Torus32 msg = (Torus32)((uint32_t)(ki->key[i] * h) << (32 - (j + 1) * bb));
                int32_t e = lwePhase(&r, ko) - msg; s.err(e); sum += e; s.mask((uint32_t)r.a[(i + j + h) % 9]); if (i % 8 == 0) s.maskvec(r.a, 9); }
            if (t * (base - 1) > 1) { sb.err(sum); sb.mask((uint32_t)ks->ks[i][0][1].a[i % 9]); } }
        s.end(); if (t * (base - 1) > 1) sb.end();
        delete_LweKeySwitchKey(ks); delete_LweKey(ki); delete_LweKey(ko); delete_LweParams(pi); delete_LweParams(po); } }
    TLweParams* tp = new_TLweParams(1024, 1, 0, 1); TLweKey* tk = new_TLweKey(tp); tLweKeyGen(tk); TLweSample* tc = new_TLweSample(tp); TorusPolynomial* ph = new_TorusPolynomial(1024);
    { long ones = 0; for (int i = 0; i < 1024; i++) ones += tk->key[0].coefs[i]; VH_B; vh_i("seq", seqn++); VH_C; vh_s("e", "KeyBits"); VH_C; vh_s("s", "tlwe1024"); VH_C; vh_i("ones", ones); VH_C; vh_i("n", 1024); VH_E; }
    for (int ai = 1; ai < 7; ai++) { Stream s(fmt("tlwe/a%.3g", alphas[ai]), alphas[ai]);
        for (int q = 0; q < (per + 1023) / 1024 + 1; q++) { tLweSymEncryptT(tc, (Torus32)0x30000000, alphas[ai], tk); tLwePhase(ph, tc, tk); ph->coefsT[0] -= (Torus32)0x30000000;
            for (int i = 0; i < 1024; i++) { s.err(ph->coefsT[i]); if (i % 16 == 0) s.mask((uint32_t)tc->a[0].coefsT[i]); } }
        s.end(); }
    TGswParams* gp = new_TGswParams(3, 7, tp); TGswKey gk(gp); for (int i = 0; i < 1024; i++) gk.key[0].coefs[i] = tk->key[0].coefs[i];
    TGswSample* g = new_TGswSample(gp);
    for (int ai = 1; ai < 4; ai++) { Stream s(fmt("tgsw/a%.3g", alphas[ai]), alphas[ai]);
        int m = 1 - 2 * (ai % 2); tGswSymEncryptInt(g, m, alphas[ai], &gk);
        for (int r = 0; r < gp->kpl; r++) { tLwePhase(ph, &g->all_sample[r], &gk.tlwe_key); int c = r / gp->l, p = r % gp->l;
            if (c == 1) ph->coefsT[0] -= m * gp->h[p]; else for (int i = 0; i < 1024; i++) ph->coefsT[i] += m * gp->h[p] * gk.key[0].coefs[i];      // phase of the message part: m*h on the body, -m*h*s on a mask row
            for (int i = 0; i < 1024; i++) { s.err(ph->coefsT[i]); if (i % 32 == 0) s.mask((uint32_t)g->all_sample[r].a[0].coefsT[i]); } }
        s.end(); }
    delete_TGswSample(g); delete_TorusPolynomial(ph); delete_TLweSample(tc); delete_TLweKey(tk); delete_LweSample(c); delete_LweKey(k);
}
// ---- every row of the generated key-switching key, a sample of bootstrapping-key rows; for both default sets generated in one process ----
static void keyrows(int lambda, int bkrows) {
    TFheGateBootstrappingParameterSet* p = new_default_gate_bootstrapping_parameters(lambda);
    TFheGateBootstrappingSecretKeySet* sk = new_random_gate_bootstrapping_secret_keyset(p);
    const LweKeySwitchKey* ks = sk->cloud.bk->ks; int n = p->in_out_params->n; double aks = p->in_out_params->alpha_min, abk = p->tgsw_params->tlwe_params->alpha_min;
    LweKey* xk = new_LweKey(&p->tgsw_params->tlwe_params->extracted_lweparams); tLweExtractKey(xk, &sk->tgsw_key->tlwe_key);
    Stream s(fmt("ks/lambda%.0f", (double)lambda), aks); long nontrivial0 = 0, rows0 = 0;
    Stream sb(fmt("ksblock/lambda%.0f", (double)lambda), aks * sqrt((double)(ks->t * (ks->base - 1)))); std::vector<int32_t> bsum(ks->n, 0);
    for (int i = 0; i < ks->n; i++) for (int j = 0; j < ks->t; j++) { const LweSample& z = ks->ks[i][j][0]; rows0++; bool triv = z.b == 0; for (int q = 0; q < n && triv; q++) if (z.a[q]) triv = false; if (!triv) nontrivial0++;
        for (int h = 1; h < ks->base; h++) { const LweSample& r = ks->ks[i][j][h]; Torus32 msg = (Torus32)((uint32_t)(xk->key[i] * h) << (32 - (j + 1) * ks->basebit)); { int32_t e = lwePhase(&r, sk->lwe_key) - msg; s.err(e); bsum[i] += e; } s.mask((uint32_t)r.a[(i + j + h) % n]); if ((i + j) % 16 == 0) s.maskvec(r.a, n); } }
    s.end();
    for (int i = 0; i < ks->n; i++) { sb.err(bsum[i]); sb.mask((uint32_t)ks->ks[i][0][1].a[i % n]); } sb.end();          // the noise of the rows of one input coefficient does not cancel
    VH_B; vh_i("seq", seqn++); VH_C; vh_s("e", "Digit0"); VH_C; vh_s("s", s.name.c_str()); VH_C; vh_i("rows", rows0); VH_C; vh_i("nontrivial", nontrivial0); VH_E;
    { long ones = 0; for (int i = 0; i < n; i++) ones += sk->lwe_key->key[i]; VH_B; vh_i("seq", seqn++); VH_C; vh_s("e", "KeyBits"); VH_C; vh_s("s", fmt("lwekey/lambda%.0f", (double)lambda).c_str()); VH_C; vh_i("ones", ones); VH_C; vh_i("n", n); VH_E; }
    Stream b(fmt("bk/lambda%.0f", (double)lambda), abk); const TGswParams* gp = p->tgsw_params; TorusPolynomial* ph = new_TorusPolynomial(1024); VhRng r(lambda);
    for (int q = 0; q < bkrows; q++) { int i = r.below(n), row = r.below(gp->kpl); const TLweSample* rs = &sk->cloud.bk->bk[i].all_sample[row]; tLwePhase(ph, rs, &sk->tgsw_key->tlwe_key); int c = row / gp->l, pp = row % gp->l; int m = sk->lwe_key->key[i];
        if (c == 1) ph->coefsT[0] -= m * gp->h[pp]; else for (int u = 0; u < 1024; u++) ph->coefsT[u] += m * gp->h[pp] * sk->tgsw_key->key[0].coefs[u];
        for (int u = 0; u < 1024; u++) { b.err(ph->coefsT[u]); if (u % 64 == 0) b.mask((uint32_t)rs->a[0].coefsT[u]); } }
    b.end();
    delete_TorusPolynomial(ph); delete_LweKey(xk); delete_gate_bootstrapping_secret_keyset(sk); delete_gate_bootstrapping_parameters(p);
}
int main(int argc, char** argv) {
    vh_init();
    unsigned seed = vh_arg(argc, argv, "--seed", 1); int per = vh_arg(argc, argv, "--per", 2048), bkrows = vh_arg(argc, argv, "--bkrows", 24);
    determinism(seed);
    seed_ev(seed + 77);
    fresh(per);
    for (long lam : vh_list(vh_sarg(argc, argv, "--lambdas", "80,128"))) keyrows((int)lam, bkrows);
    fflush(stdout);
    return 0;
}
