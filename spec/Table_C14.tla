----------------------------- MODULE Table_C14 -----------------------------
(* Rows printed by harness/h_lwe.cpp (modes lwe, tlwe, extract) validated against LweScheme / Ring at full width (C14). *)
EXTENDS Table, Word32
VARIABLE i
Init == i \in 1..NRows
Next == UNCHANGED i
Spec == Init /\ [][Next]_i
R == Rows[i]
Wd(p) == [h |-> p[1], l |-> p[2]]
Tm(t) == [pos |-> t[1], v |-> [h |-> t[2], l |-> t[3]]]

(* ---- LWE: a sample is the list a[1..n] ++ <<b>> ---- *)
Phase32(c, key, n) == WSub(Wd(c[n + 1]), WSum([q \in 1..n |-> IF key[q] = 1 THEN Wd(c[q]) ELSE WZero]))
LweExp(f, r, s, p, mu, q, n) ==          \* expected word at position q (1..n mask, n+1 = b); the operations of LweScheme at full width
    CASE f = "clear"    -> WZero
      [] f = "copy"     -> s
      [] f = "negate"   -> WNeg(s)
      [] f = "trivial"  -> IF q = n + 1 THEN mu ELSE WZero
      [] f = "addto"    -> WAdd(r, s)
      [] f = "subto"    -> WSub(r, s)
      [] f = "addmulto" -> WAdd(r, WMul(p, s))
      [] f = "submulto" -> WSub(r, WMul(p, s))
      [] f = "subto_alias" -> WZero
      [] f = "addto_alias" -> WAdd(r, r)
      [] f = "negate_alias" -> WNeg(r)
      [] f = "copy_alias" -> r
VarExp(f, ps) == CASE f \in {"clear", "trivial"} -> 0 [] f \in {"copy", "negate"} -> 1 [] f \in {"addto", "subto"} -> 8
                   [] f \in {"addmulto", "submulto"} -> 7 + ps * ps [] f \in {"subto_alias", "addto_alias"} -> 14 [] f \in {"negate_alias", "copy_alias"} -> 7
RowLwe == LET n == R.n IN
    /\ Len(R.out) = n + 1 /\ Len(R.key) = n
    /\ \A q \in 1..(n + 1) : Wd(R.out[q]) = LweExp(R.f, Wd(R.r0[q]), Wd(R.s[q]), R.p, R.mu, q, n)       \* coefficient-wise, hence for every key
    /\ R.can = 0                                                                                          \* nothing written outside the arrays
    /\ Wd(R.ph[1]) = Phase32(R.r0, R.key, n) /\ Wd(R.ph[2]) = Phase32(R.s, R.key, n) /\ Wd(R.ph[3]) = Phase32(R.out, R.key, n)   \* lwePhase itself
    /\ (R.pok = 1 => R.vo = VarExp(R.f, R.ps))                                                            \* variance annotation
    \* the property as stated, on the phases the library reports
    /\ CASE R.f = "addto" -> Wd(R.ph[3]) = WAdd(Wd(R.ph[1]), Wd(R.ph[2]))
         [] R.f = "subto" -> Wd(R.ph[3]) = WSub(Wd(R.ph[1]), Wd(R.ph[2]))
         [] R.f = "addmulto" -> Wd(R.ph[3]) = WAdd(Wd(R.ph[1]), WMul(R.p, Wd(R.ph[2])))
         [] R.f = "submulto" -> Wd(R.ph[3]) = WSub(Wd(R.ph[1]), WMul(R.p, Wd(R.ph[2])))
         [] R.f = "negate" -> Wd(R.ph[3]) = WNeg(Wd(R.ph[2]))
         [] R.f = "negate_alias" -> Wd(R.ph[3]) = WNeg(Wd(R.ph[1]))
         [] R.f = "copy_alias" -> R.ph[3] = R.ph[1]
         [] R.f = "copy" -> R.ph[3] = R.ph[2]
         [] R.f = "clear" -> Wd(R.ph[3]) = WZero
         [] R.f = "trivial" -> Wd(R.ph[3]) = R.mu
         [] OTHER -> TRUE

(* ---- TLWE: (k+1)*N words, component c at [c*N+1 .. c*N+N] ---- *)
Sg(j, a, n, w) == IF ((j + a) \div n) % 2 = 0 THEN w ELSE WNeg(w)
TlweExp(f, q) == LET N == R.N  c == (q - 1) \div N  j == (q - 1) % N  r == Wd(R.r0[q])  s == Wd(R.s[q]) IN
    CASE f = "clear"    -> WZero
      [] f = "copy"     -> s
      [] f = "trivial"  -> IF c = R.kk THEN Wd(R.mu[j + 1]) ELSE WZero
      [] f = "trivialT" -> IF c = R.kk /\ j = 0 THEN Wd(R.mu[1]) ELSE WZero
      [] f = "addto"    -> WAdd(r, s)
      [] f = "subto"    -> WSub(r, s)
      [] f = "addmulto" -> WAdd(r, WMul(R.p, s))
      [] f = "submulto" -> WSub(r, WMul(R.p, s))
      [] f = "xaim1"    -> LET src == (j - R.a) % N  IN WSub(Sg(src, R.a, N, Wd(R.s[c * N + src + 1])), s)      \* (X^a - 1) * s, component-wise
      [] f = "addtto"   -> IF c = R.pos /\ j = 0 THEN WAdd(r, Wd(R.mu[1])) ELSE r
TVarExp(f, ps) == CASE f \in {"clear", "trivial", "trivialT"} -> 0 [] f = "copy" -> 1 [] f \in {"addto", "subto"} -> 8
                    [] f \in {"addmulto", "submulto"} -> 7 + ps * ps [] OTHER -> 7
RowTlwe == /\ Len(R.out) = (R.kk + 1) * R.N
           /\ \A q \in 1..Len(R.out) : Wd(R.out[q]) = TlweExp(R.f, q)
           /\ (R.pok = 1 => R.vo = TVarExp(R.f, R.ps))

(* ---- extraction: phase of the extracted sample under the extracted key = coefficient j of the TLWE phase ---- *)
RowExtKey == \A q \in 1..(R.kk * R.N) : R.lk[q] = R.tk[q]
\* index form of the definition: out.a[c*N + m] = x_c[j-m] (m <= j), -x_c[N+j-m] (m > j); out.b = x_k[j]
ExtExpDense(q) == LET N == R.N  c == (q - 1) \div N  m == (q - 1) % N IN
    IF c = R.kk THEN (IF m = 0 THEN Wd(R.x[R.kk * N + R.j + 1]) ELSE WZero)
    ELSE IF m <= R.j THEN Wd(R.x[c * N + R.j - m + 1]) ELSE WNeg(Wd(R.x[c * N + N + R.j - m + 1]))
\* coefficient j of the negacyclic product key_c * x_c   (key bits)
PhaseCoef(c, j) == LET N == R.N IN WSum([t1 \in 1..N |-> LET t == t1 - 1 IN
                        IF R.tk[c * N + t + 1] = 0 THEN WZero
                        ELSE IF t <= j THEN Wd(R.x[c * N + j - t + 1]) ELSE WNeg(Wd(R.x[c * N + N + j - t + 1]))])
RowExtD == LET N == R.N  n == R.kk * N IN
    /\ Len(R.out) = n + 1 /\ R.can = 0 /\ R.j \in 0..(N - 1)
    /\ \A q \in 1..n : Wd(R.out[q]) = ExtExpDense(q)
    /\ Wd(R.out[n + 1]) = Wd(R.x[R.kk * N + R.j + 1])
    \* as stated: LWE phase under the extracted key (= tk flattened, checked by RowExtKey) equals coefficient j of the TLWE phase
    /\ Phase32(R.out, R.tk, n) = WSub(Wd(R.x[R.kk * N + R.j + 1]), WSum([c1 \in 1..R.kk |-> PhaseCoef(c1 - 1, R.j)]))
SpAt(terms, t) == WSum([q \in 1..Len(terms) |-> IF terms[q][1] = t THEN Tm(terms[q]).v ELSE WZero])
RowExtS == LET N == R.N  n == R.kk * N
               cand == {R.out[q][1] : q \in 1..Len(R.out)} \cup
                       {LET c == R.x[q][1] \div N  s == R.x[q][1] % N IN IF c = R.kk THEN n ELSE c * N + ((R.j - s) % N) : q \in 1..Len(R.x)}
           IN /\ R.can = 0
              /\ \A pos \in cand : pos \in 0..n /\
                   SpAt(R.out, pos) = IF pos = n THEN SpAt(R.x, R.kk * N + R.j)
                                      ELSE LET c == pos \div N  m == pos % N IN
                                           IF m <= R.j THEN SpAt(R.x, c * N + R.j - m) ELSE WNeg(SpAt(R.x, c * N + N + R.j - m))
RowOK == CASE R.k = "lwe" -> RowLwe [] R.k = "tlwe" -> RowTlwe [] R.k = "extkey" -> RowExtKey [] R.k = "extd" -> RowExtD [] R.k = "exts" -> RowExtS [] OTHER -> FALSE
=============================================================================
