--------------------------- MODULE Trace_MachineP ---------------------------
(***************************************************************************)
(* Validation of recorded executions of the real gate API (events printed  *)
(* by harness/h_gates.cpp at the return of each call) against MachineP.    *)
(* One event = one MachineP action with the output bound to the logged     *)
(* phase; all other registers must be bit-identical (frame); the source    *)
(* phases are those of the previous events (continuity); the library's     *)
(* random generator must be unchanged by every evaluation.  The invariants *)
(* Correct and Admissible of MachineP are evaluated in every state.        *)
(* Noise statistics of every bootstrapped output are accumulated as state. *)
(***************************************************************************)
EXTENDS MachineP, TraceStats, Sequences, Json, IOUtils
VARIABLES l,          \* position in the trace
          depth,      \* ghost: gate depth of each register since its load
          noisy,      \* ghost: register was loaded with an injected error
          stats,      \* stats[family][class]
          lambda,     \* parameter set of the current segment
          verdict     \* conjunction of the per-segment statistical acceptance predicates
tvars == <<reg, plain, l, depth, noisy, stats, lambda, verdict>>
Tr == ndJsonDeserialize(IOEnv.TRACE)
Ev == Tr[l]
BitOf(ph) == IF ph >= 0 THEN 1 ELSE 0
RecOf(ph) == [bit |-> BitOf(ph), err |-> ph - Enc(BitOf(ph)), def |-> TRUE]
Undef == [bit |-> 0, err |-> 0, def |-> FALSE]
Fams == {"bin", "mux"}
Classes == {"fresh", "deep", "noisy", "mid"}
Lambdas == {80, 128}
Stats0 == [lm \in Lambdas |-> [f \in Fams |-> [c \in Classes |-> St0]]]
TInit == /\ l = 1 /\ reg = [r \in Regs |-> Undef] /\ plain = [r \in Regs |-> 0]
         /\ depth = [r \in Regs |-> 0] /\ noisy = [r \in Regs |-> FALSE] /\ stats = Stats0 /\ lambda = 0 /\ verdict = TRUE

\* frame: every register other than the destination still has the phase the model holds for it
Frame(d) == /\ Ev.rng = 1
            /\ IF Len(Ev.regs) > 0
               THEN /\ \A r \in Regs \ {d} : Def(r) => Ev.regs[r + 1] = Phase(r)
                    /\ Ev.regs[d + 1] = Ev.out
               ELSE \* events recorded by the LD_PRELOAD shim from an unmodified program: only the sources' phases before the call are known
                    \A k \in 1..Len(Ev.src) : Def(Ev.src[k][1]) /\ Phase(Ev.src[k][1]) = Ev.src[k][2]
ClassOf(srcs) == IF \E s \in srcs : noisy[s] THEN "noisy"
                 ELSE IF \A s \in srcs : depth[s] = 0 THEN "fresh"
                 ELSE IF \E s \in srcs : depth[s] >= 10 THEN "deep" ELSE "mid"
MaxDepth(srcs) == CHOOSE m \in {depth[s] : s \in srcs} : \A s \in srcs : depth[s] <= m
E14(ph) == (ph - Enc(BitOf(ph))) \div 1024                                    \* output error in units of 2^-14

\* ---- acceptance regions of C02 (bounds in units of 2^-14; squares in 2^-28) ----
\* bound(params): 0.0037 (128-bit set), 0.0047 (80-bit set), x1.35 for MUX, in units of 2^-14 (rounded up) and their squares
B2(lm, fam)  == IF lm = 128 THEN (IF fam = "bin" THEN 3676 ELSE 6699) ELSE (IF fam = "bin" THEN 5931 ELSE 10808)
B1(lm, fam)  == IF lm = 128 THEN (IF fam = "bin" THEN 61 ELSE 82) ELSE (IF fam = "bin" THEN 78 ELSE 104)
Pool(lm, f)  == LET s == stats[lm][f] IN
            [n  |-> s["fresh"].n + s["deep"].n + s["noisy"].n + s["mid"].n,
             s1 |-> s["fresh"].s1 + s["deep"].s1 + s["noisy"].s1 + s["mid"].s1,
             s2 |-> s["fresh"].s2 + s["deep"].s2 + s["noisy"].s2 + s["mid"].s2,
             mx |-> 0]
SegmentOK == \A lm \in Lambdas, f \in Fams : LET s == stats[lm][f] IN
    /\ SdAtMost(Pool(lm, f), B2(lm, f)) /\ MeanSmall(Pool(lm, f), B1(lm, f))
    /\ \A c \in Classes : SdAtMost(s[c], B2(lm, f)) /\ MeanSmall(s[c], B1(lm, f))
    /\ SameVar(s["fresh"], s["deep"]) /\ SameVar(s["fresh"], s["noisy"]) /\ SameVar(s["deep"], s["noisy"])

TKey == /\ Ev.e = "Key"
        /\ Ev.lambda \in Lambdas /\ lambda' = Ev.lambda /\ UNCHANGED <<stats, verdict>>
        /\ reg' = [r \in Regs |-> Undef] /\ plain' = [r \in Regs |-> 0] /\ depth' = [r \in Regs |-> 0] /\ noisy' = [r \in Regs |-> FALSE]
Summary(lm, f) == LET p == Pool(lm, f) IN IF p.n = 0 THEN <<0, 0, 0>> ELSE <<p.n, Mean(p), Var(p)>>
TEnd == /\ Ev.e = "End" /\ verdict' = (verdict /\ SegmentOK)
        /\ PrintT("STATS n/mean/var(2^-14 units) " \o ToString(<<"80bin", Summary(80, "bin"), "80mux", Summary(80, "mux"), "128bin", Summary(128, "bin"), "128mux", Summary(128, "mux")>>)) /\ UNCHANGED <<reg, plain, depth, noisy, stats, lambda>>
TLoad == /\ Ev.e = "Load" /\ Frame(Ev.d)
         /\ LoadTo(Ev.d, Ev.bit, RecOf(Ev.out))
         /\ depth' = [depth EXCEPT ![Ev.d] = 0] /\ noisy' = [noisy EXCEPT ![Ev.d] = (Ev.inj # 0)]
         /\ UNCHANGED <<stats, lambda, verdict>>
TGate == /\ Ev.e = "Gate" /\ Frame(Ev.d)
         /\ LET o == RecOf(Ev.out) IN
            CASE Ev.g \in Bin  -> /\ GateBinTo(Ev.g, Ev.d, Ev.a, Ev.b, o)
                                  /\ stats' = [stats EXCEPT ![lambda]["bin"][ClassOf({Ev.a, Ev.b})] = Upd(@, E14(Ev.out))]
                                  /\ depth' = [depth EXCEPT ![Ev.d] = MaxDepth({Ev.a, Ev.b}) + 1]
              [] Ev.g = "MUX"  -> /\ GateMuxTo(Ev.d, Ev.a, Ev.b, Ev.c, o)
                                  /\ stats' = [stats EXCEPT ![lambda]["mux"][ClassOf({Ev.a, Ev.b, Ev.c})] = Upd(@, E14(Ev.out))]
                                  /\ depth' = [depth EXCEPT ![Ev.d] = MaxDepth({Ev.a, Ev.b, Ev.c}) + 1]
              [] Ev.g = "NOT"  -> GateNotTo(Ev.d, Ev.a, o) /\ depth' = [depth EXCEPT ![Ev.d] = depth[Ev.a]] /\ UNCHANGED stats
              [] Ev.g = "COPY" -> GateCopyTo(Ev.d, Ev.a, o) /\ depth' = [depth EXCEPT ![Ev.d] = depth[Ev.a]] /\ UNCHANGED stats
              [] Ev.g = "CONST" -> GateConstTo(Ev.d, Ev.v, o) /\ depth' = [depth EXCEPT ![Ev.d] = 0] /\ UNCHANGED stats
         /\ noisy' = [noisy EXCEPT ![Ev.d] = IF Ev.g \in {"NOT", "COPY"} THEN noisy[Ev.a] ELSE FALSE]
         /\ UNCHANGED <<lambda, verdict>>
\* bootsSymDecrypt of a wire returns the plaintext evaluation
TDec == /\ Ev.e = "Dec" /\ Def(Ev.r) /\ Ev.bit = plain[Ev.r] /\ UNCHANGED <<reg, plain, depth, noisy, stats, lambda, verdict>>
TNext == l <= Len(Tr) /\ l' = l + 1 /\ (TKey \/ TEnd \/ TLoad \/ TGate \/ TDec)
TSpec == TInit /\ [][TNext]_tvars
StatsAccepted == verdict
Accepted == TLCGet("stats").diameter - 1 = Len(Tr)
=============================================================================
