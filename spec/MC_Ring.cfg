SPECIFICATION Spec
CONSTANTS W = 8
 NS = {1,2,4,8,16,32}
 Mutant = "none"
INVARIANT NaiveIsProduct
INVARIANT KaratsubaIsProduct
INVARIANT AccumulateVariants
INVARIANT MonomialIsShift
INVARIANT MonomialGroupLaw
INVARIANT XNIsMinusOne
INVARIANT MonomialIsProduct
CHECK_DEADLOCK FALSE
