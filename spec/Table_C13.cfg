SPECIFICATION Spec
CONSTANTS W = 12
INVARIANT RowOK
CHECK_DEADLOCK FALSE
