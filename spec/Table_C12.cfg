SPECIFICATION Spec
CONSTANTS W = 15
 L = 2
 Bgbit = 7
INVARIANT RowOK
CHECK_DEADLOCK FALSE
