----------------------------- MODULE Table_C11 -----------------------------
(* Rows printed by harness/h_ring.cpp validated against the ring definitions at full width (C11).            *)
(* The definitions are those of module Ring (NegMul, IsMulXai, coefficient-wise maps) re-stated over Word32. *)
EXTENDS Table, Word32
VARIABLE i
Init == i \in 1..NRows
Next == UNCHANGED i
Spec == Init /\ [][Next]_i
R == Rows[i]
Wd(p) == [h |-> p[1], l |-> p[2]]                 \* dense lists carry [h,l]
Tm(t) == [pos |-> t[1], v |-> [h |-> t[2], l |-> t[3]]]    \* sparse terms carry [pos,h,l]

\* value of a sparse polynomial (list of terms, distinct positions) at position t
SpAt(terms, t) == WSum([k \in 1..Len(terms) |-> IF terms[k][1] = t THEN Tm(terms[k]).v ELSE WZero])
ObsAt(nz, base, t) == IF \E k \in 1..Len(nz) : nz[k][1] = t THEN SpAt(nz, t) ELSE base
Positions(terms) == {terms[k][1] : k \in 1..Len(terms)}

(* ---- sparse x sparse negacyclic product: coefficient t = sum over pairs with i+j = t (+) or i+j = t+N (-) ---- *)
ProdAt(A, B, n, t) == WSum([q \in 1..(Len(A) * Len(B)) |->
                         LET ka == ((q - 1) \div Len(B)) + 1
                             kb == ((q - 1) % Len(B)) + 1
                             s  == A[ka][1] + B[kb][1]
                             pr == WMul(Tm(A[ka]).v, Tm(B[kb]).v)
                         IN IF s = t THEN pr ELSE IF s = t + n THEN WNeg(pr) ELSE WZero])
Combine(f, r0, pr) == CASE f = "naive" -> pr [] f = "kara" -> pr [] f = "addkara" -> WAdd(r0, pr) [] f = "subkara" -> WSub(r0, pr)
RowMs == LET cand == {(a + b) % R.N : a \in Positions(R.A), b \in Positions(R.B)} \cup Positions(R.nz) IN
         /\ \A t \in cand : t \in 0..(R.N - 1) /\ ObsAt(R.nz, R.base, t) = Combine(R.f, R.r0, ProdAt(R.A, R.B, R.N, t))
         /\ \A k1, k2 \in 1..Len(R.nz) : R.nz[k1][1] = R.nz[k2][1] => k1 = k2

(* ---- dense product (small N) ---- *)
NegMul32(a, b, n, t) == WSum([j1 \in 1..n |-> LET j == j1 - 1 IN
                            IF j <= t THEN WMul(Wd(a[j + 1]), Wd(b[t - j + 1])) ELSE WNeg(WMul(Wd(a[j + 1]), Wd(b[n + t - j + 1])))])
RowMd == /\ Len(R.out) = R.N /\ Len(R.a) = R.N /\ Len(R.b) = R.N
         /\ \A t \in 0..(R.N - 1) : Wd(R.out[t + 1]) = Combine(R.f, Wd(R.r0[t + 1]), NegMul32(R.a, R.b, R.N, t))

(* ---- monomials: out[(j+a) mod N] = (-1)^((j+a) div N) src[j]; the "minus one" variants subtract src ---- *)
Sg(j, a, n, w) == IF ((j + a) \div n) % 2 = 0 THEN w ELSE WNeg(w)
RowXd == /\ R.a \in 0..(2 * R.N - 1) /\ Len(R.out) = R.N /\ Len(R.src) = R.N
         /\ \A j \in 0..(R.N - 1) :
              LET t == (j + R.a) % R.N
                  sh == Sg(j, R.a, R.N, Wd(R.src[j + 1]))
              IN Wd(R.out[t + 1]) = IF R.f = "txai" THEN sh ELSE WSub(sh, Wd(R.src[t + 1]))
XsExp(S, a, n, f, t) == WSum([k \in 1..Len(S) |->
                           LET j == S[k][1]
                               sh == IF (j + a) % n = t THEN Sg(j, a, n, Tm(S[k]).v) ELSE WZero
                           IN IF f = "txai" THEN sh ELSE IF j = t THEN WSub(sh, Tm(S[k]).v) ELSE sh])
RowXs == LET cand == Positions(R.S) \cup {(p + R.a) % R.N : p \in Positions(R.S)} \cup Positions(R.nz) IN
         /\ R.a \in 0..(2 * R.N - 1)
         /\ \A t \in cand : ObsAt(R.nz, WZero, t) = XsExp(R.S, R.a, R.N, R.f, t)

(* ---- coefficient-wise ---- *)
LinExp(f, a, b, p) == CASE f \in {"add", "addto", "iaddto"} -> WAdd(a, b)
                        [] f \in {"sub", "subto"} -> WSub(a, b)
                        [] f \in {"addmulz", "addmulzto"} -> WAdd(a, WMul(p, b))
                        [] f \in {"submulz", "submulzto"} -> WSub(a, WMul(p, b))
                        [] f \in {"copy", "icopy"} -> b
                        [] f \in {"clear", "iclear"} -> WZero
RowLd == /\ Len(R.out) = R.N
         /\ \A t \in 1..R.N : Wd(R.out[t]) = LinExp(R.f, Wd(R.a[t]), Wd(R.b[t]), R.p)

(* ---- norms and distances ---- *)
IAbs(x) == IF x < 0 THEN 0 - x ELSE x
RECURSIVE SumSq(_, _)
SumSq(v, k) == IF k = 0 THEN 0 ELSE v[k] * v[k] + SumSq(v, k - 1)
CAbs(w) == IF w.h >= 32768 THEN WNeg(w) ELSE w                                  \* distance to 0 on the torus, in units of 2^-32 (at most 2^31)
WLe(x, y) == x.h < y.h \/ (x.h = y.h /\ x.l <= y.l)
TD(t) == CAbs(WSub(Wd(R.a[t]), Wd(R.b[t])))
RowNrm == /\ R.sq2 = SumSq(R.p, R.N) /\ R.n2sq = SumSq(R.p, R.N)
          /\ (\A t \in 1..R.N : IAbs(R.p[t] - R.q[t]) <= R.idist) /\ (\E t \in 1..R.N : IAbs(R.p[t] - R.q[t]) = R.idist)
          /\ R.texact = 1 /\ (\A t \in 1..R.N : WLe(TD(t), R.tdist)) /\ (\E t \in 1..R.N : TD(t) = R.tdist)
RowOK == CASE R.k = "nrm" -> RowNrm [] R.k = "ms" -> RowMs [] R.k = "md" -> RowMd [] R.k = "xd" -> RowXd [] R.k = "xs" -> RowXs [] R.k = "ld" -> RowLd [] OTHER -> FALSE
=============================================================================
