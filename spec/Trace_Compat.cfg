SPECIFICATION TSpec
INVARIANT Exercised
POSTCONDITION Accepted
CHECK_DEADLOCK FALSE
