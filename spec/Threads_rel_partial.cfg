SPECIFICATION Spec
CONSTANTS Thr = {t1,t2,t3}
 Calls = 1
 ProcScope = "thread"
 DtorLocked = FALSE
 UsesPlanner = FALSE
 PolyProc = "immortal"
 PolyShare = FALSE
 TableScope = "proc"
 TempScope = "call"
 DtorFrees = "partial"
INVARIANT ReleasedOnExit
CHECK_DEADLOCK FALSE
