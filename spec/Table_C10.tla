----------------------------- MODULE Table_C10 -----------------------------
(* Dense-input rows of harness/h_fft.cpp: maximum deviation of the FFT routines from the library's exact Karatsuba product *)
(* (itself bound to the ring definition by C11), per input family.  Tolerances are constants of the specification:          *)
(* 2 units of 2^-32 for integer coefficients up to 2^9 (1 for the inverse/forward round trip), growing linearly above.     *)
EXTENDS Table
VARIABLE i
Init == i \in 1..NRows
Next == UNCHANGED i
Spec == Init /\ [][Next]_i
R == Rows[i]
FftTol(B) == IF B <= 512 THEN 2 ELSE 2 * (B \div 512)
RowDense == /\ R.d[1] <= FftTol(R.B) /\ R.d[2] <= FftTol(R.B) /\ R.d[3] <= FftTol(R.B)     \* product, multiply-accumulate, multiply-subtract
            /\ R.d[4] <= 1                                                                 \* transforms mutually inverse within 1 unit
            /\ R.d[5] <= FftTol(R.B) + 1                                                   \* Lagrange-domain multiply + add commute with the transforms
            /\ R.d[6] <= FftTol(R.B) + 1                                                   \* clear, multiply-add, add constant
RowOK == CASE R.k = "dense" -> RowDense [] OTHER -> FALSE                                  \* in particular an aborted case is never allowed
=============================================================================
