------------------------------- MODULE Gadget -------------------------------
(***************************************************************************)
(* Gadget decomposition of src/libtfhe/tgsw-functions.cpp                  *)
(* (tGswTorus32PolynomialDecompH) over a W-bit torus, W >= L*Bgbit.        *)
(* As implemented: add the offset to the *input buffer*, extract L bit     *)
(* fields, subtract Bg/2 from each, remove the offset from the buffer.     *)
(* x |-> x*2^(32-W) maps this onto the 32-bit routine exactly              *)
(* (offset32 = Offset*2^(32-W), every shift moves by 32-W).                *)
(***************************************************************************)
EXTENDS Integers, Sequences
CONSTANTS W, L, Bgbit
Q      == 2^W
Bg     == 2^Bgbit
HalfBg == Bg \div 2
MaskMod == Bg - 1
Shift(p) == W - p * Bgbit                           \* p = 1..L   ("decal")
RECURSIVE OffSum(_)
OffSum(p) == IF p = 0 THEN 0 ELSE 2^Shift(p) + OffSum(p - 1)
Offset == (HalfBg * OffSum(L)) % Q                   \* TGswParams::offset
H(p)   == 2^Shift(p)                                 \* TGswParams::h[p-1]

\* as implemented, on the dirty buffer value  buf = x + Offset
DigitOfBuf(buf, p) == ((buf \div 2^Shift(p)) % Bg) - HalfBg
Digit(x, p)  == DigitOfBuf((x + Offset) % Q, p)
Digits(x)    == [p \in 1..L |-> Digit(x, p)]
RECURSIVE RecompSeq(_, _)
RecompSeq(d, p) == IF p = 0 THEN 0 ELSE d[p] * H(p) + RecompSeq(d, p - 1)
Recomp(d) == RecompSeq(d, L) % Q

\* as stated by the property
Balanced(d)       == \A p \in 1..L : d[p] >= -HalfBg /\ d[p] < HalfBg
RecomposesTo(d, x) == LET e == (x - Recomp(d)) % Q IN e >= 0 /\ e < 2^(W - L * Bgbit)
Good(x) == Balanced(Digits(x)) /\ RecomposesTo(Digits(x), x)
=============================================================================
