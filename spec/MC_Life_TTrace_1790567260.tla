---- MODULE MC_Life_TTrace_1790567260 ----
EXTENDS Sequences, TLCExt, MC_Life, Toolbox, Naturals, TLC

_expression ==
    LET MC_Life_TEExpression == INSTANCE MC_Life_TEExpression
    IN MC_Life_TEExpression!expression
----

_trace ==
    LET MC_Life_TETrace == INSTANCE MC_Life_TETrace
    IN MC_Life_TETrace!trace
----

_inv ==
    ~(
        TLCGet("level") = Len(_TETrace)
        /\
        val = ([ct |-> (0 :> -1 @@ 1 :> -1 @@ 2 :> -1), ct2 |-> (0 :> -1 @@ 1 :> -1 @@ 2 :> -1)])
        /\
        bval = ((0 :> -1 @@ 1 :> -1 @@ 2 :> -1))
        /\
        blob = ({})
        /\
        last = ([o |-> "params", op |-> "Delete"])
        /\
        obj = ([ct |-> "none", ct2 |-> "none", sk |-> "live", sk2 |-> "none", ck |-> "none", params |-> "freed"])
        /\
        fin = (TRUE)
        /\
        steps = (3)
    )
----

_init ==
    /\ steps = _TETrace[1].steps
    /\ val = _TETrace[1].val
    /\ last = _TETrace[1].last
    /\ fin = _TETrace[1].fin
    /\ obj = _TETrace[1].obj
    /\ bval = _TETrace[1].bval
    /\ blob = _TETrace[1].blob
----

_next ==
    /\ \E i,j \in DOMAIN _TETrace:
        /\ \/ /\ j = i + 1
              /\ i = TLCGet("level")
        /\ steps  = _TETrace[i].steps
        /\ steps' = _TETrace[j].steps
        /\ val  = _TETrace[i].val
        /\ val' = _TETrace[j].val
        /\ last  = _TETrace[i].last
        /\ last' = _TETrace[j].last
        /\ fin  = _TETrace[i].fin
        /\ fin' = _TETrace[j].fin
        /\ obj  = _TETrace[i].obj
        /\ obj' = _TETrace[j].obj
        /\ bval  = _TETrace[i].bval
        /\ bval' = _TETrace[j].bval
        /\ blob  = _TETrace[i].blob
        /\ blob' = _TETrace[j].blob

\* Uncomment the ASSUME below to write the states of the error trace
\* to the given file in Json format. Note that you can pass any tuple
\* to `JsonSerialize`. For example, a sub-sequence of _TETrace.
    \* ASSUME
    \*     LET J == INSTANCE Json
    \*         IN J!JsonSerialize("MC_Life_TTrace_1790567260.json", _TETrace)

=============================================================================

 Note that you can extract this module `MC_Life_TEExpression`
  to a dedicated file to reuse `expression` (the module in the 
  dedicated `MC_Life_TEExpression.tla` file takes precedence 
  over the module `MC_Life_TEExpression` below).

---- MODULE MC_Life_TEExpression ----
EXTENDS Sequences, TLCExt, MC_Life, Toolbox, Naturals, TLC

expression == 
    [
        \* To hide variables of the `MC_Life` spec from the error trace,
        \* remove the variables below.  The trace will be written in the order
        \* of the fields of this record.
        steps |-> steps
        ,val |-> val
        ,last |-> last
        ,fin |-> fin
        ,obj |-> obj
        ,bval |-> bval
        ,blob |-> blob
        
        \* Put additional constant-, state-, and action-level expressions here:
        \* ,_stateNumber |-> _TEPosition
        \* ,_stepsUnchanged |-> steps = steps'
        
        \* Format the `steps` variable as Json value.
        \* ,_stepsJson |->
        \*     LET J == INSTANCE Json
        \*     IN J!ToJson(steps)
        
        \* Lastly, you may build expressions over arbitrary sets of states by
        \* leveraging the _TETrace operator.  For example, this is how to
        \* count the number of times a spec variable changed up to the current
        \* state in the trace.
        \* ,_stepsModCount |->
        \*     LET F[s \in DOMAIN _TETrace] ==
        \*         IF s = 1 THEN 0
        \*         ELSE IF _TETrace[s].steps # _TETrace[s-1].steps
        \*             THEN 1 + F[s-1] ELSE F[s-1]
        \*     IN F[_TEPosition - 1]
    ]

=============================================================================



Parsing and semantic processing can take forever if the trace below is long.
 In this case, it is advised to uncomment the module below to deserialize the
 trace from a generated binary file.

\*
\*---- MODULE MC_Life_TETrace ----
\*EXTENDS IOUtils, MC_Life, TLC
\*
\*trace == IODeserialize("MC_Life_TTrace_1790567260.bin", TRUE)
\*
\*=============================================================================
\*

---- MODULE MC_Life_TETrace ----
EXTENDS MC_Life, TLC

trace == 
    <<
    ([val |-> [ct |-> (0 :> -1 @@ 1 :> -1 @@ 2 :> -1), ct2 |-> (0 :> -1 @@ 1 :> -1 @@ 2 :> -1)],bval |-> (0 :> -1 @@ 1 :> -1 @@ 2 :> -1),blob |-> {},last |-> [op |-> "Init"],obj |-> [ct |-> "none", ct2 |-> "none", sk |-> "none", sk2 |-> "none", ck |-> "none", params |-> "none"],fin |-> TRUE,steps |-> 0]),
    ([val |-> [ct |-> (0 :> -1 @@ 1 :> -1 @@ 2 :> -1), ct2 |-> (0 :> -1 @@ 1 :> -1 @@ 2 :> -1)],bval |-> (0 :> -1 @@ 1 :> -1 @@ 2 :> -1),blob |-> {},last |-> [op |-> "NewParams"],obj |-> [ct |-> "none", ct2 |-> "none", sk |-> "none", sk2 |-> "none", ck |-> "none", params |-> "live"],fin |-> TRUE,steps |-> 1]),
    ([val |-> [ct |-> (0 :> -1 @@ 1 :> -1 @@ 2 :> -1), ct2 |-> (0 :> -1 @@ 1 :> -1 @@ 2 :> -1)],bval |-> (0 :> -1 @@ 1 :> -1 @@ 2 :> -1),blob |-> {},last |-> [op |-> "KeyGen"],obj |-> [ct |-> "none", ct2 |-> "none", sk |-> "live", sk2 |-> "none", ck |-> "none", params |-> "live"],fin |-> TRUE,steps |-> 2]),
    ([val |-> [ct |-> (0 :> -1 @@ 1 :> -1 @@ 2 :> -1), ct2 |-> (0 :> -1 @@ 1 :> -1 @@ 2 :> -1)],bval |-> (0 :> -1 @@ 1 :> -1 @@ 2 :> -1),blob |-> {},last |-> [o |-> "params", op |-> "Delete"],obj |-> [ct |-> "none", ct2 |-> "none", sk |-> "live", sk2 |-> "none", ck |-> "none", params |-> "freed"],fin |-> TRUE,steps |-> 3])
    >>
----


=============================================================================

---- CONFIG MC_Life_TTrace_1790567260 ----
CONSTANTS
    Relax = TRUE
    ParamKind = "custom"
    Budget = 6

INVARIANT
    _inv

CHECK_DEADLOCK
    \* CHECK_DEADLOCK off because of PROPERTY or INVARIANT above.
    FALSE

INIT
    _init

NEXT
    _next

CONSTANT
    _TETrace <- _trace

ALIAS
    _expression
=============================================================================
\* Generated on Mon Sep 28 03:47:42 UTC 2026