SPECIFICATION Spec
CONSTANTS
 W = 12
 MSet = {2,3,4,5,7,8,16,100,1024,2048,4096}
 Mutant = "none"
INVARIANT RoundsToNearest
INVARIANT InRange
INVARIANT ApproxIsToOfFrom
INVARIANT EncodeDecode
INVARIANT PowerOfTwoClosedForm
CHECK_DEADLOCK FALSE
