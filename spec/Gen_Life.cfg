SPECIFICATION GSpec
CONSTANTS Relax = FALSE
 ParamKind = "custom"
 Budget = 30
CONSTRAINT Dump
INVARIANT NoDangling
INVARIANT DeadIsEmpty
CHECK_DEADLOCK FALSE
