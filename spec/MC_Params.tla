----------------------------- MODULE MC_Params -----------------------------
EXTENDS Params, TLC
CONSTANT Mutant        \* "none" | "off80" (threshold off by one) | "weak" (never-weaker violated)
VARIABLE lambda
Init == lambda \in (-5..300) \cup {-2147483647, 2147483647}
Next == UNCHANGED lambda
Spec == Init /\ [][Next]_lambda
Sel(x) == IF Mutant = "off80" /\ x = 81 THEN "set80" ELSE IF Mutant = "weak" /\ x > 128 THEN "set128" ELSE SelectCode(x)
MatchesDocumentedThresholds == Sel(lambda) = SelectSpec(lambda)
NeverWeaker == Sel(lambda) # "abort" => Strength(Sel(lambda)) >= lambda
Monotone == \A x \in {lambda - 1} : (x >= 1 /\ Sel(x) # "abort" /\ Sel(lambda) # "abort") => Strength(Sel(x)) <= Strength(Sel(lambda))
SetsAreSound == Sel(lambda) # "abort" => LET p == SetOf(Sel(lambda)) IN
                   /\ Structural(p)
                   /\ FLeq(GateVar(p), Bound2(Sel(lambda)))                   \* the analytic output variance is below the quoted bound^2
                   /\ Margin12(p, Bound2(Sel(lambda)))                        \* 12 sigma of margin even at the quoted bound
=============================================================================
