---------------------------- MODULE Gen_ObjLife ----------------------------
(* Behaviours of ObjLife written out as call sequences for harness/h_objs.cpp (tlc -simulate).  One successor per kind of call, arguments drawn at   *)
(* random; once the call budget is used up only the calls that wind the slots down remain, and a behaviour is dumped when every slot is empty again. *)
EXTENDS ObjLife, Json, IOUtils, Randomization, Sequences
VARIABLE hist
R(S) == RandomElement(S)
Busy == calls < MaxCalls - 2 * Cardinality(Slots)
Pick == LET s == R(Slots) IN
        \/ Alloc(s, R(Types), R(Counts)) \/ New(s, R(Types), R(Counts)) \/ Init(s) \/ Destroy(s) \/ Free(s) \/ Delete(s)
        \/ Init(R(Slots)) \/ Destroy(R(Slots)) \/ Delete(R(Slots)) \/ Free(R(Slots))
WindDown == \E s \in Slots : Free(s) \/ Delete(s)
GNext == (IF Busy THEN Pick ELSE WindDown) /\ hist' = Append(hist, last')
GInit == OInit /\ hist = <<>>
GSpec == GInit /\ [][GNext]_<<ovars, hist>>
Dump == ((\A s \in Slots : st[s] = "none") /\ ~Busy) => ndJsonSerialize(IOEnv.GEN_OUT \o ToString(TLCGet("stats").traces) \o ".ndjson", hist)
=============================================================================
