SPECIFICATION Spec
CONSTANT Mutant = "none"
INVARIANT CloudIsPrefixOfSecret
INVARIANT CloudHasNoSecret
INVARIANT CloudSize
INVARIANT SecretAddsExactlyKeys
INVARIANT WellFormed
CHECK_DEADLOCK FALSE
