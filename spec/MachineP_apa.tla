---------------------------- MODULE MachineP_apa ----------------------------
(* The phase-level gate machine of MachineP with Snowcat type annotations, for Apalache: the inductive step                 *)
(*   IndInit => IndInv   and   IndInv /\ Next => IndInv'   is discharged with the errors as unconstrained integers within *)
(* the caps (not only the extreme points TLC enumerates).  Kept textually parallel to MachineP.tla / Gates.tla.               *)
EXTENDS Integers
VARIABLES
  \* @type: Str -> { bit: Int, err: Int };
  reg,
  \* @type: Str -> Int;
  plain
Regs == {"r0","r1","r2"}
U == 16777216
ECap == 786431
DCap == 524287
MU == U \div 8
Enc(b) == IF b = 1 THEN MU ELSE -MU
Phase(r) == Enc(reg[r].bit) + reg[r].err
Norm(x) == ((x + U \div 2) % U) - U \div 2
Bin == {"NAND","OR","AND","XOR","XNOR","NOR","ANDNY","ANDYN","ORNY","ORYN"}
K(g)  == CASE g = "NAND" -> 1 [] g = "OR" -> 1 [] g = "AND" -> -1 [] g = "XOR" -> 2 [] g = "XNOR" -> -2 [] g = "NOR" -> -1
           [] g = "ANDNY" -> -1 [] g = "ANDYN" -> -1 [] g = "ORNY" -> 1 [] OTHER -> 1
CA(g) == CASE g = "NAND" -> -1 [] g = "OR" -> 1 [] g = "AND" -> 1 [] g = "XOR" -> 2 [] g = "XNOR" -> -2
           [] g = "NOR" -> -1 [] g = "ANDNY" -> -1 [] g = "ANDYN" -> 1 [] g = "ORNY" -> -1 [] OTHER -> 1
CB(g) == CASE g = "NAND" -> -1 [] g = "OR" -> 1 [] g = "AND" -> 1 [] g = "XOR" -> 2 [] g = "XNOR" -> -2
           [] g = "NOR" -> -1 [] g = "ANDNY" -> 1 [] g = "ANDYN" -> -1 [] g = "ORNY" -> 1 [] OTHER -> -1
Or2(a,b) == IF a + b > 0 THEN 1 ELSE 0
TT(g,a,b) == CASE g = "NAND" -> 1 - a*b [] g = "OR" -> Or2(a,b) [] g = "AND" -> a*b
           [] g = "XOR" -> (a + b) % 2 [] g = "XNOR" -> 1 - ((a + b) % 2) [] g = "NOR" -> 1 - Or2(a,b)
           [] g = "ANDNY" -> (1-a)*b [] g = "ANDYN" -> a*(1-b) [] g = "ORNY" -> Or2(1-a, b)
           [] OTHER -> Or2(a, 1-b)
Lin(g,a,b) == K(g)*MU + CA(g)*Phase(a) + CB(g)*Phase(b)
CanBe(b, x) == LET y == Norm(x) IN
   IF b = 1 THEN (y + DCap >= 0) \/ (y - DCap < -(U \div 2)) ELSE (y - DCap < 0) \/ (y + DCap >= U \div 2)
OkErr(e) == e >= -ECap /\ e <= ECap
GateBin(g,d,a,b) == \E ob \in {0,1} : \E oe \in Int :
     /\ CanBe(ob, Lin(g,a,b)) /\ OkErr(oe)
     /\ reg' = [reg EXCEPT ![d] = [bit |-> ob, err |-> oe]]
     /\ plain' = [plain EXCEPT ![d] = TT(g, plain[a], plain[b])]
GateMux(d,a,b,c) == \E b1 \in {0,1}, b2 \in {0,1}, ob \in {0,1} : \E oe \in Int :
     /\ CanBe(b1, -MU + Phase(a) + Phase(b)) /\ CanBe(b2, -MU - Phase(a) + Phase(c))
     /\ LET s == Enc(b1) + Enc(b2) + MU IN ob = (IF s > 0 THEN 1 ELSE 0) /\ OkErr(s + oe - Enc(ob))
     /\ reg' = [reg EXCEPT ![d] = [bit |-> ob, err |-> oe]]
     /\ plain' = [plain EXCEPT ![d] = IF plain[a] = 1 THEN plain[b] ELSE plain[c]]
GateNot(d,a) == reg' = [reg EXCEPT ![d] = [bit |-> 1 - reg[a].bit, err |-> -reg[a].err]] /\ plain' = [plain EXCEPT ![d] = 1 - plain[a]]
Next == \/ \E g \in Bin, d \in Regs, a \in Regs, b \in Regs : GateBin(g,d,a,b)
        \/ \E d \in Regs, a \in Regs, b \in Regs, c \in Regs : GateMux(d,a,b,c)
        \/ \E d \in Regs, a \in Regs : GateNot(d,a)
IndInv == /\ \A r \in Regs : reg[r].bit \in {0,1} /\ OkErr(reg[r].err) /\ reg[r].bit = plain[r]
IndInit == \E bits \in [Regs -> {0,1}] : \E errs \in [Regs -> Int] :
     /\ \A r \in Regs : OkErr(errs[r])
     /\ reg = [r \in Regs |-> [bit |-> bits[r], err |-> errs[r]]]
     /\ plain = bits
=============================================================================
