--------------------------- MODULE Trace_TGswAlg ---------------------------
(* What harness/h_tgsw.cpp observed while executing TLC-generated TGSW programs on the library (N = 1024, embedded values), validated step by step    *)
(* against the actions of TGswAlg: after every operation the register of the library, read on the W-bit grid, is the register of the specification,  *)
(* no coefficient is off the embedded grid (off = 0; at most FFTTol units of 2^-32 after a round trip through the Lagrange domain), decryption      *)
(* returns the message the specification tracks, and WellFormed holds throughout.                                                                    *)
EXTENDS TGswAlg, Json, IOUtils
CONSTANT FFTTol
VARIABLES l, nfft, ndec
Tr == ndJsonDeserialize(IOEnv.TRACE)
Ev == Tr[l]
tvars == <<avars, l, nfft, ndec>>
RowsIn(rows) == [r \in Rows |-> [c \in Comp |-> [i \in Idx |-> rows[r][c + 1][i + 1]]]]
MuIn(mu) == [i \in Idx |-> mu[i + 1]]
PhIn(ph) == [r \in Rows |-> [i \in Idx |-> ph[r][i + 1]]]
\* phases of a fresh encryption lie within 16 sigma + the FFT error of the phase computation of the embedded grid (and are not exactly on it: there is noise)
NoiseTol(alog) == 16 * 2^(32 - alog) + 4096
TInit == AInit /\ l = 1 /\ nfft = 0 /\ ndec = 0
Consume == l <= Len(Tr) /\ l' = l + 1
TProg == /\ Ev.e = "Prog" /\ Ev.W = W /\ Ev.NP = NP /\ Ev.KK = KK /\ Ev.LL = LL /\ Ev.BGB = BGB
         /\ g' = GZero /\ m' = Zero /\ nops' = 0 /\ lastop' = [op |-> "Init"] /\ UNCHANGED <<nfft, ndec>>
Same == RowsIn(Ev.rows) = g'
TOp == /\ Ev.e = "Op"
       /\ CASE Ev.op = "Clear"     -> Clear /\ Same /\ Ev.off = 0 /\ UNCHANGED <<nfft, ndec>>
            [] Ev.op = "AddH"      -> AddH /\ Same /\ Ev.off = 0 /\ UNCHANGED <<nfft, ndec>>
            [] Ev.op = "AddMuH"    -> AddMuH(MuIn(Ev.mu)) /\ Same /\ Ev.off = 0 /\ UNCHANGED <<nfft, ndec>>
            [] Ev.op = "AddMuIntH" -> AddMuIntH(Ev.v) /\ Same /\ Ev.off = 0 /\ UNCHANGED <<nfft, ndec>>
            [] Ev.op = "Trivial"   -> Trivial(MuIn(Ev.mu)) /\ Same /\ Ev.off = 0 /\ UNCHANGED <<nfft, ndec>>
            [] Ev.op = "Load"      -> Load(Ev.k, Ev.tag) /\ Same /\ Ev.off = 0 /\ UNCHANGED <<nfft, ndec>>
            [] Ev.op = "MulXaiM1"  -> MulXaiM1(Ev.x) /\ Same /\ Ev.off = 0 /\ UNCHANGED <<nfft, ndec>>
            [] Ev.op = "Decrypt"   -> Decrypt(Ev.ms) /\ Same /\ Ev.off = 0 /\ Ev.dec = SeqOf(DecOf(Ev.ms)) /\ Ev.stray = 0 /\ ndec' = ndec + 1 /\ UNCHANGED nfft
            [] Ev.op = "FFTRound"  -> FFTRound /\ Same /\ Ev.off <= FFTTol /\ nfft' = nfft + 1 /\ UNCHANGED ndec     \* (the harness prints the sample that came back and keeps the exact one)
            [] Ev.op = "FFTAddH"   -> FFTAddH /\ RowsIn(Ev.rows) = FFTAddHOf(g) /\ Ev.off <= FFTTol /\ nfft' = nfft + 1 /\ UNCHANGED ndec
            [] Ev.op = "FFTOnlyH"  -> FFTOnlyH /\ RowsIn(Ev.rows) = FFTAddHOf(GZero) /\ Ev.off <= FFTTol /\ nfft' = nfft + 1 /\ UNCHANGED ndec
            [] Ev.op = "EncPoly"   -> EncPoly(MuIn(Ev.mu), Ev.alog) /\ PhIn(Ev.ph) = PhasesOf(MuIn(Ev.mu)) /\ Ev.off <= NoiseTol(Ev.alog) /\ Ev.off >= 1 /\ UNCHANGED <<nfft, ndec>>
            [] Ev.op = "EncInt"    -> EncInt(Ev.v, Ev.alog) /\ PhIn(Ev.ph) = PhasesOf(Const(Ev.v)) /\ Ev.off <= NoiseTol(Ev.alog) /\ Ev.off >= 1 /\ UNCHANGED <<nfft, ndec>>
            [] OTHER -> FALSE
TNext == Consume /\ (TProg \/ TOp)
TSpec == TInit /\ [][TNext]_tvars
Accepted == TLCGet("stats").diameter - 1 = Len(Tr)
Exercised == (l = Len(Tr) + 1) => nfft >= 1 /\ ndec >= 1
=============================================================================
