------------------------------ MODULE MachineP ------------------------------
(***************************************************************************)
(* The gate-bootstrapping API as a register machine, at the phase level.   *)
(* A ciphertext register holds [bit, err]: its phase under the secret key  *)
(* is Enc(bit) + err on the torus Z/U (U = 2^24 units).  `plain` is the    *)
(* plaintext interpreter of the property: what the same program computes   *)
(* on clear bits.                                                          *)
(*                                                                         *)
(* Assumptions made explicit as constants (and monitored on every          *)
(* recorded execution by the trace specification):                         *)
(*   A1  |error of any admissible ciphertext|  <= ECap   ( < 3/64 )        *)
(*   A2  |modulus-switch rounding of a bootstrap input| <= DCap ( < 1/32 ) *)
(* Every gate action takes its output record `o` as a parameter: the model *)
(* checker quantifies it over the extreme records, the trace specification *)
(* binds it to the logged output.                                          *)
(***************************************************************************)
EXTENDS Gates, FiniteSets, TLC
CONSTANTS Regs, U, ECap, DCap,
          NotSlack,     \* resolution slack for the linear gates when phases are logged truncated (0 in the model)
          Mutant        \* "none" or a deliberately wrong design (self-test of the invariants)
VARIABLES reg, plain
mvars == <<reg, plain>>

MU       == U \div 8
Enc(b)   == IF b = 1 THEN MU ELSE -MU
Phase(r) == Enc(reg[r].bit) + reg[r].err
Norm(x)  == ((x + U \div 2) % U) - U \div 2          \* centred representative in [-U/2, U/2)
KK(g)    == IF Mutant = "AndConst" /\ g = "AND" THEN 1 ELSE IF Mutant = "XorConst" /\ g = "XOR" THEN 1 ELSE K(g)
Lin(g, a, b) == KK(g) * MU + CA(g) * Phase(a) + CB(g) * Phase(b)
\* bits a sign bootstrap may return on a sample of phase x when the modulus switch moves it by at most DCap:
\* closed form of  \E dl \in -DCap..DCap : Norm(x + dl) >= 0   (result +MU iff rounded phase in [0, 1/2))
BootBits(x) == LET y == Norm(x) IN
   {b \in {0, 1} : IF b = 1 THEN (y + DCap >= 0) \/ (y - DCap < -(U \div 2))
                             ELSE (y - DCap < 0) \/ (y + DCap >= U \div 2)}
OkErr(e) == e >= -ECap /\ e <= ECap
Def(r) == reg[r].def

(* ---- API actions --------------------------------------------------------- *)
\* bootsSymEncrypt / any admissible ciphertext entering the machine
LoadTo(d, v, o) == /\ o.bit = v /\ OkErr(o.err)
                   /\ reg' = [reg EXCEPT ![d] = o] /\ plain' = [plain EXCEPT ![d] = v]
GateBinTo(g, d, a, b, o) == /\ Def(a) /\ Def(b)
                            /\ o.bit \in BootBits(Lin(g, a, b)) /\ OkErr(o.err)
                            /\ reg' = [reg EXCEPT ![d] = o]
                            /\ plain' = [plain EXCEPT ![d] = TT(g, plain[a], plain[b])]
\* MUX(a,b,c) = a ? b : c : two sign bootstraps without key switch (AND(a,b), ANDNY(a,c)), sum + 1/8, one key switch
GateMuxTo(d, a, b, c, o) ==
   /\ Def(a) /\ Def(b) /\ Def(c)
   /\ plain' = [plain EXCEPT ![d] = MuxTT(plain[a], plain[b], plain[c])]
   /\ \E b1 \in BootBits(-MU + Phase(a) + Phase(b)), b2 \in BootBits(-MU - Phase(a) + Phase(c)) :
        LET s == Enc(b1) + Enc(b2) + MU IN           \* the ideal sum: -MU, +MU (or 3MU if both were 1)
          /\ o.bit = (IF s > 0 THEN 1 ELSE 0) /\ OkErr(s + o.err - Enc(o.bit))
   /\ reg' = [reg EXCEPT ![d] = o]
GateNotTo(d, a, o)  == /\ Def(a) /\ o.bit = 1 - reg[a].bit /\ o.err + reg[a].err \in -NotSlack..NotSlack
                       /\ reg' = [reg EXCEPT ![d] = o] /\ plain' = [plain EXCEPT ![d] = 1 - plain[a]]
GateCopyTo(d, a, o) == /\ Def(a) /\ o = reg[a]
                       /\ reg' = [reg EXCEPT ![d] = o] /\ plain' = [plain EXCEPT ![d] = plain[a]]
GateConstTo(d, v, o) == /\ o.bit = v /\ o.err = 0
                        /\ reg' = [reg EXCEPT ![d] = o] /\ plain' = [plain EXCEPT ![d] = v]

(* ---- model-checking instance: outputs range over the extreme records ------ *)
Rec(b, e) == [bit |-> b, err |-> e, def |-> TRUE]
Errs == {-ECap, 0, ECap}
Outs == {Rec(b, e) : b \in {0, 1}, e \in Errs}
Init == /\ reg \in [Regs -> Outs] /\ plain = [r \in Regs |-> reg[r].bit]
Next == \/ \E g \in Bin, d \in Regs, a \in Regs, b \in Regs, o \in Outs : GateBinTo(g, d, a, b, o)
        \/ \E d \in Regs, a \in Regs, b \in Regs, c \in Regs, o \in Outs : GateMuxTo(d, a, b, c, o)
        \/ \E d \in Regs, a \in Regs : GateNotTo(d, a, Rec(1 - reg[a].bit, -reg[a].err)) \/ GateCopyTo(d, a, reg[a])
        \/ \E d \in Regs, v \in {0, 1} : GateConstTo(d, v, Rec(v, 0))
        \/ \E d \in Regs, o \in Outs : LoadTo(d, o.bit, o)
Spec == Init /\ [][Next]_mvars

Admissible == \A r \in Regs : Def(r) => OkErr(reg[r].err)                       \* closure: A1 is preserved by every gate
Correct    == \A r \in Regs : Def(r) => reg[r].bit = plain[r]                   \* decrypting any wire gives the plaintext evaluation
=============================================================================
