------------------------------ MODULE MC_Serial ------------------------------
(* C17/C05 on the specification: for every parameter choice of a small grid, the cloud export is a strict prefix of the secret export, *)
(* contains no secret section, and its binary size follows the formula; exports of all types are well-formed.                          *)
EXTENDS Serial, TLC
CONSTANT Mutant      \* "none" | "leak" (cloud export appends the LWE key section)
VARIABLE p
Init == p \in [n : {1, 3, 8}, N : {2, 8}, kk : {1, 2}, l : {1, 2}, Bgbit : {2}, t : {1, 3}, bb : {1, 2}, ksn : {1, 5}]
Next == UNCHANGED p
Spec == Init /\ [][Next]_p
Cloud == IF Mutant = "leak" THEN ExpCloud(p) \o LweKeyCalls(p) ELSE ExpCloud(p)
CloudIsPrefixOfSecret == IsStrictPrefix(Cloud, ExpSecret(p))
CloudHasNoSecret      == NoSecretSection(Cloud)
CloudSize             == BinBytes(Cloud, Len(Cloud)) = CloudBinarySize(p)
SecretAddsExactlyKeys == ExpSecret(p) = ExpCloud(p) \o SecretTail(p) /\ ~NoSecretSection(SecretTail(p))
WellFormed == \A ty \in Types : LET e == Export(ty, p) IN
                 /\ Len(e) >= 1
                 /\ \A i \in 1..Len(e) : e[i].c = "begin" => \E j \in (i + 1)..Len(e) : e[j].c = "end" /\ e[j].s = e[i].s /\ \A q \in (i + 1)..(j - 1) : e[q].c = "prop"
=============================================================================
