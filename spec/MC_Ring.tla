------------------------------ MODULE MC_Ring ------------------------------
(* C11 on the specification: code-shaped operators agree with the ring definitions.                                   *)
(* Bilinear routines: all basis pairs (c1 X^i, c2 X^j) (exhaustive by bilinearity) plus dense extreme vectors;       *)
(* monomial routines: every a in [0,2N) on a ramp source with pairwise distinct coefficients.                        *)
EXTENDS Ring, TLC
CONSTANTS NS,          \* degrees
          Mutant       \* "none" | "karasplit" | "xaisign"
VARIABLES n, i, j, mode
vars == <<n, i, j, mode>>
Init == /\ n \in NS /\ mode \in {"basis", "dense", "xai"}
        /\ i \in 0..(2 * n - 1) /\ j \in 0..(n - 1)
        /\ (mode = "basis" => i < n)
        /\ (mode = "xai" => j = 0)
        /\ (mode = "dense" => i < 4 /\ j < 4)
Next == UNCHANGED vars
Spec == Init /\ [][Next]_vars
Ext == <<Q - 1, Q \div 2, Q \div 2 - 1, 1>>                        \* extreme coefficient values (-1, MIN, MAX, 1)
Dense(k, m) == [t \in 1..m |-> Ext[((t * (k + 1) + k) % 4) + 1]]
Ramp(m) == [t \in 1..m |-> Md(3 * t + 1)]
A == IF mode = "basis" THEN Mono(n, i, Q - 1) ELSE Dense(i, n)
B == IF mode = "basis" THEN Mono(n, j, Q \div 2 + 1) ELSE Dense(j + 1, n)
Kara(a, b) == IF Mutant = "karasplit" /\ Len(a) >= 16
              THEN ReduceCode([t \in 1..(2 * Len(a) - 1) |-> IF t = Len(a) THEN 1 ELSE KaraCode(a, b)[t]], Len(a))
              ELSE KaratsubaCode(a, b)
XaiC(a, s) == IF Mutant = "xaisign" /\ a = Len(s) THEN s ELSE MulXaiCode(a, s)
NaiveIsProduct     == mode # "xai" => NaiveCode(A, B) = NegMul(A, B)
KaratsubaIsProduct == mode # "xai" => Kara(A, B) = NegMul(A, B)
AccumulateVariants == mode = "dense" => /\ AddMulRKaratsubaCode(Ramp(n), A, B) = PAdd(Ramp(n), NegMul(A, B))
                                        /\ SubMulRKaratsubaCode(Ramp(n), A, B) = PSub(Ramp(n), NegMul(A, B))
MonomialIsShift    == mode = "xai" => /\ IsMulXai(XaiC(i, Ramp(n)), i, Ramp(n))
                                      /\ MulXaiMinusOneCode(i, Ramp(n)) = PSub(MulXaiCode(i, Ramp(n)), Ramp(n))
\* X^a * X^b = X^(a+b mod 2N) and X^N = -1
MonomialGroupLaw   == mode = "xai" => \A b \in {0, 1, n - 1, n, 2 * n - 1} :
                          MulXaiCode(i, MulXaiCode(b, Ramp(n))) = MulXaiCode((i + b) % (2 * n), Ramp(n))
XNIsMinusOne       == mode = "xai" /\ i = n => MulXaiCode(i, Ramp(n)) = PNeg(Ramp(n))
\* the monomial routine agrees with the product by the monomial
MonomialIsProduct  == mode = "xai" => MulXaiCode(i, Ramp(n)) =
                          NegMul(Mono(n, i % n, IF i < n THEN 1 ELSE Q - 1), Ramp(n))
=============================================================================
