------------------------------- MODULE Params -------------------------------
(***************************************************************************)
(* Default parameter selection (src/libtfhe/tfhe_gate_bootstrapping.cpp).  *)
(* Reals are IEEE doubles given exactly as [m |-> <<4 limbs of 16 bits,    *)
(* little endian>>, e |-> exponent], value = M * 2^e with M < 2^53.        *)
(***************************************************************************)
EXTENDS Integers, Sequences
\* ---- the documented sets -------------------------------------------------
\* README.md (128-bit): n = 630, stdev 2^-15 (key switching / LWE);  N = 1024, stdev 2^-25 (bootstrapping / ring-LWE)
\* source comments (80-bit, "historic 2016 set"): n = 500, 2.44e-5; N = 1024, 7.18e-9.  max_stdev 0.012467 for both.
D_2m15   == [m |-> <<0, 0, 0, 16>>, e |-> -67]
D_2m25   == [m |-> <<0, 0, 0, 16>>, e |-> -77]
D_244em5 == [m |-> <<55057, 15227, 38355, 25>>, e |-> -68]          \* the double nearest to 2.44e-5
D_718em9 == [m |-> <<15373, 21809, 54910, 30>>, e |-> -80]          \* the double nearest to 7.18e-9
D_max    == [m |-> <<56829, 27195, 34892, 25>>, e |-> -59]          \* the double nearest to 0.012467
Doc128 == [n |-> 630, N |-> 1024, k |-> 1, l |-> 3, Bgbit |-> 7, ks_t |-> 8, ks_basebit |-> 2,
           ks_stdev |-> D_2m15, bk_stdev |-> D_2m25, max_stdev |-> D_max, ks_str |-> "3.051757812e-05", bk_str |-> "2.980232239e-08"]
Doc80  == [n |-> 500, N |-> 1024, k |-> 1, l |-> 2, Bgbit |-> 10, ks_t |-> 8, ks_basebit |-> 2,
           ks_stdev |-> D_244em5, bk_stdev |-> D_718em9, max_stdev |-> D_max, ks_str |-> "2.44e-05", bk_str |-> "7.18e-09"]
\* ---- selection, as implemented -------------------------------------------
SelectCode(lambda) == IF lambda > 128 THEN "abort"
                      ELSE IF lambda > 80 /\ lambda <= 128 THEN "set128"
                      ELSE IF lambda > 0 /\ lambda <= 80 THEN "set80"
                      ELSE "abort"
\* ---- selection, as stated --------------------------------------------------
SelectSpec(lambda) == IF lambda >= 1 /\ lambda <= 80 THEN "set80" ELSE IF lambda >= 81 /\ lambda <= 128 THEN "set128" ELSE "abort"
Strength(s) == IF s = "set80" THEN 80 ELSE IF s = "set128" THEN 128 ELSE 0
SetOf(s) == IF s = "set128" THEN Doc128 ELSE Doc80
\* ---- structural constraints the algorithms assume --------------------------
Structural(p) == /\ p.N = 1024                                  \* the only degree the FFT back-ends implement
                 /\ p.l * p.Bgbit <= 32 /\ p.l >= 1 /\ p.Bgbit >= 1
                 /\ p.ks_t * p.ks_basebit <= 31
                 /\ p.k >= 1 /\ p.n >= 1
Derived(p) == [Bg |-> 2^p.Bgbit, halfBg |-> 2^(p.Bgbit - 1), maskMod |-> 2^p.Bgbit - 1, kpl |-> (p.k + 1) * p.l, extracted_n |-> p.k * p.N]

(* ---- noise formulas in a small floating-point emulation: value = m * 2^e, m < 2^15, rounded UP ---- *)
RECURSIVE Norm(_)
Norm(x) == IF x.m < 32768 THEN x ELSE Norm([m |-> (x.m + 1) \div 2, e |-> x.e + 1])
FMul(a, b) == Norm([m |-> a.m * b.m, e |-> a.e + b.e])
FInt(v) == Norm([m |-> v, e |-> 0])
RECURSIVE Shr(_, _)
Shr(x, s) == IF s = 0 THEN x ELSE IF x.m = 0 THEN [m |-> 0, e |-> x.e + s] ELSE Shr([m |-> (x.m + 1) \div 2, e |-> x.e + 1], s - 1)
FAdd(a, b) == IF a.e >= b.e THEN (IF a.e - b.e > 40 THEN a ELSE Norm([m |-> a.m + Shr(b, a.e - b.e).m, e |-> a.e]))
              ELSE (IF b.e - a.e > 40 THEN b ELSE Norm([m |-> b.m + Shr(a, b.e - a.e).m, e |-> b.e]))
FLeq(a, b) == \* a <= b ?
              IF a.e >= b.e THEN (IF a.e - b.e > 20 THEN a.m = 0 ELSE a.m * 2^(a.e - b.e) <= b.m)
              ELSE (IF b.e - a.e > 20 THEN TRUE ELSE a.m <= b.m * 2^(b.e - a.e))
\* top 15 bits of a double's mantissa, rounded up
OfDouble(d) == LET top == d.m[4] * 1024 + d.m[3] \div 64 + 1 IN Norm([m |-> top, e |-> d.e + 38])       \* M = limbs, 53 bits: M ~ top * 2^38
Sq(x) == FMul(x, x)
\* variance of a bootstrapped gate output (average-case digits):
\*   blind rotation  n (k+1) l N (Bg^2/12) sd_bk^2   +   rounding  n (1 + kN) / (12 Bg^(2l))   +   key switch  kN t sd_ks^2  +  kN 2^-2(t basebit + 1) / 12 ... (rounded up to /8)
GateVar(p) ==
    LET br  == FMul(FMul(FInt(p.n * (p.k + 1) * p.l), FInt(p.N)), FMul(FInt((2^(2 * p.Bgbit)) \div 12 + 1), Sq(OfDouble(p.bk_stdev))))
        rnd == FMul(FInt(p.n), FMul(FInt(1 + p.k * p.N), [m |-> 1, e |-> 0 - 2 * p.l * p.Bgbit - 3]))
        ks  == FMul(FInt(p.k * p.N * p.ks_t), Sq(OfDouble(p.ks_stdev)))
        ksr == FMul(FInt(p.k * p.N), [m |-> 1, e |-> 0 - 2 * (p.ks_t * p.ks_basebit + 1) - 3])
    IN FAdd(FAdd(br, rnd), FAdd(ks, ksr))
\* variance of the modulus-switch rounding of a bootstrap input: (n/2 + 1) / (12 (2N)^2)  (rounded up to /8 ... and full n)
MsVar(p) == FMul(FInt(p.n + 2), [m |-> 1, e |-> 0 - 2 * 11 - 3])
\* 12 sigma of decoding margin at every gate: binary gates (margin 1/8, inputs +-a +-b), XOR/XNOR (margin 1/4, 2a + 2b), MUX final sum (margin 1/8, two bootstrap outputs)
Margin12(p, gv) == LET v2 == FAdd(FAdd(gv, gv), MsVar(p))                       \* var(a) + var(b) + rounding
                       v8 == FAdd(FMul(FInt(8), gv), MsVar(p))                  \* var(2a + 2b) + rounding
                   IN /\ FLeq(FMul(FInt(144), v2), [m |-> 1, e |-> -6])         \* (12 sigma)^2 <= (1/8)^2
                      /\ FLeq(FMul(FInt(144), v8), [m |-> 1, e |-> -4])         \* (12 sigma)^2 <= (1/4)^2
\* the bounds the property quotes: 0.0037 (128-bit), 0.0047 (80-bit):  squares rounded up, as m * 2^e
Bound2(s) == IF s = "set128" THEN [m |-> 14356, e |-> -30] ELSE [m |-> 23164, e |-> -30]       \* 0.0037^2 = 1.369e-5, 0.0047^2 = 2.209e-5
=============================================================================
