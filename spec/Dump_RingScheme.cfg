CONSTANTS W = 4
 NP = 8
 KK = 1
 LL = 2
 BGB = 2
 NN = 2
 T = 2
 BB = 2
