SPECIFICATION TSpec
CONSTANTS W = 8
 NP = 4
 KK = 1
 LL = 2
 BGB = 4
 NN = 1
 T = 2
 BB = 2
 MuPool <- DefaultMuPool
 Exps = {1}
 Msizes = {2, 4, 16}
 Tags = {1}
 MaxOps = 1000000
 AlgMutant = "none"
 FFTTol = 8
INVARIANT WellFormed
INVARIANT Exercised
POSTCONDITION Accepted
CHECK_DEADLOCK FALSE
