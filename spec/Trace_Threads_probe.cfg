SPECIFICATION ThSpec
POSTCONDITION Accepted
CHECK_DEADLOCK FALSE
