SPECIFICATION TSpec
CONSTANTS Budget = 100000
 Relax = FALSE
 ParamKind = "custom"
INVARIANT NoDangling
INVARIANT DeadIsEmpty
INVARIANT Exercised
POSTCONDITION Accepted
CHECK_DEADLOCK FALSE
