----------------------------- MODULE Table_C08 -----------------------------
(* Rows printed by harness/h_lwe.cpp (mode ks) validated against LweScheme's key switch at full width (C08).     *)
(* The key-switching key is produced by the real generator with noise level 0, so the relation is exact.        *)
EXTENDS Table, Word32
VARIABLE i
Init == i \in 1..NRows
Next == UNCHANGED i
Spec == Init /\ [][Next]_i
R == Rows[i]
Wd(p) == [h |-> p[1], l |-> p[2]]
Phase32(c, key, n) == WSub(Wd(c[n + 1]), WSum([q \in 1..n |-> IF key[q] = 1 THEN Wd(c[q]) ELSE WZero]))

\* a rounded to nearest on `bits` bits: ((a + 2^(31-bits)) >> (32-bits)) << (32-bits), wrapping   (LweScheme.RoundedSum / KSDigit at W = 32)
ClearLow(w, s) == IF s >= 16 THEN [h |-> w.h - (w.h % 2^(s - 16)), l |-> 0] ELSE [h |-> w.h, l |-> w.l - (w.l % 2^s)]
RoundTo(w, bits) == LET s == 32 - bits IN ClearLow(WAdd(w, WShl(1, s - 1)), s)
\* as stated: |a - Round(a)| <= 2^(31-bits), ties either way
IsRoundTo32(r, w, bits) == LET s == 32 - bits IN /\ ClearLow(r, s) = r /\ WAbsLeq(WSub(w, r), WShl(1, s - 1))

\* digit j (1 = most significant) of a word already rounded to t*basebit bits
DigitOf(r, j, bb) == LET s == 32 - j * bb  base == 2^bb IN
                     IF s >= 16 THEN (r.h \div 2^(s - 16)) % base
                     ELSE (((r.h % 2^(IF s + bb > 16 THEN s + bb - 16 ELSE 0)) * 2^(16 - s)) + (r.l \div 2^s)) % base
Noisy == "en" \in DOMAIN R
\* the noise of the rows actually used: row (i, j, d) for every input coefficient i (whatever its key bit) and every level j whose digit d is not 0
UsedNoise == WSum([q \in 1..(R.nin * R.t) |->
                LET ci == ((q - 1) \div R.t) + 1  lj == ((q - 1) % R.t) + 1
                    d == DigitOf(RoundTo(Wd(R.a[ci]), R.t * R.bb), lj, R.bb)
                IN IF d = 0 THEN WZero ELSE Wd(R.en[ci][lj][d])])
RowKs == LET bits == R.t * R.bb
             rs == [q \in 1..R.nin |-> IF R.kin[q] = 1 THEN RoundTo(Wd(R.a[q]), bits) ELSE WZero]
             phin == WSub(R.b, WSum([q \in 1..R.nin |-> IF R.kin[q] = 1 THEN Wd(R.a[q]) ELSE WZero]))
             w == Len(SelectSeq(R.kin, LAMBDA x : x = 1))
         IN /\ bits <= 31 /\ R.can = 0
            /\ \A q \in 1..R.nin : IsRoundTo32(RoundTo(Wd(R.a[q]), bits), Wd(R.a[q]), bits)          \* the model rounds to nearest
            /\ R.po = (IF Noisy THEN WSub(WSub(R.b, WSum(rs)), UsedNoise) ELSE WSub(R.b, WSum(rs)))      \* exact relation: rounding, plus (noisy key) the noise of the rows actually used
            /\ (Len(R.out) > 0 => Phase32(R.out, R.kout, R.nout) = R.po)                              \* lwePhase agrees with the sample
            \* as stated: |phase_out - phase_in| <= (#set key bits) * 2^-(t*basebit+1)
            /\ ((~Noisy /\ (w = 0 \/ 2^(31 - bits) <= (2^30) \div w)) => WAbsLeq(WSub(R.po, phin), WOfInt(w * 2^(31 - bits))))
\* rows of the generated key: ks[i][j][h] encrypts s_i * h / base^j (noise 0); digit 0 rows are trivial
RowKsRow == /\ R.ph = (IF R.s = 1 THEN WShl(R.h, 32 - R.j * R.bb) ELSE WZero)
            /\ (R.h = 0 => R.az = 1)
RowOK == CASE R.k = "ks" -> RowKs [] R.k = "ksrow" -> RowKsRow [] OTHER -> FALSE
=============================================================================
