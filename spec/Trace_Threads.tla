---------------------------- MODULE Trace_Threads ----------------------------
(***************************************************************************)
(* Recorded multi-threaded executions (harness/h_threads.cpp: hook events  *)
(* from the FFT processors ordered by a global atomic sequence number,     *)
(* plus one Eval event per evaluation) validated against the Threads       *)
(* design by identity, never by timing:                                    *)
(*  - a processor is used only by the live thread that constructed it      *)
(*    (so a shared processor is rejected in every schedule);               *)
(*  - every FFTW planner call (plan creation and destruction) happens      *)
(*    while the calling thread holds the planner mutex;                    *)
(*  - when a thread has been joined, the processor it constructed has been *)
(*    destroyed;                                                           *)
(*  - every evaluation's output is the memoised function of (operation,    *)
(*    key, inputs) across all threads, histories and the sequential        *)
(*    reference run (Trace_Eval).                                          *)
(***************************************************************************)
EXTENDS Trace_Eval
VARIABLES live,        \* threads started and not yet joined (0 = main)
          owner,       \* owner[proc] = thread that constructed the live processor at that address, or -1
          lock,        \* holder of the planner mutex, or -1
          nuse,        \* number of Use records accepted (vacuity guard)
          pcre, pproc  \* Lagrange polynomials of the probe: the thread that created each, and the processor its precomp field points to
tvars == <<l, memo, nhit, live, owner, lock, nuse, pcre, pproc>>
ProcIds == {Tr[i].proc : i \in {j \in 1..Len(Tr) : Tr[j].e \in {"ProcCtor", "ProcDtor", "ProcShared", "Use", "PolyNew", "PolyUse"}}}
Shared == -2       \* owner value of the processor that lives as long as the process (read-only fields for all polynomials; belongs to no thread)
PolyIds == {Tr[i].poly : i \in {j \in 1..Len(Tr) : Tr[j].e \in {"PolyNew", "PolyUse"}}}
ThInit == TInit /\ live = {0} /\ owner = [p \in ProcIds |-> -1] /\ lock = -1 /\ nuse = 0 /\ pcre = [p \in PolyIds |-> -1] /\ pproc = [p \in PolyIds |-> -1]
Keep(vs) == UNCHANGED vs
ThStart == /\ Ev.e = "ThreadStart" /\ live' = live \cup {Ev.tid} /\ Keep(<<memo, nhit, owner, lock, nuse, pcre, pproc>>)
ThEnd   == /\ Ev.e = "ThreadEnd" /\ Ev.tid \in live /\ Keep(<<memo, nhit, live, owner, lock, nuse, pcre, pproc>>)
\* joined threads: every processor they constructed must have been destroyed (released on thread exit)
ThJoined == /\ Ev.e = "Joined"
            /\ \A p \in ProcIds : owner[p] = -1 \/ owner[p] = Shared \/ owner[p] = 0 \/ owner[p] > Ev.upto
            /\ live' = {t \in live : t = 0 \/ t > Ev.upto} /\ Keep(<<memo, nhit, owner, lock, nuse, pcre, pproc>>)
PCtor == /\ Ev.e = "ProcCtor" /\ Ev.tid \in live /\ owner[Ev.proc] = -1
         /\ owner' = [owner EXCEPT ![Ev.proc] = Ev.tid] /\ Keep(<<memo, nhit, live, lock, nuse, pcre, pproc>>)
\* the process-lifetime processor, constructed (ProcCtor) by whichever thread creates the first polynomial and then declared shared: it is never a thread's own
\* (SharedInit.tla: there is exactly one, however many threads create their first polynomial at the same moment)
PShared == /\ Ev.e = "ProcShared" /\ owner[Ev.proc] = Ev.tid /\ \A p \in ProcIds : owner[p] # Shared
           /\ owner' = [owner EXCEPT ![Ev.proc] = Shared] /\ Keep(<<memo, nhit, live, lock, nuse, pcre, pproc>>)
PDtor == /\ Ev.e = "ProcDtor" /\ owner[Ev.proc] = Ev.tid                           \* destroyed by its own thread, at that thread's exit
         /\ owner' = [owner EXCEPT ![Ev.proc] = -1] /\ Keep(<<memo, nhit, live, lock, nuse, pcre, pproc>>)
\* identity: the processor (and scratch buffer) a thread ran its transforms on is the one that thread constructed
PUse  == /\ Ev.e = "Use" /\ Ev.tid \in live /\ owner[Ev.proc] = Ev.tid /\ Ev.a >= 1
         /\ nuse' = nuse + 1 /\ Keep(<<memo, nhit, live, owner, lock, pcre, pproc>>)
LAcq  == /\ Ev.e = "LockAcq" /\ lock = -1 /\ lock' = Ev.tid /\ Keep(<<memo, nhit, live, owner, nuse, pcre, pproc>>)
LRel  == /\ Ev.e = "LockRel" /\ lock = Ev.tid /\ lock' = -1 /\ Keep(<<memo, nhit, live, owner, nuse, pcre, pproc>>)
\* PlannerExclusive: any call into the FFTW planner is made by the holder of the planner mutex
Plan  == /\ Ev.e \in {"PlanCreate", "PlanCreated", "PlanDestroy", "PlanDestroyed"} /\ lock = Ev.tid
         /\ Keep(<<memo, nhit, live, owner, lock, nuse, pcre, pproc>>)
ThEval == TEval /\ Ev.tid \in live /\ Keep(<<live, owner, lock, nuse, pcre, pproc>>)
\* a Lagrange polynomial records (in its precomp field) a processor: as pinned, that of the thread that creates it; as repaired (fix 0f4e6fe), the shared one ...
\* (a precomp field that points at something that never was an FFT processor in this trace is outside what the trace can judge: no claim is made about it)
EverProc == {Tr[i].proc : i \in {j \in 1..Len(Tr) : Tr[j].e = "ProcCtor"}}
PolyNew == /\ Ev.e = "PolyNew" /\ Ev.tid \in live /\ (Ev.proc \in EverProc => owner[Ev.proc] \in {Ev.tid, Shared})
           /\ pcre' = [pcre EXCEPT ![Ev.poly] = Ev.tid] /\ pproc' = [pproc EXCEPT ![Ev.poly] = Ev.proc]
           /\ Keep(<<memo, nhit, live, owner, lock, nuse>>)
\* ... and every operation that writes it reads that processor: it must still be alive and still be its creator's (C16: no use after free over thread create / exit histories)
PolyUse == /\ Ev.e = "PolyUse" /\ Ev.tid \in live /\ pproc[Ev.poly] = Ev.proc /\ (Ev.proc \in EverProc => owner[Ev.proc] \in {pcre[Ev.poly], Shared})
           /\ Keep(<<memo, nhit, live, owner, lock, nuse, pcre, pproc>>)
\* the client thread of the storm phase: it encrypted, decrypted and encoded alongside the evaluators, and every one of its own round trips came out right
Client == /\ Ev.e = "Client" /\ Ev.tid \in live /\ Ev.wrong = 0 /\ Ev.ops >= 1 /\ Keep(<<memo, nhit, live, owner, lock, nuse, pcre, pproc>>)
ThNext == l <= Len(Tr) /\ l' = l + 1 /\ (Client \/ ThStart \/ ThEnd \/ ThJoined \/ PCtor \/ PShared \/ PDtor \/ PUse \/ LAcq \/ LRel \/ Plan \/ ThEval \/ PolyNew \/ PolyUse)
ThSpec == ThInit /\ [][ThNext]_tvars
Exercised == (l = Len(Tr) + 1) => nhit >= 1 /\ nuse >= 1
=============================================================================
