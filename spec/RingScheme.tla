----------------------------- MODULE RingScheme -----------------------------
(***************************************************************************)
(* TLWE / TGSW over Z_Q[X]/(X^NP+1), Q = 2^W, bit-exact and at reduced     *)
(* size: external product, CMux, blind rotation with the loop structure    *)
(* of the code, sample extraction, modulus switch, bootstrapping with and  *)
(* without key switch (src/libtfhe/tgsw-functions.cpp,                      *)
(* tgsw-fft-operations.cpp, lwe-bootstrapping-functions(-fft).cpp,         *)
(* lwe-keyswitch-functions.cpp, lwe.cpp).  No randomness: masks are        *)
(* fixed pseudo-random data of the module, noise is zero.                  *)
(*                                                                         *)
(* Through the embeddings  x |-> x*2^(32-W)  and  X |-> X^(1024/NP)  a     *)
(* behaviour of this model is a behaviour of the 32-bit, N = 1024 code     *)
(* on the embedded inputs (requires 2*NP = 2^W so that the modulus switch  *)
(* is exact on the grid, and LL*BGB = W, T*BB = W so that no rounding      *)
(* falls on a grid point).                                                 *)
(***************************************************************************)
EXTENDS Integers, Sequences, TLC
CONSTANTS W, NP,       \* torus bits, ring degree
          KK,          \* TLWE mask count k
          LL, BGB,     \* gadget decomposition (l, Bgbit), LL*BGB <= W
          NN,          \* LWE dimension n
          T, BB        \* key-switch layout (t, basebit), T*BB <= W
Q      == 2^W
Idx    == 0..(NP - 1)
Md(x)  == x % Q
Bg     == 2^BGB
HalfBg == Bg \div 2
Base   == 2^BB
Comp   == 0..KK                 \* components of a TLWE sample: masks 0..KK-1, body KK
RECURSIVE SumF(_, _)
SumF(f, j) == IF j < 0 THEN 0 ELSE f[j] + SumF(f, j - 1)
Zero   == TLCEval([i \in Idx |-> 0])
\* TLCEval forces a function value: TLC's function constructors are lazy and re-evaluate their body at every application
PAdd(a, b) == TLCEval([i \in Idx |-> Md(a[i] + b[i])])
PSub(a, b) == TLCEval([i \in Idx |-> Md(a[i] - b[i])])
\* negacyclic product of an integer polynomial a with a torus polynomial b (Ring!NegMul with 0-based functions)
RECURSIVE NMSum(_, _, _, _)
NMSum(a, b, i, j) == IF j < 0 THEN 0 ELSE (IF j <= i THEN a[j] * b[i - j] ELSE 0 - (a[j] * b[NP + i - j])) + NMSum(a, b, i, j - 1)
NegMul(aa, bb0) == LET a == TLCEval(aa)  b == TLCEval(bb0) IN TLCEval([i \in Idx |-> Md(NMSum(a, b, i, NP - 1))])
\* X^e * p as implemented (two cases, two loops), 0 <= e < 2NP
MulXai(e0, p0) == LET e == e0  p == TLCEval(p0) IN IF e < NP THEN TLCEval([i \in Idx |-> IF i < e THEN Md(0 - p[i - e + NP]) ELSE p[i - e]])
                ELSE LET ee == e - NP IN TLCEval([i \in Idx |-> IF i < ee THEN p[i - ee + NP] ELSE Md(0 - p[i - ee])])
\* a TLWE sample is a function Comp -> polynomial
TZero == TLCEval([c \in Comp |-> Zero])
TAdd(x, y) == TLCEval([c \in Comp |-> PAdd(x[c], y[c])])
TMulXaiM1(e, x) == TLCEval([c \in Comp |-> PSub(MulXai(e, x[c]), x[c])])          \* tLweMulByXaiMinusOne
TTrivial(mu) == TLCEval([c \in Comp |-> IF c = KK THEN mu ELSE Zero])             \* tLweNoiselessTrivial
(* ---- gadget decomposition, as implemented (module Gadget on polynomials) ---- *)
RECURSIVE OffSum(_)
OffSum(p) == IF p = 0 THEN 0 ELSE 2^(W - p * BGB) + OffSum(p - 1)
Offset == Md(HalfBg * OffSum(LL))
H(p)   == 2^(W - p * BGB)
Digit(x, p) == ((Md(x + Offset) \div H(p)) % Bg) - HalfBg
Dec(poly, p) == TLCEval([i \in Idx |-> Digit(poly[i], p)])
(* ---- key material: deterministic pseudo-random, noiseless --------------------- *)
Rnd(x) == ((x * 37 + 11) % 101) % Q
SKey   == [c \in 0..(KK - 1) |-> [i \in Idx |-> IF (i + c) % 3 = 1 THEN 1 ELSE 0]]       \* ring key (k binary polynomials)
LKey   == [i \in 1..NN |-> IF i % 2 = 1 THEN 1 ELSE 0]                                     \* LWE key
Mask(tag) == TLCEval([i \in Idx |-> Rnd(tag * 13 + i * 7 + 3)])
\* (LET x0 == x forces one evaluation of an argument that TLC would otherwise re-evaluate at every reference)
TPhase(x) == LET x0 == x
                 S == [c \in 0..(KK - 1) |-> NegMul(SKey[c], x0[c])]                             \* tLwePhase: b - sum s_c * a_c
             IN TLCEval([i \in Idx |-> Md(x0[KK][i] - SumF([c \in 0..(KK - 1) |-> S[c][i]], KK - 1))])
\* noiseless TLWE encryption of 0 with masks from `tag`
TEncZero(tag) == LET as == [c \in 0..(KK - 1) |-> Mask(tag * 5 + c)]
                     pr == [c \in 0..(KK - 1) |-> NegMul(SKey[c], as[c])]
                     bb == [i \in Idx |-> Md(SumF([c \in 0..(KK - 1) |-> pr[c][i]], KK - 1))]
                 IN TLCEval([c \in Comp |-> IF c = KK THEN bb ELSE as[c]])
\* TGSW sample of the integer polynomial m: row (c, p) = TLWE(0) + m * H(p) on component c     (rows indexed 1..(KK+1)*LL, r = c*LL + p)
RowC(r) == (r - 1) \div LL
RowP(r) == ((r - 1) % LL) + 1
TGsw(m, tag) == TLCEval([r \in 1..((KK + 1) * LL) |->
                   LET z == TEncZero(tag * 16 + r) IN
                   TLCEval([c \in Comp |-> IF c = RowC(r) THEN PAdd(z[c], [i \in Idx |-> Md(m[i] * H(RowP(r)))]) ELSE z[c]])])
Const(v) == [i \in Idx |-> IF i = 0 THEN v ELSE 0]
BK == TLCEval([i \in 1..NN |-> TGsw(Const(LKey[i]), i)])                                             \* bootstrapping key: bk_i encrypts s_i
(* ---- external product, CMux, blind rotation as implemented ---------------------- *)
ExtProd(g, x) == LET g0 == g  x0 == x
                     D == [r \in 1..((KK + 1) * LL) |-> Dec(x0[RowC(r)], RowP(r))]                \* tGswTLweDecompH
                     RECURSIVE Acc(_)
                     Acc(r) == IF r = 0 THEN TZero ELSE LET s == Acc(r - 1) IN TLCEval([c \in Comp |-> PAdd(s[c], NegMul(D[r], g0[r][c]))])
                 IN Acc((KK + 1) * LL)
CMux(acc, g, e0) == LET a0 == acc  e == e0  g0 == g  t == TMulXaiM1(e, a0) IN TAdd(ExtProd(g0, t), a0)                                 \* tfhe_MuxRotate: ACC + BKi * ((X^e - 1) * ACC)
RECURSIVE Blind(_, _, _, _)
Blind(acc, bk, bara, i) == LET a0 == acc IN
                           IF i > Len(bara) THEN a0                                         \* tfhe_blindRotate: skips barai = 0
                           ELSE LET ei == bara[i]  gi == bk[i]
                                    nx == IF ei = 0 THEN a0 ELSE CMux(a0, gi, ei) IN Blind(nx, bk, bara, i + 1)
(* ---- modulus switch, extraction, bootstrapping ------------------------------------ *)
MSw(x) == (((x * 2 * NP) + (Q \div 2)) \div Q) % (2 * NP)                                   \* modSwitchFromTorus32(x, 2N) at W bits
\* tLweExtractLweSampleIndex at index 0: n = KK*NP, a[c*NP + j] = x_c[0] (j = 0), -x_c[NP - j] (j > 0); b = x_KK[0]
Extract(xx) == LET x == TLCEval(xx) IN [a |-> TLCEval( [q \in 0..(KK * NP - 1) |-> LET c == q \div NP  j == q % NP IN IF j = 0 THEN x[c][0] ELSE Md(0 - x[c][NP - j])]), b |-> x[KK][0]]
XKey == [q \in 0..(KK * NP - 1) |-> SKey[q \div NP][q % NP]]                                 \* tLweExtractKey
PhaseX(uu) == LET u == uu IN Md(u.b - SumF([q \in 0..(KK * NP - 1) |-> u.a[q] * XKey[q]], KK * NP - 1))
\* tfhe_blindRotateAndExtract: test vector X^(2N - barb) * v, blind rotation, extraction of coefficient 0
RotateAndExtract(v, barb0, bara0) == LET barb == barb0  bara == bara0
                                       tv == IF barb = 0 THEN v ELSE MulXai(2 * NP - barb, v)
                                       start == TTrivial(tv)
                                   IN Extract(Blind(start, BK, bara, 1))
BootWoKS(x0, mu0) == LET x == x0  mu == mu0
                         tv == [i \in Idx |-> mu]  barb == MSw(x.b)  bara == [i \in 1..NN |-> MSw(x.a[i])]
                     IN RotateAndExtract(tv, barb, bara)
\* anticyclic extension of v: v~[p] for p in [0, 2NP)
AntiExt(v, p) == IF p < NP THEN v[p] ELSE Md(0 - v[p - NP])
\* the rounded phase the property speaks of
RoundedPhase(x) == (MSw(x.b) - SumF([q \in 0..(NN - 1) |-> MSw(x.a[q + 1]) * LKey[q + 1]], NN - 1)) % (2 * NP)
(* ---- key switch on a noiseless key (LweScheme!KeySwitchCode over the ring key) ---- *)
KSMask(i, j, h) == [q \in 1..NN |-> Rnd(i * 31 + j * 17 + h * 5 + q)]
Dot(a) == SumF([q \in 0..(NN - 1) |-> a[q + 1] * LKey[q + 1]], NN - 1)
KSRow(i, j, h) == LET a == KSMask(i, j, h) IN [a |-> a, b |-> Md(Dot(a) + XKey[i] * h * 2^(W - j * BB))]      \* i in 0..KK*NP-1, j in 1..T
Prec == IF W > BB * T THEN 2^(W - (1 + BB * T)) ELSE 0
KDigit(x, j) == (Md(x + Prec) \div 2^(W - j * BB)) % Base
RECURSIVE KSw(_, _, _)
KSw(u, rr, idx) == LET r == rr IN IF idx = KK * NP * T THEN r
   ELSE LET i == idx \div T  j == (idx % T) + 1  d == KDigit(u.a[i], j)
            nx == IF d = 0 THEN r ELSE LET row == KSRow(i, j, d) IN [a |-> [q \in 1..NN |-> Md(r.a[q] - row.a[q])], b |-> Md(r.b - row.b)]
        IN KSw(u, nx, idx + 1)
KeySwitch(uu) == LET u == uu IN KSw(u, [a |-> [q \in 1..NN |-> 0], b |-> u.b], 0)
Boot(x, mu) == KeySwitch(BootWoKS(x, mu))
PhaseL(cc) == LET c == cc IN Md(c.b - Dot(c.a))
=============================================================================
