---- MODULE MachineP_TTrace_1790551843 ----
EXTENDS Sequences, TLCExt, Toolbox, MachineP_TEConstants, MachineP, Naturals, TLC

_expression ==
    LET MachineP_TEExpression == INSTANCE MachineP_TEExpression
    IN MachineP_TEExpression!expression
----

_trace ==
    LET MachineP_TETrace == INSTANCE MachineP_TETrace
    IN MachineP_TETrace!trace
----

_inv ==
    ~(
        TLCGet("level") = Len(_TETrace)
        /\
        reg = ((r0 :> [bit |-> 0, err |-> -1048576, def |-> TRUE] @@ r1 :> [bit |-> 0, err |-> -1048576, def |-> TRUE] @@ r2 :> [bit |-> 0, err |-> 0, def |-> TRUE]))
        /\
        plain = ((r0 :> 1 @@ r1 :> 0 @@ r2 :> 0))
    )
----

_init ==
    /\ reg = _TETrace[1].reg
    /\ plain = _TETrace[1].plain
----

_next ==
    /\ \E i,j \in DOMAIN _TETrace:
        /\ \/ /\ j = i + 1
              /\ i = TLCGet("level")
        /\ reg  = _TETrace[i].reg
        /\ reg' = _TETrace[j].reg
        /\ plain  = _TETrace[i].plain
        /\ plain' = _TETrace[j].plain

\* Uncomment the ASSUME below to write the states of the error trace
\* to the given file in Json format. Note that you can pass any tuple
\* to `JsonSerialize`. For example, a sub-sequence of _TETrace.
    \* ASSUME
    \*     LET J == INSTANCE Json
    \*         IN J!JsonSerialize("MachineP_TTrace_1790551843.json", _TETrace)

=============================================================================

 Note that you can extract this module `MachineP_TEExpression`
  to a dedicated file to reuse `expression` (the module in the 
  dedicated `MachineP_TEExpression.tla` file takes precedence 
  over the module `MachineP_TEExpression` below).

---- MODULE MachineP_TEExpression ----
EXTENDS Sequences, TLCExt, Toolbox, MachineP_TEConstants, MachineP, Naturals, TLC

expression == 
    [
        \* To hide variables of the `MachineP` spec from the error trace,
        \* remove the variables below.  The trace will be written in the order
        \* of the fields of this record.
        reg |-> reg
        ,plain |-> plain
        
        \* Put additional constant-, state-, and action-level expressions here:
        \* ,_stateNumber |-> _TEPosition
        \* ,_regUnchanged |-> reg = reg'
        
        \* Format the `reg` variable as Json value.
        \* ,_regJson |->
        \*     LET J == INSTANCE Json
        \*     IN J!ToJson(reg)
        
        \* Lastly, you may build expressions over arbitrary sets of states by
        \* leveraging the _TETrace operator.  For example, this is how to
        \* count the number of times a spec variable changed up to the current
        \* state in the trace.
        \* ,_regModCount |->
        \*     LET F[s \in DOMAIN _TETrace] ==
        \*         IF s = 1 THEN 0
        \*         ELSE IF _TETrace[s].reg # _TETrace[s-1].reg
        \*             THEN 1 + F[s-1] ELSE F[s-1]
        \*     IN F[_TEPosition - 1]
    ]

=============================================================================



Parsing and semantic processing can take forever if the trace below is long.
 In this case, it is advised to uncomment the module below to deserialize the
 trace from a generated binary file.

\*
\*---- MODULE MachineP_TETrace ----
\*EXTENDS IOUtils, MachineP_TEConstants, MachineP, TLC
\*
\*trace == IODeserialize("MachineP_TTrace_1790551843.bin", TRUE)
\*
\*=============================================================================
\*

---- MODULE MachineP_TETrace ----
EXTENDS MachineP_TEConstants, MachineP, TLC

trace == 
    <<
    ([reg |-> (r0 :> [bit |-> 0, err |-> -1048576, def |-> TRUE] @@ r1 :> [bit |-> 0, err |-> -1048576, def |-> TRUE] @@ r2 :> [bit |-> 0, err |-> 0, def |-> TRUE]),plain |-> (r0 :> 0 @@ r1 :> 0 @@ r2 :> 0)]),
    ([reg |-> (r0 :> [bit |-> 0, err |-> -1048576, def |-> TRUE] @@ r1 :> [bit |-> 0, err |-> -1048576, def |-> TRUE] @@ r2 :> [bit |-> 0, err |-> 0, def |-> TRUE]),plain |-> (r0 :> 1 @@ r1 :> 0 @@ r2 :> 0)])
    >>
----


=============================================================================

---- MODULE MachineP_TEConstants ----
EXTENDS MachineP

CONSTANTS r0, r1, r2

=============================================================================

---- CONFIG MachineP_TTrace_1790551843 ----
CONSTANTS
    Regs = { r0 , r1 , r2 }
    U = 16777216
    ECap = 1048576
    DCap = 524287
    NotSlack = 0
    Mutant = "none"
    r0 = r0
    r2 = r2
    r1 = r1

INVARIANT
    _inv

CHECK_DEADLOCK
    \* CHECK_DEADLOCK off because of PROPERTY or INVARIANT above.
    FALSE

INIT
    _init

NEXT
    _next

CONSTANT
    _TETrace <- _trace

ALIAS
    _expression
=============================================================================
\* Generated on Sun Sep 27 23:30:44 UTC 2026