------------------------------- MODULE Gates -------------------------------
(***************************************************************************)
(* The gate formulas of src/libtfhe/boot-gates.cpp as data: every binary   *)
(* gate is  bootstrap( K*1/8 + CA*ca + CB*cb )  with output message 1/8;   *)
(* and, written independently, the Boolean truth tables the property       *)
(* names.                                                                  *)
(***************************************************************************)
EXTENDS Integers
Bin == {"NAND", "OR", "AND", "XOR", "XNOR", "NOR", "ANDNY", "ANDYN", "ORNY", "ORYN"}
\* constant in units of 1/8  (XorConst = 1/4 = 2/8, XnorConst = -1/4)
K(g)  == CASE g = "NAND" -> 1 [] g = "OR" -> 1 [] g = "AND" -> -1 [] g = "XOR" -> 2 [] g = "XNOR" -> -2 [] g = "NOR" -> -1
           [] g = "ANDNY" -> -1 [] g = "ANDYN" -> -1 [] g = "ORNY" -> 1 [] g = "ORYN" -> 1
\* coefficient of the first / second input  (lweAddTo +1, lweSubTo -1, lweAddMulTo 2 / lweSubMulTo 2)
CA(g) == CASE g = "NAND" -> -1 [] g = "OR" -> 1 [] g = "AND" -> 1 [] g = "XOR" -> 2 [] g = "XNOR" -> -2
           [] g = "NOR" -> -1 [] g = "ANDNY" -> -1 [] g = "ANDYN" -> 1 [] g = "ORNY" -> -1 [] g = "ORYN" -> 1
CB(g) == CASE g = "NAND" -> -1 [] g = "OR" -> 1 [] g = "AND" -> 1 [] g = "XOR" -> 2 [] g = "XNOR" -> -2
           [] g = "NOR" -> -1 [] g = "ANDNY" -> 1 [] g = "ANDYN" -> -1 [] g = "ORNY" -> 1 [] g = "ORYN" -> -1
\* truth tables (a, b in {0,1}); ANDNY = (not a) and b, ANDYN = a and (not b), ORNY = (not a) or b, ORYN = a or (not b)
Or2(a, b) == IF a + b > 0 THEN 1 ELSE 0
TT(g, a, b) == CASE g = "NAND" -> 1 - a * b [] g = "OR" -> Or2(a, b) [] g = "AND" -> a * b
           [] g = "XOR" -> (a + b) % 2 [] g = "XNOR" -> 1 - ((a + b) % 2) [] g = "NOR" -> 1 - Or2(a, b)
           [] g = "ANDNY" -> (1 - a) * b [] g = "ANDYN" -> a * (1 - b) [] g = "ORNY" -> Or2(1 - a, b) [] g = "ORYN" -> Or2(a, 1 - b)
MuxTT(a, b, c) == IF a = 1 THEN b ELSE c
=============================================================================
