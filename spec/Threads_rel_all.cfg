SPECIFICATION Spec
CONSTANTS Thr = {t1,t2,t3}
 Calls = 1
 ProcScope = "thread"
 DtorLocked = TRUE
 UsesPlanner = TRUE
 PolyProc = "immortal"
 PolyShare = FALSE
 TableScope = "proc"
 TempScope = "call"
 DtorFrees = "all"
INVARIANT ReleasedOnExit
CHECK_DEADLOCK FALSE
