----------------------------- MODULE Trace_Eval -----------------------------
(***************************************************************************)
(* Evaluation calls of the real library as events carrying content hashes  *)
(* (harness/h_eval.cpp, h_threads.cpp).  The specification of an           *)
(* evaluation entry point, at this level of abstraction, is:               *)
(*   - frame: every input that is not the output object, the cloud key and *)
(*     the parameters are bit-for-bit unchanged; the generator is unmoved; *)
(*   - function: the output is a function of (operation, key content,      *)
(*     input contents) alone -- not of the thread, of what ran before, of  *)
(*     what runs concurrently, nor of whether the output object is one of  *)
(*     the inputs.  `memo` is that function as observed so far.            *)
(***************************************************************************)
EXTENDS Integers, Sequences, FiniteSets, TLC, Json, IOUtils
VARIABLES l, memo, nhit
Tr == ndJsonDeserialize(IOEnv.TRACE)
Ev == Tr[l]
KeyOf(e) == <<e.op, e.key, e.ins>>
MemoKeys == {KeyOf(Tr[i]) : i \in {j \in 1..Len(Tr) : Tr[j].e = "Eval"}}
None == <<-1, -1>>
TInit == l = 1 /\ memo = [k \in MemoKeys |-> None] /\ nhit = 0
Frame == /\ Ev.rng = 1                                                   \* evaluation draws no randomness
         /\ Ev.keya = Ev.key /\ Ev.para = Ev.par                         \* keys and parameters untouched
         /\ Len(Ev.insa) = Len(Ev.ins)
         /\ \A i \in 1..Len(Ev.ins) : (i - 1) \in {Ev.al[j] : j \in 1..Len(Ev.al)} \/ Ev.insa[i] = Ev.ins[i]    \* inputs untouched unless they are the output object
Function == LET k == KeyOf(Ev) IN
            IF memo[k] = None THEN memo' = [memo EXCEPT ![k] = Ev.out] /\ nhit' = nhit
            ELSE Ev.out = memo[k] /\ memo' = memo /\ nhit' = nhit + 1
TEval == Ev.e = "Eval" /\ Frame /\ Function
TNext == l <= Len(Tr) /\ l' = l + 1 /\ TEval
TSpec == TInit /\ [][TNext]_<<l, memo, nhit>>
Accepted == TLCGet("stats").diameter - 1 = Len(Tr)
\* vacuity guard: the memo was actually consulted (aliased twins / repeated evaluations exist in the trace)
MinHits == 1
MemoExercised == (l = Len(Tr) + 1) => nhit >= MinHits
=============================================================================
