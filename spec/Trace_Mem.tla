------------------------------ MODULE Trace_Mem ------------------------------
(* Scenario reports of harness/h_mem.cpp (allocation ledger) validated against the memory clauses of C16:                   *)
(*  - every object created through the allocation API and released through the matching deletion API is fully freed       *)
(*    (no live bytes or blocks left at the end of the scenario; per-thread FFT state released at thread exit);             *)
(*  - no red zone of any heap block was written (out-of-bounds write), no block freed twice, no crash;                     *)
(*  - every result of the scenario is the plaintext result, and is the same whatever byte fresh heap memory is filled      *)
(*    with and although freed memory is poisoned (no uninitialised or freed memory influences a result).                   *)
EXTENDS Integers, Sequences, TLC, Json, IOUtils
VARIABLES l, memo, nhit
Tr == ndJsonDeserialize(IOEnv.TRACE)
Ev == Tr[l]
Keys == {<<Tr[i].scen, Tr[i].cfg>> : i \in 1..Len(Tr)}
None == <<-1, -1>>
TInit == l = 1 /\ memo = [k \in Keys |-> None] /\ nhit = 0
\* strict windows: thread create/exit, and the window around a whole fresh thread that ran a scenario (objects, polynomial routines, a lifecycle) after the
\* process had already run it once (so neither per-thread state nor a one-time process-wide cache is mistaken for a leak)
Clean == /\ (Ev.strict = 1 => Ev.live_bytes = 0 /\ Ev.live_blocks = 0)   \* released
         /\ Ev.damaged = 0 /\ Ev.dfree = 0                          \* no out-of-bounds write into a red zone, no double free
         /\ Ev.okbits = Ev.bits                                     \* results are the plaintext results
TScenario == /\ Ev.e = "Scenario" /\ Clean
             /\ LET k == <<Ev.scen, Ev.cfg>> IN
                  IF memo[k] = None THEN memo' = [memo EXCEPT ![k] = Ev.h] /\ nhit' = nhit
                  ELSE Ev.h = memo[k] /\ memo' = memo /\ nhit' = nhit + 1          \* same scenario, other fill pattern: identical results and exports
TNext == l <= Len(Tr) /\ l' = l + 1 /\ TScenario                     \* a "Crash" event matches no action
TSpec == TInit /\ [][TNext]_<<l, memo, nhit>>
Accepted == TLCGet("stats").diameter - 1 = Len(Tr)
Exercised == (l = Len(Tr) + 1) => nhit >= 1
=============================================================================
