------------------------------ MODULE Collector ------------------------------
(***************************************************************************)
(* The process-wide parameter collector (tfhe_garbage_collector.cpp) under *)
(* concurrent importers.  register_param is  init() ; vector::push_back :  *)
(* a check-then-create of the singleton followed by an unsynchronised      *)
(* append (read size, store element, store size).  The header carries      *)
(* "TODO: parallelization" on every entry point.  This module is outside   *)
(* the twenty listed properties (none of them quantifies over concurrent   *)
(* imports); it records, as a checked model, what a caller must serialise. *)
(***************************************************************************)
EXTENDS Integers, FiniteSets, Sequences, TLC
CONSTANTS Thr,          \* importing threads
          CallerLock    \* TRUE: the application wraps every import in one mutex of its own
VARIABLES pc, single,   \* single \in {"null"} \cup Thr : which thread's `new TfheGarbageCollector` is installed
          made,         \* set of threads that executed `new TfheGarbageCollector`
          size, slots,  \* the vector: committed size, contents
          rd,           \* rd[t] = size read by t's push_back
          lock
vars == <<pc, single, made, size, slots, rd, lock>>
Init == /\ pc = [t \in Thr |-> "start"] /\ single = "null" /\ made = {} /\ size = 0 /\ slots = <<>> /\ rd = [t \in Thr |-> 0] /\ lock = "none"
Acquire(t) == pc[t] = "start" /\ (CallerLock => lock = "none") /\ lock' = (IF CallerLock THEN t ELSE lock) /\ pc' = [pc EXCEPT ![t] = "check"] /\ UNCHANGED <<single, made, size, slots, rd>>
Check(t)   == pc[t] = "check" /\ pc' = [pc EXCEPT ![t] = IF single = "null" THEN "create" ELSE "read"] /\ UNCHANGED <<single, made, size, slots, rd, lock>>
Create(t)  == pc[t] = "create" /\ single' = t /\ made' = made \cup {t} /\ pc' = [pc EXCEPT ![t] = "read"]
              /\ size' = (IF single = "null" THEN size ELSE 0) /\ slots' = (IF single = "null" THEN slots ELSE <<>>)       \* a second singleton replaces the first: its vector is empty
              /\ UNCHANGED <<rd, lock>>
Read(t)    == pc[t] = "read" /\ rd' = [rd EXCEPT ![t] = size] /\ pc' = [pc EXCEPT ![t] = "store"] /\ UNCHANGED <<single, made, size, slots, lock>>
Store(t)   == pc[t] = "store" /\ slots' = (IF rd[t] < Len(slots) THEN [slots EXCEPT ![rd[t] + 1] = t] ELSE Append(slots, t))
              /\ size' = rd[t] + 1 /\ pc' = [pc EXCEPT ![t] = "done"] /\ lock' = (IF lock = t THEN "none" ELSE lock) /\ UNCHANGED <<single, made, rd>>
Next == \E t \in Thr : Acquire(t) \/ Check(t) \/ Create(t) \/ Read(t) \/ Store(t)
Spec == Init /\ [][Next]_vars
AllDone == \A t \in Thr : pc[t] = "done"
\* what finalize() needs in order to free everything the importers allocated
OneSingleton == Cardinality(made) <= 1
NothingLost  == AllDone => /\ size = Cardinality(Thr) /\ {slots[i] : i \in 1..size} = Thr
=============================================================================
