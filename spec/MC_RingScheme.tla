---------------------------- MODULE MC_RingScheme ----------------------------
(* C04 / C09 on the specification, exhaustively on the inputs of a reduced instance. *)
EXTENDS RingScheme
CONSTANTS Mode,        \* "boot" | "extprod" | "rotate"
          AVals,       \* values the mask coefficients of the input LWE sample range over (boot)
          Mutant       \* "none" | "barb" (test vector rotated by +barb) | "noskip" irrelevant | "extsign"
VARIABLES x, aux, grp
vars == <<x, aux, grp>>
T_ == 0..(Q - 1)
G == 16                \* fan-out: the cases are reached as successors of G initial states so that all TLC workers share the evaluation
Cases(g) == CASE Mode = "boot"    -> {c \in [x : [a : [1..NN -> AVals], b : T_], aux : {Q \div 8, Q \div 4, 3}] : c.x.b % G = g}
              [] Mode = "extprod" -> {c \in [x : [c0 : T_, pos : Idx, tag : 1..3], aux : 0..(NP + 3)] : c.x.c0 % G = g}
              [] Mode = "rotate"  -> {c \in [x : [e : [1..NN -> AVals]], aux : 0..(2 * NP - 1)] : (c.aux + c.x.e[1]) % G = g /\ c.aux \in {0, 1, NP - 1, NP, NP + 1, 2 * NP - 1, 5}}
Init == grp \in 0..(G - 1) /\ x = "none" /\ aux = -1
Next == aux = -1 /\ \E c \in Cases(grp) : x' = c.x /\ aux' = c.aux /\ grp' = grp
Spec == Init /\ [][Next]_vars
(* ---- C04: bootstrapping maps the rounded phase through the test vector -------------------------------- *)
RAE(v, barb, bara) == IF Mutant = "barb" THEN Extract(Blind(TTrivial(IF barb = 0 THEN v ELSE MulXai(barb, v)), BK, bara, 1)) ELSE RotateAndExtract(v, barb, bara)
BootSign == (aux # -1 /\ Mode = "boot") =>
    LET p == RoundedPhase(x)
        u == RAE([i \in Idx |-> aux], MSw(x.b), [i \in 1..NN |-> MSw(x.a[i])])
    IN  /\ PhaseX(u) = (IF p < NP THEN aux ELSE Md(0 - aux))                          \* +mu iff p in [0, N), exactly (noiseless key, exact decomposition)
        /\ PhaseL(KeySwitch(u)) = PhaseX(u)                                          \* with the final key switch (T*BB = W: exact)
\* arbitrary test polynomial: result encrypts the p-th coefficient of the anticyclic extension
Ramp == [i \in Idx |-> Md(3 * i + 1)]
BootGeneric == (aux # -1 /\ Mode = "boot") =>
    LET p == RoundedPhase(x) IN PhaseX(RAE(Ramp, MSw(x.b), [i \in 1..NN |-> MSw(x.a[i])])) = AntiExt(Ramp, p)
(* ---- C09: external product multiplies messages; blind rotation rotates by the secret exponent ------------ *)
\* messages: 0, 1, -1, X^j, a small-norm polynomial   (aux selects)
Msg == IF aux = 0 THEN Zero ELSE IF aux = 1 THEN Const(1) ELSE IF aux = 2 THEN Const(-1)
       ELSE IF aux = 3 THEN [i \in Idx |-> IF i < 3 THEN (i % 2) * 2 - 1 ELSE 0]
       ELSE [i \in Idx |-> IF i = aux - 4 THEN 1 ELSE 0]
\* a TLWE sample with one chosen body coefficient and pseudo-random masks
Smp == LET z == TEncZero(40 + x.tag) IN [c \in Comp |-> IF c = KK THEN [i \in Idx |-> IF i = x.pos THEN Md(z[KK][i] + x.c0) ELSE z[KK][i]] ELSE z[c]]
Neg1(m) == [i \in Idx |-> m[i]]
ExtProdMultiplies == (aux # -1 /\ Mode = "extprod") =>
    TPhase(ExtProd(TGsw(Msg, 7), Smp)) = NegMul(Msg, TPhase(Smp))                     \* exact: noiseless rows, LL*BGB = W
\* blind rotation: phase multiplied by X^(sum bara_i s_i)
RECURSIVE ExpSum(_, _)
ExpSum(e, i) == IF i = 0 THEN 0 ELSE e[i] * LKey[i] + ExpSum(e, i - 1)
RotateBySecret == (aux # -1 /\ Mode = "rotate") =>
    LET acc == TTrivial(MulXai(aux, Ramp))
        r == Blind(acc, BK, x.e, 1)
    IN TPhase(r) = MulXai((aux + ExpSum(x.e, NN)) % (2 * NP), Ramp)
=============================================================================
