----------------------------- MODULE Table_C18 -----------------------------
(* Outcomes of importing damaged streams (harness/h_trunc.cpp) validated against Serial (C18). *)
EXTENDS Serial, Table
VARIABLE i
Init == i \in 1..NRows
Next == UNCHANGED i
Spec == Init /\ [][Next]_i
R == Rows[i]
Tp(tr) == tr
LastIsText(ty, p) == LET e == Export(ty, p) IN e[Len(e)].c = "end"
IsPrefixOrEqual(a, b) == Len(a) <= Len(b) /\ \A q \in 1..Len(a) : a[q] = b[q]
RowCase ==
    CASE R.kind = "cut" ->
           IF R.off = R.len THEN R.outcome = "clean" /\ R.eq = 1                     \* control: the intact export is imported, completely and equal
           ELSE AllowedOutcome(R.outcome, FALSE, LastIsText(R.ty, R.p), R.len - R.off, R.tr, R.eq = 1)
      [] R.kind = "corrupt" -> R.outcome \in {"failed", "signal", "exit"}            \* a damaged tag or title is never accepted
      [] R.kind = "subst" ->                                                          \* an export of type src fed to the importer of type ty
           \/ R.outcome \in {"failed", "signal", "exit"}
           \/ R.outcome = "clean" /\ IsPrefixOrEqual(Export(R.ty, R.p), Export(R.src, R.p))    \* ... unless the stream does begin with a complete well-typed ty
RowOK == CASE R.e = "Case" -> RowCase [] OTHER -> FALSE
=============================================================================
