SPECIFICATION Spec
CONSTANTS W = 4
 NP = 8
 KK = 1
 LL = 2
 BGB = 2
 NN = 2
 T = 2
 BB = 2
 Mode = "boot"
 AVals = {0,3,8,13}
 Mutant = "none"
INVARIANT BootSign
INVARIANT BootGeneric
INVARIANT ExtProdMultiplies
INVARIANT RotateBySecret
CHECK_DEADLOCK FALSE
