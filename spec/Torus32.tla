------------------------------- MODULE Torus32 -------------------------------
(* The "as stated" predicates of TorusW at full width, on words given as halves (see Word32). *)
EXTENDS Word32
IsPow2(M) == \E k \in 1..30 : M = 2^k
Log2(M) == CHOOSE k \in 1..30 : M = 2^k
\* M * x = Ah * 2^32 + Al * 2^16 + B   (M <= 2^15)
Prod(M, w) == LET P == M * w.l
                  A == M * w.h + P \div 65536
              IN  [Ah |-> A \div 65536, Al |-> A % 65536, B |-> P % 65536]
\* r is an integer of [0,M) nearest to M*x/2^32 (ties either way)
IsNearest32(r, w, M) ==
    IF M <= 32768 THEN
       LET p == Prod(M, w) IN
         \/ r = p.Ah % M /\ (p.Al < 32768 \/ (p.Al = 32768 /\ p.B = 0))
         \/ r = (p.Ah + 1) % M /\ p.Al >= 32768
    ELSE \* power of two 2^m, 16 <= m <= 30: M*x/2^32 = x / 2^s, s = 32 - m in 2..16
       LET s  == 32 - Log2(M)
           fl == w.h * 2^(16 - s) + w.l \div 2^s
           fr == w.l % 2^s
       IN \/ r = fl % M /\ fr <= 2^(s - 1)
          \/ r = (fl + 1) % M /\ fr >= 2^(s - 1)
\* t is the torus encoding of mu/M: 0 <= mu*2^32 - t*M < 2M on the circle
IsEncoding32(t, mu, M) ==
    IF M <= 32768 THEN
       LET p == Prod(M, t) IN
         \/ mu = p.Ah % M /\ p.Al = 0 /\ p.B = 0
         \/ mu = (p.Ah + 1) % M /\ p.Al = 65535 /\ p.B > 65536 - 2 * M
    ELSE LET s == 32 - Log2(M) IN t.h * 2^(16 - s) + t.l \div 2^s = mu /\ t.l % 2^s = 0
WShrM(w, M) == IF M <= 32768 THEN Prod(M, w).Ah % M ELSE (w.h * 2^(Log2(M) - 16) + w.l \div 2^(32 - Log2(M))) % M
\* dec is the decryption of phase ph in the message space of size M: the encoding of a nearest message
IsDecryptionOf(dec, ph, M) == \E r \in {WShrM(ph, M), (WShrM(ph, M) + 1) % M} : IsNearest32(r, ph, M) /\ IsEncoding32(dec, r, M)
=============================================================================
