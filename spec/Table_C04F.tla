----------------------------- MODULE Table_C04F -----------------------------
(* Full-size bootstrapping (N = 1024, n up to 1030 > N, k in {1,2}) on trivial key material (harness/h_boot.cpp full):   *)
(* the state of the model is only the rounded phase p; TLC recomputes p from the logged words with the 32-bit           *)
(* modulus switch of C13 and requires the output phase to be +mu iff p in [0, N).                                        *)
EXTENDS Table, Word32
VARIABLE i
Init == i \in 1..NRows
Next == UNCHANGED i
Spec == Init /\ [][Next]_i
R == Rows[i]
Wd(p) == [h |-> p[1], l |-> p[2]]
N == 1024
MS(w) == ((w.h + 16) \div 32) % (2 * N)                 \* modSwitchFromTorus32(w, 2N): (w + 2^20) >> 21 mod 2N
RECURSIVE SumMS(_, _, _)
SumMS(s, lo, hi) == IF lo > hi THEN 0 ELSE IF lo = hi THEN MS(Wd(s[lo])) ELSE LET mid == (lo + hi) \div 2 IN SumMS(s, lo, mid) + SumMS(s, mid + 1, hi)
P == (MS(R.b) - SumMS(R.as, 1, Len(R.as))) % (2 * N)
\* ExtProdErrBound: once FFT rounding has pushed the accumulator off the gadget grid, every CMux step may add one truncation unit 2^(31 - l*Bgbit);
\* n steps, in units of 2^-32 (mu is >= 2^28, the bound stays below 2^21 for the layouts used)
Tol == (IF R.l * R.bg <= 31 THEN R.n * 2^(31 - R.l * R.bg) ELSE 0) + 64 * R.n + 256
RowFull == /\ WAbsLeq(WSub(R.ph, IF P < N THEN R.mu ELSE WNeg(R.mu)), WOfInt(Tol))
           /\ R.masknz = 0                               \* the accumulator stays trivial: the result does not depend on any key
RowOK == CASE R.k = "full" -> RowFull [] OTHER -> FALSE
=============================================================================
