----------------------------- MODULE Table_C04F -----------------------------
(* Full-size bootstrapping (N = 1024, n up to 1030 > N, k in {1,2}) on trivial key material (harness/h_boot.cpp full):   *)
(* the state of the model is only the rounded phase p; TLC recomputes p from the logged words with the 32-bit           *)
(* modulus switch of C13 and requires the output phase to be +mu iff p in [0, N).                                        *)
EXTENDS Table, Word32
VARIABLE i
Init == i \in 1..NRows
Next == UNCHANGED i
Spec == Init /\ [][Next]_i
R == Rows[i]
Wd(p) == [h |-> p[1], l |-> p[2]]
N == 1024
MS(w) == ((w.h + 16) \div 32) % (2 * N)                 \* modSwitchFromTorus32(w, 2N): (w + 2^20) >> 21 mod 2N
RECURSIVE SumMS(_, _, _)
SumMS(s, lo, hi) == IF lo > hi THEN 0 ELSE IF lo = hi THEN MS(Wd(s[lo])) ELSE LET mid == (lo + hi) \div 2 IN SumMS(s, lo, mid) + SumMS(s, mid + 1, hi)
P == (MS(R.b) - SumMS(R.as, 1, Len(R.as))) % (2 * N)
\* ExtProdErrBound: the decomposition floors at 2^-(l*Bgbit), so every CMux step whose key bit is set may lose up to 2^(32 - l*Bgbit) units (one-sided);
\* n steps in the worst case (all key bits set), in units of 2^-32 (mu is >= 2^28, the bound stays below 2^22 for the layouts used)
Tol == (IF R.l * R.bg <= 31 THEN R.n * 2^(32 - R.l * R.bg) ELSE 0) + 64 * R.n + 256
RowFull == /\ WAbsLeq(WSub(R.ph, IF P < N THEN R.mu ELSE WNeg(R.mu)), WOfInt(Tol))
           /\ R.masknz = 0                               \* the accumulator stays trivial: the result does not depend on any key
\* ---- full-size external product (C09): TGSW = noiseless encryption of sgn * X^j, so the phase of the product under the key is sgn * X^j * phase(c), i.e.
\* coefficient i is  +-phase(c)[i - j]  with the negacyclic wrap.  The analytic bound has three parts (units of 2^-32):
\*  - decomposition: the bits below 2^-(l*Bgbit) of every coefficient of every polynomial of c are dropped (at most 2^(32 - l*Bgbit) units each, multiplied
\*    by binary key polynomials: (k*N + 1) terms);
\*  - TGSW row noise: a "noiseless" encryption computes b = a*s with the FFT, i.e. with RowEps = 2 units of rounding per coefficient, and the product
\*    multiplies every row coefficient by a digit of magnitude at most Bg/2: (k+1)*l*N*(Bg/2)*RowEps;
\*  - FFT rounding of the product itself (4096 units, which covers Bgbit = 16).
\* The harness prints phase(c) at the source positions and phase(product) at the sampled positions; nothing else.
RowEps == 2
ExtTol == (IF R.l * R.bg <= 31 THEN (R.kk * N + 1) * 2^(32 - R.l * R.bg) ELSE 0) + (R.kk + 1) * R.l * N * 2^(R.bg - 1) * RowEps + 4096
ExtWant(u) == LET ps == R.pos[u] w == Wd(R.pc[u]) wrap == IF ps - R.j < 0 THEN -1 ELSE 1 IN IF R.sgn * wrap = 1 THEN w ELSE WNeg(w)
RowExtFull == /\ R.l * R.bg <= 32 /\ R.l * R.bg >= 16 /\ R.bg <= 16 /\ (R.kk + 1) * R.l <= 16                 \* (the tolerance stays below 2^29 for the layouts used)
              /\ \A u \in 1..Len(R.pos) : WAbsLeq(WSub(Wd(R.pr[u]), ExtWant(u)), WOfInt(ExtTol))
\* ---- full size with real generated keys (uniform masks; bootstrapping-key noise configured far below one unit, key-switching noise 1e-8): the same rule on
\* the rounded phase.  What the output carries is FFT rounding of the key rows amplified by the gadget digits (standard deviation about 2^22 units for
\* Bgbit = 16 and eight steps), the flooring of the decomposition (layouts with l*Bgbit >= 21 only: at most n*(kN+1)*2^(32-l*Bgbit) <= 2^24.4) and the
\* key switch: accepted within 2^26 units (>= 16 standard deviations; 1/64 of the torus, mu is at least 2^28 away from -mu) ----
RowReal == WAbsLeq(WSub(R.ph, IF P < N THEN R.mu ELSE WNeg(R.mu)), WOfInt(67108864))
RowOK == CASE R.k = "full" -> RowFull [] R.k = "extfull" -> RowExtFull [] R.k = "real" -> RowReal [] OTHER -> FALSE
=============================================================================
