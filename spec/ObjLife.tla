------------------------------ MODULE ObjLife ------------------------------
(***************************************************************************)
(* The four-phase object API of the library: every one of its seventeen    *)
(* structure types T comes with                                            *)
(*     alloc_T / init_T / destroy_T / free_T      (raw memory | contents)  *)
(*     new_T = alloc ; init        delete_T = destroy ; free               *)
(* and the same six for arrays of n elements (204 functions).  A slot of   *)
(* the machine holds nothing, raw memory, or a live object; an action is   *)
(* one API call, enabled when the API allows it (the same form - single or *)
(* array of the same n - that allocated the slot).  The footprint of a     *)
(* slot is what the process has allocated on its behalf; the actions say   *)
(* how it moves, and Balanced says that nothing stays behind.  TLC         *)
(* enumerates the machine, generates call sequences (Gen_ObjLife) for      *)
(* harness/h_objs.cpp, and Trace_ObjLife books the ledger readings of      *)
(* every call on the slot it acts on and holds the account to conservation *)
(* only: an empty slot holds nothing (free and delete give back all that   *)
(* was acquired on its behalf), raw memory holds the same every time       *)
(* (destroy gives back what init acquired), nothing is damaged or freed    *)
(* twice.  The layout of the objects is not constrained.                   *)
(***************************************************************************)
EXTENDS Integers, FiniteSets, TLC
CONSTANTS Types,      \* structure types
          Slots,      \* object slots
          Counts,     \* 0 = the single-object form, n >= 1 = the array form with n elements
          MaxCalls
VARIABLES st,         \* st[s] \in {"none", "raw", "live"}
          ty,         \* ty[s]: type held (or "-")
          cnt,        \* cnt[s]: form used to allocate
          calls, last
ovars == <<st, ty, cnt, calls, last>>
OInit == st = [s \in Slots |-> "none"] /\ ty = [s \in Slots |-> "-"] /\ cnt = [s \in Slots |-> 0] /\ calls = 0 /\ last = [op |-> "Init"]
Call(rec) == calls < MaxCalls /\ calls' = calls + 1 /\ last' = rec
Alloc(s, t, n) == st[s] = "none" /\ st' = [st EXCEPT ![s] = "raw"] /\ ty' = [ty EXCEPT ![s] = t] /\ cnt' = [cnt EXCEPT ![s] = n] /\ Call([op |-> "alloc", s |-> s, t |-> t, n |-> n])
New(s, t, n)   == st[s] = "none" /\ st' = [st EXCEPT ![s] = "live"] /\ ty' = [ty EXCEPT ![s] = t] /\ cnt' = [cnt EXCEPT ![s] = n] /\ Call([op |-> "new", s |-> s, t |-> t, n |-> n])
Init(s)    == st[s] = "raw"  /\ st' = [st EXCEPT ![s] = "live"] /\ UNCHANGED <<ty, cnt>> /\ Call([op |-> "init", s |-> s, t |-> ty[s], n |-> cnt[s]])
Destroy(s) == st[s] = "live" /\ st' = [st EXCEPT ![s] = "raw"]  /\ UNCHANGED <<ty, cnt>> /\ Call([op |-> "destroy", s |-> s, t |-> ty[s], n |-> cnt[s]])
Free(s)    == st[s] = "raw"  /\ st' = [st EXCEPT ![s] = "none"] /\ ty' = [ty EXCEPT ![s] = "-"] /\ cnt' = [cnt EXCEPT ![s] = 0] /\ Call([op |-> "free", s |-> s, t |-> ty[s], n |-> cnt[s]])
Delete(s)  == st[s] = "live" /\ st' = [st EXCEPT ![s] = "none"] /\ ty' = [ty EXCEPT ![s] = "-"] /\ cnt' = [cnt EXCEPT ![s] = 0] /\ Call([op |-> "delete", s |-> s, t |-> ty[s], n |-> cnt[s]])
ONext == \E s \in Slots : \/ Init(s) \/ Destroy(s) \/ Free(s) \/ Delete(s)
                          \/ \E t \in Types, n \in Counts : Alloc(s, t, n) \/ New(s, t, n)
OSpec == OInit /\ [][ONext]_ovars
TypeOK == /\ st \in [Slots -> {"none", "raw", "live"}] /\ \A s \in Slots : (st[s] = "none") <=> (ty[s] = "-")
(* ---- footprints: an abstract account of the rules the trace is held to --------- *)
\* with RawF(t, n) and LiveF(t, n) the footprints (blocks or bytes) of a raw and of a live slot, the process holds
Held(RawF(_, _), LiveF(_, _)) == LET F(s) == IF st[s] = "none" THEN 0 ELSE IF st[s] = "raw" THEN RawF(ty[s], cnt[s]) ELSE LiveF(ty[s], cnt[s])
                                     RECURSIVE Sum(_)
                                     Sum(S) == IF S = {} THEN 0 ELSE LET x == CHOOSE y \in S : TRUE IN F(x) + Sum(S \ {x})
                                 IN Sum(Slots)
\* every slot can always be brought back to nothing, whatever was done with it
CanWindDown == \A s \in Slots : st[s] = "none" \/ ENABLED Free(s) \/ ENABLED Delete(s) \/ calls = MaxCalls
\* a toy account (one block per raw slot, 1 + elements for a live one) stays consistent with the state: Balanced is the shape of what Trace_ObjLife checks with measured numbers
ToyRaw(t, n) == 1
ToyLive(t, n) == 1 + (IF n = 0 THEN 1 ELSE n)
Balanced == (\A s \in Slots : st[s] = "none") => Held(ToyRaw, ToyLive) = 0
=============================================================================
