------------------------------ MODULE Life_apa ------------------------------
(* The lifecycle machine of Life.tla with Snowcat type annotations, for Apalache: NoDangling and DeadIsEmpty are shown to be      *)
(* inductive (IndInit => IndInv at length 0, IndInv /\ Next => IndInv' at length 1), i.e. for lifecycles of any length, not only *)
(* up to the call budget TLC enumerates.  Kept textually parallel to Life.tla; the bookkeeping variables steps / last are left   *)
(* out (no guard reads them once the budget is unbounded) and both parameter kinds are covered by the nondeterministic constant. *)
EXTENDS Integers, FiniteSets
CONSTANT
  \* @type: Str;
  ParamKind
VARIABLES
  \* @type: Str -> Str;
  obj,
  \* @type: Str -> (Int -> Int);
  val,
  \* @type: Set(Str);
  blob,
  \* @type: Int -> Int;
  bval,
  \* @type: Bool;
  fin
CInit == ParamKind \in {"custom", "default"}
Arr   == {"ct", "ct2"}
Slots == 0..2
SKeys == {"sk", "sk2"}
Keys  == {"sk", "ck", "sk2"}
Objs  == {"params", "sk", "ck", "sk2", "ct", "ct2"}
Blobs == {"cloud", "secret", "cts"}
Gates2 == {"NAND", "XOR", "ANDNY", "OR"}
Undef == -1
Live(o) == obj[o] = "live"
NoVals == [i \in Slots |-> Undef]
G2(g, x, y) == CASE g = "NAND" -> 1 - x * y [] g = "XOR" -> (x + y) % 2 [] g = "ANDNY" -> (1 - x) * y [] OTHER -> x + y - x * y
NewParams == /\ obj["params"] = "none" /\ obj' = [obj EXCEPT !["params"] = "live"]
             /\ fin' = (IF ParamKind = "default" THEN FALSE ELSE fin) /\ UNCHANGED <<val, blob, bval>>
KeyGen    == /\ Live("params") /\ obj["sk"] = "none" /\ obj' = [obj EXCEPT !["sk"] = "live"] /\ UNCHANGED <<val, blob, bval, fin>>
NewCt(a, k) == /\ ~Live(a)
               /\ IF a = "ct" THEN Live("params") /\ k = "params" ELSE k \in {"ck", "sk2"} /\ Live(k)
               /\ obj' = [obj EXCEPT ![a] = "live"] /\ val' = [val EXCEPT ![a] = NoVals] /\ UNCHANGED <<blob, bval, fin>>
Encrypt(k, a, i, b) == /\ k \in SKeys /\ Live(k) /\ Live(a) /\ val' = [val EXCEPT ![a] = [val[a] EXCEPT ![i] = b]] /\ UNCHANGED <<obj, blob, bval, fin>>
Constant(k, a, i, b) == /\ Live(k) /\ Live(a) /\ val' = [val EXCEPT ![a] = [val[a] EXCEPT ![i] = b]] /\ UNCHANGED <<obj, blob, bval, fin>>
Gate(k, g, a, i, a1, i1, a2, i2) ==
    /\ Live(k) /\ Live(a) /\ Live(a1) /\ Live(a2) /\ val[a1][i1] # Undef /\ val[a2][i2] # Undef
    /\ val' = [val EXCEPT ![a] = [val[a] EXCEPT ![i] = G2(g, val[a1][i1], val[a2][i2])]] /\ UNCHANGED <<obj, blob, bval, fin>>
Mux(k, a, i, a1, i1, a2, i2, a3, i3) ==
    /\ Live(k) /\ Live(a) /\ Live(a1) /\ Live(a2) /\ Live(a3) /\ val[a1][i1] # Undef /\ val[a2][i2] # Undef /\ val[a3][i3] # Undef
    /\ val' = [val EXCEPT ![a] = [val[a] EXCEPT ![i] = IF val[a1][i1] = 1 THEN val[a2][i2] ELSE val[a3][i3]]] /\ UNCHANGED <<obj, blob, bval, fin>>
ExportCloud(k)  == /\ Live(k) /\ blob' = blob \cup {"cloud"} /\ UNCHANGED <<obj, val, bval, fin>>
ExportSecret(k) == /\ k \in SKeys /\ Live(k) /\ blob' = blob \cup {"secret"} /\ UNCHANGED <<obj, val, bval, fin>>
ExportCts(a)    == /\ Live(a) /\ (\A i \in Slots : val[a][i] # Undef) /\ blob' = blob \cup {"cts"} /\ bval' = val[a] /\ UNCHANGED <<obj, val, fin>>
ImportCloud  == /\ "cloud" \in blob /\ ~Live("ck") /\ obj' = [obj EXCEPT !["ck"] = "live"] /\ fin' = FALSE /\ UNCHANGED <<val, blob, bval>>
ImportSecret == /\ "secret" \in blob /\ ~Live("sk2") /\ obj' = [obj EXCEPT !["sk2"] = "live"] /\ fin' = FALSE /\ UNCHANGED <<val, blob, bval>>
ImportCts(a) == /\ "cts" \in blob /\ Live(a) /\ val' = [val EXCEPT ![a] = bval] /\ UNCHANGED <<obj, blob, bval, fin>>
DeleteOk(o) == IF o = "params" THEN ~Live("sk") /\ ~Live("ct") ELSE TRUE
Delete(o) == /\ Live(o) /\ DeleteOk(o) /\ obj' = [obj EXCEPT ![o] = "freed"]
             /\ val' = (IF o \in Arr THEN [val EXCEPT ![o] = NoVals] ELSE val) /\ UNCHANGED <<blob, bval, fin>>
Finalize == /\ ~Live("ck") /\ ~Live("sk2") /\ ~Live("ct2") /\ ~fin /\ fin' = TRUE
            /\ (ParamKind = "default" => ~Live("params") /\ ~Live("sk") /\ ~Live("ct")) /\ UNCHANGED <<obj, val, blob, bval>>
Next == \/ NewParams \/ KeyGen \/ ImportCloud \/ ImportSecret \/ Finalize
        \/ \E a \in Arr : \E k \in {"params", "ck", "sk2"} : NewCt(a, k)
        \/ \E k \in Keys, a \in Arr, i \in Slots, b \in {0, 1} : Encrypt(k, a, i, b) \/ Constant(k, a, i, b)
        \/ \E k \in Keys, g \in Gates2, a \in Arr, a1 \in Arr, a2 \in Arr, i \in Slots, i1 \in Slots, i2 \in Slots : Gate(k, g, a, i, a1, i1, a2, i2)
        \/ \E k \in Keys, a \in Arr, a1 \in Arr, a2 \in Arr, a3 \in Arr, i \in Slots, i1 \in Slots, i2 \in Slots, i3 \in Slots : Mux(k, a, i, a1, i1, a2, i2, a3, i3)
        \/ \E k \in Keys : ExportCloud(k) \/ ExportSecret(k)
        \/ \E a \in Arr : ExportCts(a) \/ ImportCts(a)
        \/ \E o \in Objs : Delete(o)
TypeOK == /\ obj \in [Objs -> {"none", "live", "freed"}] /\ val \in [Arr -> [Slots -> {Undef, 0, 1}]] /\ blob \in SUBSET Blobs
          /\ bval \in [Slots -> {Undef, 0, 1}] /\ fin \in BOOLEAN
NoDangling == /\ (Live("sk") \/ Live("ct")) => Live("params")
              /\ (Live("ck") \/ Live("sk2") \/ Live("ct2")) => ~fin
              /\ (ParamKind = "default" /\ (Live("params") \/ Live("sk") \/ Live("ct"))) => ~fin
DeadIsEmpty == \A a \in Arr : ~Live(a) => val[a] = NoVals
\* what the exported ciphertext blob holds is defined whenever the blob exists (needed for ImportCts to keep TypeOK; part of the induction)
IndInv == TypeOK /\ NoDangling /\ DeadIsEmpty
IndInit == IndInv
\* the real initial state satisfies the invariant
Init == /\ obj = [o \in Objs |-> "none"] /\ val = [a \in Arr |-> NoVals] /\ blob = {} /\ bval = NoVals /\ fin = TRUE
=============================================================================
