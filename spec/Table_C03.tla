----------------------------- MODULE Table_C03 -----------------------------
(* Rows printed by harness/h_enc.cpp validated against the decryption specification at full width (C03). *)
EXTENDS Table, Torus32
VARIABLE i
Init == i \in 1..NRows
Next == UNCHANGED i
Spec == Init /\ [][Next]_i
R == Rows[i]
Wd(p) == [h |-> p[1], l |-> p[2]]
Phase32(c, key, n) == WSub(Wd(c[n + 1]), WSum([q \in 1..n |-> IF key[q] = 1 THEN Wd(c[q]) ELSE WZero]))

PhaseConsistent == Len(R.c) > 0 => Phase32(R.c, R.key, R.n) = R.ph          \* lwePhase = b - <a,s>
\* fresh encryption through the real API: decrypts to exactly the message
RowLenc == /\ IsEncoding32(R.mu, R.m, R.M) /\ PhaseConsistent
           /\ IsDecryptionOf(R.dec, R.ph, R.M)
           /\ R.dec = R.mu
\* chosen mask and error e with M*|e| < 1/2 (LweScheme.Encrypt with the draws as arguments)
RowLdec == /\ PhaseConsistent /\ R.ph = WAdd(R.mu, R.e)
           /\ IsDecryptionOf(R.dec, R.ph, R.M)
           /\ R.dec = R.mu
RowLtriv == /\ PhaseConsistent /\ R.ph = R.mu /\ IsDecryptionOf(R.dec, R.ph, R.M)
RowBit == /\ R.dec = R.bit
          /\ R.dec = (IF R.ph.h < 32768 /\ (R.ph.h > 0 \/ R.ph.l > 0) THEN 1 ELSE 0)             \* bootsSymDecrypt: phase > 0
RowTencT == IsEncoding32(R.mu, R.m, R.M) /\ R.dec = R.mu
RowTencP == \A j \in 1..Len(R.mu) : IsEncoding32(Wd(R.mu[j]), R.m[j], R.M) /\ R.dec[j] = R.mu[j]
RowTtriv == \A j \in 1..Len(R.mu) : IsDecryptionOf(Wd(R.dec[j]), Wd(R.mu[j]), R.M)
RowGencI == R.dec = R.m % R.M /\ R.nzother = 0
RowGencP == \A j \in 1..Len(R.m) : R.dec[j] = R.m[j] % R.M
RowOK == CASE R.k = "lenc" -> RowLenc [] R.k = "ldec" -> RowLdec [] R.k = "ltriv" -> RowLtriv [] R.k = "bit" -> RowBit
           [] R.k = "tencT" -> RowTencT [] R.k = "tencP" -> RowTencP [] R.k = "ttriv" -> RowTtriv
           [] R.k = "gencI" -> RowGencI [] R.k = "gencP" -> RowGencP [] OTHER -> FALSE
=============================================================================
