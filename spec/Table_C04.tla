----------------------------- MODULE Table_C04 -----------------------------
(* Replay rows of harness/h_boot.cpp (real N = 1024 code on embedded key material) validated against RingScheme (C04, C09). *)
(* For every row TLC recomputes the reduced model on the row's inputs and compares the observed phase (under the model's     *)
(* keys) with the embedded model value, within Tol units of 2^-32 (FFT rounding; nothing else is approximate here).          *)
EXTENDS RingScheme, Gates, Word32, Json, IOUtils
CONSTANT Tol
Rows == ndJsonDeserialize(IOEnv.TRACE)
NRows == Len(Rows)
VARIABLES i, grp
G == 16
Init == grp \in 0..(G - 1) /\ i = 0
Next == i = 0 /\ \E j \in {q \in 1..NRows : q % G = grp} : i' = j /\ grp' = grp
Spec == Init /\ [][Next]_<<i, grp>>
R == Rows[i]
Emb(v) == [h |-> Md(v) * 2^(16 - W), l |-> 0]                         \* x |-> x * 2^(32-W)   (W <= 16)
Near(w, v) == WAbsLeq(WSub(w, Emb(v)), WOfInt(Tol))
Wd(p) == [h |-> p[1], l |-> p[2]]
XOf(a, b) == [a |-> [q \in 1..NN |-> a[q]], b |-> b]
Ramp == [q \in Idx |-> Md(3 * q + 1)]
RowBoot == LET row == R
               x == XOf(row.a, row.b)
               mu == row.mu
               u == BootWoKS(x, mu)
               pu == PhaseX(u)
               want == IF RoundedPhase(x) < NP THEN mu ELSE Md(0 - mu)           \* the property, on the model's rounded phase
           IN /\ pu = want                                                        \* (model theorem, re-evaluated on this input)
              /\ Near(row.ph, IF row.f \in {0, 2} THEN pu ELSE PhaseL(KeySwitch(u)))
RowBootV == LET row == R
                x == XOf(row.a, row.b)
                barb == MSw(x.b)
                bara == [q \in 1..NN |-> MSw(x.a[q])]
                u == RotateAndExtract(Ramp, barb, bara)
                pu == PhaseX(u)
            IN /\ pu = AntiExt(Ramp, RoundedPhase(x)) /\ Near(row.ph, pu)
Msgs == <<Zero, Const(1), Const(-1), [q \in Idx |-> IF q < 3 THEN (q % 2) * 2 - 1 ELSE 0]>> \o [j \in 1..NP |-> [q \in Idx |-> IF q = j - 1 THEN 1 ELSE 0]]
RowExt == LET row == R
              z == TEncZero(40 + row.tag)
              pos == row.pos  c0 == row.c0  msg == Msgs[row.m]
              smp == [c \in Comp |-> IF c = KK THEN [q \in Idx |-> IF q = pos THEN Md(z[KK][q] + c0) ELSE z[KK][q]] ELSE z[c]]
              want == NegMul(msg, TPhase(smp))                                    \* the property: phase = m * phase(c)
              gs == TGsw(msg, 7)
              got == TPhase(ExtProd(gs, smp))
          IN /\ got = want
             /\ \A q \in Idx : Near(Wd(row.ph[q + 1]), want[q])
             /\ row.off <= Tol                                                      \* nothing leaks outside the embedded sub-ring
RECURSIVE ExpSum(_, _)
ExpSum(e, q) == IF q = 0 THEN 0 ELSE e[q] * LKey[q] + ExpSum(e, q - 1)
\* (row fields are bound once by LET: TLC re-evaluates an operator argument at every reference)
RowRot == LET row == R
              ee == [q \in 1..NN |-> row.e[q]]
              aux == row.aux
              start == TTrivial(MulXai(aux, Ramp))
              want == MulXai((aux + ExpSum(ee, NN)) % (2 * NP), Ramp)                 \* the property: phase multiplied by X^(sum e_i s_i)
              got == TPhase(Blind(start, BK, ee, 1))
          IN /\ got = want /\ \A q \in Idx : Near(Wd(row.ph[q + 1]), want[q]) /\ row.off <= Tol
\* ---- the gate functions themselves (bootsNAND ... bootsMUX) on the embedded key set: the concrete gate level of MC_MachineC, bound to the code ----
GMU == Q \div 8
GEnc(bit) == IF bit = 1 THEN GMU ELSE Md(0 - GMU)
GCT(x) == LET m == [q \in 1..NN |-> x.m[q]] IN [a |-> m, b |-> Md(GEnc(x.bit) + x.e + Dot(m))]      \* encryption of x.bit with error x.e and mask x.m under the model key
GTriv(mu) == [a |-> [q \in 1..NN |-> 0], b |-> Md(mu)]
GAddMul(r, p, c) == [a |-> [q \in 1..NN |-> Md(r.a[q] + p * c.a[q])], b |-> Md(r.b + p * c.b)]
GLin(gg, ca, cb) == GAddMul(GAddMul(GTriv(K(gg) * GMU), CA(gg), ca), CB(gg), cb)
GGate(gg, ca, cb) == Boot(GLin(gg, ca, cb), GMU)
GMux(ca, cb, cc) == LET u1 == BootWoKS(GAddMul(GAddMul(GTriv(0 - GMU), 1, ca), 1, cb), GMU)
                        u2 == BootWoKS(GAddMul(GAddMul(GTriv(0 - GMU), -1, ca), 1, cc), GMU)
                        s  == [a |-> [q \in 0..(KK * NP - 1) |-> Md(u1.a[q] + u2.a[q])], b |-> Md(u1.b + u2.b + GMU)]
                    IN KeySwitch(s)
RowGate == LET row == R
               A == GCT(row.xa)  B == GCT(row.xb)  C == GCT(row.xc)
               out == IF row.g = "MUX" THEN GMux(A, B, C) ELSE GGate(row.g, A, B)
               want == PhaseL(out)
               bit == IF row.g = "MUX" THEN MuxTT(row.xa.bit, row.xb.bit, row.xc.bit) ELSE TT(row.g, row.xa.bit, row.xb.bit)
           IN /\ want = GEnc(bit)                                                       \* (model theorem of MC_MachineC, re-evaluated on this input)
              /\ Near(row.ph, want)                                                      \* the real gate function returns a ciphertext with that phase
              \* (masks are not compared: a one-unit FFT rounding before a flooring decomposition legitimately swaps in another noiseless row -
              \*  same phase, different mask; see vlib/ringreplay.py)
RowOK == i = 0 \/ CASE R.k = "boot" -> RowBoot [] R.k = "bootv" -> RowBootV [] R.k = "ext" -> RowExt [] R.k = "rot" -> RowRot [] R.k = "gate" -> RowGate [] OTHER -> FALSE
=============================================================================
