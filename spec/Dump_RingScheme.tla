--------------------------- MODULE Dump_RingScheme ---------------------------
(* Writes the key material of a RingScheme instance (the data the model's operators use) as JSON, for the replay harness. *)
EXTENDS RingScheme, Json, IOUtils
PolyL(p) == [q \in 1..NP |-> p[q - 1]]
SmpL(x) == [c \in 1..(KK + 1) |-> PolyL(x[c - 1])]
GswL(g) == [r \in 1..((KK + 1) * LL) |-> SmpL(g[r])]
Msgs == <<Zero, Const(1), Const(-1), [i \in Idx |-> IF i < 3 THEN (i % 2) * 2 - 1 ELSE 0]>> \o [j \in 1..NP |-> [i \in Idx |-> IF i = j - 1 THEN 1 ELSE 0]]
Dump == [W |-> W, NP |-> NP, KK |-> KK, LL |-> LL, BGB |-> BGB, NN |-> NN, T |-> T, BB |-> BB,
         skey |-> [c \in 1..KK |-> PolyL(SKey[c - 1])], lkey |-> LKey,
         bk |-> [i \in 1..NN |-> GswL(BK[i])],
         ks |-> [i \in 1..(KK * NP) |-> [j \in 1..T |-> [h \in 1..(Base - 1) |-> KSRow(i - 1, j, h)]]],
         msgs |-> [m \in 1..Len(Msgs) |-> PolyL(Msgs[m])],
         gsw |-> [m \in 1..Len(Msgs) |-> GswL(TGsw(Msgs[m], 7))],
         smp |-> [t \in 1..3 |-> SmpL(TEncZero(40 + t))]]
ASSUME JsonSerialize(IOEnv.DUMP_OUT, Dump)
=============================================================================
