---- MODULE MC_Mem_TTrace_1790560553 ----
EXTENDS Sequences, TLCExt, Toolbox, Naturals, TLC, MC_Mem

_expression ==
    LET MC_Mem_TEExpression == INSTANCE MC_Mem_TEExpression
    IN MC_Mem_TEExpression!expression
----

_trace ==
    LET MC_Mem_TETrace == INSTANCE MC_Mem_TETrace
    IN MC_Mem_TETrace!trace
----

_inv ==
    ~(
        TLCGet("level") = Len(_TETrace)
        /\
        heap = ([params |-> "live", bk |-> "freed", ks |-> "freed", bkfft |-> "live", ksfft |-> "none", lwekey |-> "live", tgswkey |-> "live"])
        /\
        steps = (3)
    )
----

_init ==
    /\ heap = _TETrace[1].heap
    /\ steps = _TETrace[1].steps
----

_next ==
    /\ \E i,j \in DOMAIN _TETrace:
        /\ \/ /\ j = i + 1
              /\ i = TLCGet("level")
        /\ heap  = _TETrace[i].heap
        /\ heap' = _TETrace[j].heap
        /\ steps  = _TETrace[i].steps
        /\ steps' = _TETrace[j].steps

\* Uncomment the ASSUME below to write the states of the error trace
\* to the given file in Json format. Note that you can pass any tuple
\* to `JsonSerialize`. For example, a sub-sequence of _TETrace.
    \* ASSUME
    \*     LET J == INSTANCE Json
    \*         IN J!JsonSerialize("MC_Mem_TTrace_1790560553.json", _TETrace)

=============================================================================

 Note that you can extract this module `MC_Mem_TEExpression`
  to a dedicated file to reuse `expression` (the module in the 
  dedicated `MC_Mem_TEExpression.tla` file takes precedence 
  over the module `MC_Mem_TEExpression` below).

---- MODULE MC_Mem_TEExpression ----
EXTENDS Sequences, TLCExt, Toolbox, Naturals, TLC, MC_Mem

expression == 
    [
        \* To hide variables of the `MC_Mem` spec from the error trace,
        \* remove the variables below.  The trace will be written in the order
        \* of the fields of this record.
        heap |-> heap
        ,steps |-> steps
        
        \* Put additional constant-, state-, and action-level expressions here:
        \* ,_stateNumber |-> _TEPosition
        \* ,_heapUnchanged |-> heap = heap'
        
        \* Format the `heap` variable as Json value.
        \* ,_heapJson |->
        \*     LET J == INSTANCE Json
        \*     IN J!ToJson(heap)
        
        \* Lastly, you may build expressions over arbitrary sets of states by
        \* leveraging the _TETrace operator.  For example, this is how to
        \* count the number of times a spec variable changed up to the current
        \* state in the trace.
        \* ,_heapModCount |->
        \*     LET F[s \in DOMAIN _TETrace] ==
        \*         IF s = 1 THEN 0
        \*         ELSE IF _TETrace[s].heap # _TETrace[s-1].heap
        \*             THEN 1 + F[s-1] ELSE F[s-1]
        \*     IN F[_TEPosition - 1]
    ]

=============================================================================



Parsing and semantic processing can take forever if the trace below is long.
 In this case, it is advised to uncomment the module below to deserialize the
 trace from a generated binary file.

\*
\*---- MODULE MC_Mem_TETrace ----
\*EXTENDS IOUtils, TLC, MC_Mem
\*
\*trace == IODeserialize("MC_Mem_TTrace_1790560553.bin", TRUE)
\*
\*=============================================================================
\*

---- MODULE MC_Mem_TETrace ----
EXTENDS TLC, MC_Mem

trace == 
    <<
    ([heap |-> [params |-> "none", bk |-> "none", ks |-> "none", bkfft |-> "none", ksfft |-> "none", lwekey |-> "none", tgswkey |-> "none"],steps |-> 0]),
    ([heap |-> [params |-> "live", bk |-> "none", ks |-> "none", bkfft |-> "none", ksfft |-> "none", lwekey |-> "none", tgswkey |-> "none"],steps |-> 1]),
    ([heap |-> [params |-> "live", bk |-> "live", ks |-> "live", bkfft |-> "live", ksfft |-> "none", lwekey |-> "live", tgswkey |-> "live"],steps |-> 2]),
    ([heap |-> [params |-> "live", bk |-> "freed", ks |-> "freed", bkfft |-> "live", ksfft |-> "none", lwekey |-> "live", tgswkey |-> "live"],steps |-> 3])
    >>
----


=============================================================================

---- CONFIG MC_Mem_TTrace_1790560553 ----
CONSTANTS
    Sharing = "shared"
    Variant = "repaired"

INVARIANT
    _inv

CHECK_DEADLOCK
    \* CHECK_DEADLOCK off because of PROPERTY or INVARIANT above.
    FALSE

INIT
    _init

NEXT
    _next

CONSTANT
    _TETrace <- _trace

ALIAS
    _expression
=============================================================================
\* Generated on Mon Sep 28 01:55:54 UTC 2026