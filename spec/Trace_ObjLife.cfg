SPECIFICATION TSpec
CONSTANTS Types = {"LweParams", "LweKey", "LweSample", "LweKeySwitchKey", "LweBootstrappingKey", "LweBootstrappingKeyFFT", "TLweParams", "TLweKey", "TLweSample", "TLweSampleFFT", "TGswParams", "TGswKey", "TGswSample", "TGswSampleFFT", "IntPolynomial", "TorusPolynomial", "LagrangeHalfCPolynomial"}
 Slots = {1, 2, 3}
 Counts = {0, 1, 3}
 MaxCalls = 1000000
INVARIANT TypeOK
INVARIANT Exercised
POSTCONDITION Accepted
CHECK_DEADLOCK FALSE
