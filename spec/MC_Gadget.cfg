SPECIFICATION Spec
CONSTANTS W = 7
 L = 3
 Bgbit = 2
 NC = 2
 Vals = {0,1,2,3,4,5,6,7,8,15,16,17,31,32,33,63,64,65,95,96,97,126,127}
 Mutant = "none"
INVARIANT DirtyOnlyInside
INVARIANT InputRestored
INVARIANT ResultGood
CHECK_DEADLOCK FALSE
