------------------------------- MODULE MC_Mem -------------------------------
EXTENDS Mem
CONSTANT Variant     \* "repaired" | "pinned"  (size of the bootstrapping scratch array)
Matrix == {1, 3, 7, 8, 9, 500, 630, 1024, 1025, 1100}
BaraInBounds == \A n \in Matrix : BaraWritten(n) \subseteq BaraAllocated(n, 1024, Variant)
KSIndexInBounds == \A n \in {1, 3, 9} : \A t \in {1, 2, 8} : \A bb \in {1, 2, 3} :
                      \A i \in 0..(n - 1), j \in 0..(t - 1), h \in 0..(2^bb - 1) : KSIndex(i, j, h, t, 2^bb) \in 0..(n * t * 2^bb - 1)
KSIndexInjective == \A t \in {2, 3} : \A bb \in {1, 2} : \A i1, i2 \in 0..2, j1, j2 \in 0..(t - 1), h1, h2 \in 0..(2^bb - 1) :
                      KSIndex(i1, j1, h1, t, 2^bb) = KSIndex(i2, j2, h2, t, 2^bb) => <<i1, j1, h1>> = <<i2, j2, h2>>
KaratsubaScratchFits == \A e \in 0..11 : KaraWords(2^e) <= KaraAllocatedWords(2^e)
ASSUME KSIndexInBounds /\ KSIndexInjective /\ KaratsubaScratchFits
ASSUME BaraInBounds
=============================================================================
