SPECIFICATION TSpec
INVARIANT StatsAccepted
POSTCONDITION Accepted
CHECK_DEADLOCK FALSE
