SPECIFICATION Spec
CONSTANTS Regs = {r0, r1, r2}
 U = 16777216
 ECap = 786431
 DCap = 524287
 NotSlack = 0
 Mutant = "none"
INVARIANT Admissible
INVARIANT Correct
