SPECIFICATION Spec
CONSTANTS W = 2
 NMax = 3
 Mode = "lin"
 KT = 2
 KB = 2
 Variant = "guarded"
 Mutant = "none"
INVARIANT PhaseLinear
INVARIANT DecryptNearest
INVARIANT KSRoundsNearest
INVARIANT KSPhase
INVARIANT SubToInBounds
CHECK_DEADLOCK FALSE
