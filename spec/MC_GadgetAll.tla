---------------------------- MODULE MC_GadgetAll ----------------------------
(* every value of the W-bit torus for one layout: digits balanced, recompose within the truncation bound *)
EXTENDS Gadget, TLC
VARIABLE x
Init == x \in 0..(Q - 1)
Next == UNCHANGED x
Spec == Init /\ [][Next]_x
AllGood == Good(x)
=============================================================================
