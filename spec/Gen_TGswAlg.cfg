SPECIFICATION GSpec
CONSTANTS W = 8
 NP = 4
 KK = 1
 LL = 2
 BGB = 4
 NN = 1
 T = 2
 BB = 2
 MuPool <- DefaultMuPool
 Exps = {1, 2, 3, 4, 5, 7}
 Msizes = {2, 4, 16}
 Tags = {1, 2, 3}
 MaxOps = 24
 AlgMutant = "none"
CONSTRAINT Dump
INVARIANT WellFormed
CHECK_DEADLOCK FALSE
