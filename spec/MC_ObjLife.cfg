SPECIFICATION OSpec
CONSTANTS Types = {"A", "B"}
 Slots = {1, 2}
 Counts = {0, 2}
 MaxCalls = 8
INVARIANT TypeOK
INVARIANT CanWindDown
INVARIANT Balanced
CHECK_DEADLOCK FALSE
