------------------------------ MODULE Trace_Noise ------------------------------
(***************************************************************************)
(* C07 as a trace specification (events of harness/h_noise.cpp).           *)
(* Generator part (the `rng` token of Machine): re-seeding is a function   *)
(* of the seed; every randomised call's output and next token are a        *)
(* function of (operation, token, arguments) -- Functional; the token      *)
(* advances, and the same call from a different token gives a different    *)
(* output -- Fresh.                                                         *)
(* Distribution part (TraceStats): per stream of phase errors, expressed   *)
(* in units of alpha/64, running n, sum, sum of squares, max; acceptance   *)
(* when the stream ends: standard deviation equal to 64 within 8           *)
(* estimator sigma plus the sampler's 2^-32 discretisation, mean within    *)
(* 8 sigma/sqrt(n), no sample beyond 10 sigma, mask top-4-bit histogram    *)
(* uniform within 8 binomial sigma; zero noise means exactly zero; key     *)
(* bits balanced; digit-0 key-switching rows exactly trivial.              *)
(***************************************************************************)
EXTENDS TraceStats, Sequences, TLC, Json, IOUtils
VARIABLES l, st, memo, seen, nrand, verdict
vars == <<l, st, memo, seen, nrand, verdict>>
Tr == ndJsonDeserialize(IOEnv.TRACE)
Ev == Tr[l]
Streams == {Tr[i].s : i \in {j \in 1..Len(Tr) : Tr[j].e = "Errs"}}
RKey(e) == <<e.op, e.tok, e.args>>
RKeys == {RKey(Tr[i]) : i \in {j \in 1..Len(Tr) : Tr[j].e = "Rand"}} \cup {<<"seed", <<Tr[i].v, 0>>, <<0, 0>>>> : i \in {j \in 1..Len(Tr) : Tr[j].e = "Seed"}}
None == <<<<-1, -1>>, <<-1, -1>>>>
TInit == l = 1 /\ st = [s \in Streams |-> St0] /\ memo = [k \in RKeys |-> None] /\ seen = {} /\ nrand = 0 /\ verdict = TRUE
RECURSIVE Fold(_, _, _)
Fold(s, v, i) == IF i > Len(v) THEN s ELSE Fold(Upd(s, v[i]), v, i + 1)
TErrs == /\ Ev.e = "Errs" /\ st' = [st EXCEPT ![Ev.s] = Fold(@, Ev.v, 1)] /\ UNCHANGED <<memo, seen, nrand, verdict>>
\* ---- acceptance regions (nominal sd = 64 units, B2 = 4096) ----
SdIs64(s, s32) == LET r == ISqrt(s.n) IN Abs(Var(s) - 4096) * r <= 4096 * 12 + (8192 * r) \div s32 + 4096
Uniform16(h, n) == \A k \in 1..16 : Abs(16 * h[k] - n) <= 31 * (ISqrt(n) + 1)
\* every coordinate of every mask is fresh: a coordinate repeats the same coordinate of the previous mask with probability 2^-32;
\* up to 2 + npairs/2^29 coincidences are accepted (eight times the expectation plus two; false-alarm probability < 1e-11 per stream)
FreshCoords(same, npairs) == same <= 2 + npairs \div 536870912
\* an error of exactly 0 has probability about 0.4 / (alpha 2^32): eight plus ten times the expectation are accepted (a clipped or skipped noise term shows as a pile of exact zeros)
FewZeros(zeros, n, s32) == s32 >= 1 => zeros <= 8 + (4 * n) \div s32
\* consecutive errors of a stream are independent draws: two equal in a row has probability about 0.28 / (alpha 2^32); eight plus fourteen times the expectation are
\* accepted (rows of a key that share one noise value, or a noise vector consumed with a stuck index, show as a pile of repeats)
FreshErrs(sameerr, n, s32) == s32 >= 1 => sameerr <= 8 + (4 * n) \div s32
StreamOK(s, ev) == IF ev.exact = 1 THEN s.mx = 0 /\ s.s2 = 0                                   \* alpha = 0: noiseless, exactly
                   ELSE /\ s.n >= 500
                        /\ SdIs64(s, ev.s32)                                                     \* neither larger (correctness) nor smaller (security)
                        /\ Abs(s.s1) <= 8 * 64 * (ISqrt(s.n) + 1) + s.n                          \* centred: |mean| <= 8 sigma / sqrt(n)  (+1 unit of rounding per sample)
                        /\ s.mx < 640 + 64                                                       \* no sample beyond 10 sigma
                        /\ FewZeros(ev.zeros, s.n, ev.s32)
                        /\ FreshErrs(ev.sameerr, s.n, ev.s32)
TEnd == /\ Ev.e = "StreamEnd"
        /\ verdict' = (verdict /\ StreamOK(st[Ev.s], Ev) /\ Uniform16(Ev.hist, Ev.nmask) /\ FreshCoords(Ev.same, Ev.npairs))
        /\ UNCHANGED <<st, memo, seen, nrand>>
TKeyBits == /\ Ev.e = "KeyBits" /\ verdict' = (verdict /\ Abs(2 * Ev.ones - Ev.n) <= 8 * (ISqrt(Ev.n) + 1)) /\ UNCHANGED <<st, memo, seen, nrand>>
TDigit0 == /\ Ev.e = "Digit0" /\ verdict' = (verdict /\ Ev.nontrivial = 0 /\ Ev.rows > 0) /\ UNCHANGED <<st, memo, seen, nrand>>
\* ---- generator ----
TSeed == /\ Ev.e = "Seed"
         /\ LET k == <<"seed", <<Ev.v, 0>>, <<0, 0>>>> IN
              IF memo[k] = None THEN memo' = [memo EXCEPT ![k] = <<Ev.toka, Ev.toka>>] ELSE memo' = memo /\ memo[k] = <<Ev.toka, Ev.toka>>       \* same seed, same generator state
         /\ UNCHANGED <<st, seen, nrand, verdict>>
TRand == /\ Ev.e = "Rand"
         /\ Ev.toka # Ev.tok                                                                     \* the call drew from the library generator
         /\ LET k == RKey(Ev) IN
              IF memo[k] = None
              THEN /\ memo' = [memo EXCEPT ![k] = <<Ev.out, Ev.toka>>]
                   /\ <<Ev.op, Ev.args, Ev.out>> \notin seen                                     \* Fresh: never the output of the same call from another token
                   /\ seen' = seen \cup {<<Ev.op, Ev.args, Ev.out>>}
              ELSE /\ memo[k] = <<Ev.out, Ev.toka>> /\ memo' = memo /\ seen' = seen              \* Functional: same token, same call => same output and same next token
         /\ nrand' = nrand + 1 /\ UNCHANGED <<st, verdict>>
TNext == l <= Len(Tr) /\ l' = l + 1 /\ (TErrs \/ TEnd \/ TKeyBits \/ TDigit0 \/ TSeed \/ TRand)
TSpec == TInit /\ [][TNext]_vars
StatsAccepted == verdict
Accepted == TLCGet("stats").diameter - 1 = Len(Tr)
=============================================================================
