---------------------------- MODULE MC_TorusW ----------------------------
(* C13 on the specification: every phase of the W-bit torus, every listed M. *)
EXTENDS TorusW, TLC
CONSTANTS MSet,        \* message-space sizes
          Mutant       \* "none" | "floor" | "halfint" : deliberately wrong designs (self-test)
VARIABLES x, m
vars == <<x, m>>
Init == x \in 0..(Q - 1) /\ m \in MSet
Next == UNCHANGED vars
Spec == Init /\ [][Next]_vars

MSF(xx, M) == CASE Mutant = "floor"   -> ((xx * Q) % QQ) \div Interv(M)
                [] Mutant = "halfint" -> (((xx * Q) + Interv(M) \div 4) % QQ) \div Interv(M)
                [] OTHER              -> ModSwitchFromCode(xx, M)

RoundsToNearest == IsNearest(MSF(x, m), x, m)
InRange         == MSF(x, m) \in 0..(m - 1)
ApproxIsToOfFrom == ApproxPhaseCode(x, m) = ModSwitchToCode(ModSwitchFromCode(x, m), m)
\* encode then switch back: identity on [0,M)  (x doubles as mu when x < m)
EncodeDecode    == x < m => /\ ModSwitchFromCode(ModSwitchToCode(x, m), m) = x
                            /\ IsEncoding(ModSwitchToCode(x, m), x, m)
\* the half-open convention used by bootstrapping: for M = 2N a power of two the result is floor(x*M/Q + 1/2) mod M
PowerOfTwoClosedForm == (\E k \in 1..(2 * W - 1) : m = 2^k) =>
                            ModSwitchFromCode(x, m) = ((2 * x * m + Q) \div (2 * Q)) % m
=============================================================================
