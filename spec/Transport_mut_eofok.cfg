SPECIFICATION Spec
CONSTANTS Lens = {1, 3, 4, 5, 8}
 MaxCalls = 3
 Block = 4
 Writer = "whole"
 Reader = "eof_ok"
INVARIANT TypeOK
INVARIANT ExportExact
INVARIANT NoSilentAccept
INVARIANT RoundTrip
PROPERTY Terminates
CHECK_DEADLOCK FALSE
