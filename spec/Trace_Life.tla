----------------------------- MODULE Trace_Life -----------------------------
(***************************************************************************)
(* What harness/h_life.cpp observed while replaying TLC-generated          *)
(* lifecycles, validated step by step against the actions of Life:         *)
(*  - every step is an enabled Life action (the API was used as allowed);  *)
(*  - every decryption returns the plaintext Life tracks in val;           *)
(*  - evaluation is a function of (key material, gate, input contents):    *)
(*    the generated key set, a re-imported cloud key set and a re-imported *)
(*    secret key set produce bit-identical ciphertexts, on the first run   *)
(*    and on the re-run on another thread (memo) - and whichever thread    *)
(*    executes a step: one step in four runs on a helper thread that is    *)
(*    created for it and exits at once (field th), so that keys, arrays    *)
(*    and blobs routinely outlive the thread that made them;               *)
(*  - every export of the cloud (secret) key of one program has the same   *)
(*    bytes, whichever key set object it is taken from, and re-exporting   *)
(*    right after import reproduces them; ciphertexts survive export and   *)
(*    import unchanged;                                                    *)
(*  - ledger windows: no red zone written, no double free, and nothing     *)
(*    alive after the thread that ran a whole lifecycle has exited.        *)
(***************************************************************************)
EXTENDS Life, Json, IOUtils
VARIABLES l, memo, keyh, ctsh, nhit, nstrict, nhelp, nfile
Tr == ndJsonDeserialize(IOEnv.TRACE)
Ev == Tr[l]
tvars == <<obj, val, blob, bval, fin, steps, last, l, memo, keyh, ctsh, nhit, nstrict, nhelp, nfile>>
None == <<-1, -1>>
NoKey == <<None, -1>>
HasOut(e) == e.e = "Step" /\ e.op \in {"Gate", "Mux", "Const"}
KeyOf(e) == <<e.prog, e.op, IF e.op = "Gate" THEN e.g ELSE "-", IF e.op = "Const" THEN <<<<e.b, 0>>>> ELSE e.hin>>
MemoKeys == {KeyOf(Tr[i]) : i \in {j \in 1..Len(Tr) : HasOut(Tr[j])}}
Progs == {Tr[i].prog : i \in 1..Len(Tr)}
TInit == /\ LInit /\ l = 1 /\ memo = [k \in MemoKeys |-> None] /\ keyh = [p \in Progs |-> [cloud |-> NoKey, secret |-> NoKey]]
         /\ ctsh = None /\ nhit = 0 /\ nstrict = 0 /\ nhelp = 0 /\ nfile = 0
Consume == l <= Len(Tr) /\ l' = l + 1
Function == LET k == KeyOf(Ev) IN
            IF memo[k] = None THEN memo' = [memo EXCEPT ![k] = Ev.hout] /\ nhit' = nhit
            ELSE Ev.hout = memo[k] /\ memo' = memo /\ nhit' = nhit + 1
SameKeyBytes(which) == LET cur == keyh[Ev.prog][which] h == <<Ev.h, Ev.len>> IN
            IF cur = NoKey THEN keyh' = [keyh EXCEPT ![Ev.prog][which] = h] ELSE h = cur /\ keyh' = keyh
Quiet == UNCHANGED <<memo, keyh, ctsh, nhit, nstrict>>
TReset == /\ Ev.e = "Reset" /\ obj' = [o \in Objs |-> "none"] /\ val' = [a \in Arr |-> NoVals] /\ blob' = {} /\ bval' = NoVals
          /\ fin' = TRUE /\ steps' = 0 /\ last' = [op |-> "Init"] /\ ctsh' = None /\ UNCHANGED <<memo, keyh, nhit, nstrict, nhelp, nfile>>
TStep == /\ Ev.e = "Step" /\ Ev.th \in {"run", "helper"} /\ Ev.tr \in {"stream", "file"}
         /\ nfile' = nfile + (IF Ev.tr = "file" /\ Ev.op \in {"ExportCloud", "ExportSecret", "ExportCts", "ImportCloud", "ImportSecret", "ImportCts"} THEN 1 ELSE 0) /\ nhelp' = nhelp + (IF Ev.th = "helper" /\ Ev.op \in {"KeyGen", "ImportCloud", "ImportSecret", "Gate", "Mux"} THEN 1 ELSE 0)
         /\ CASE Ev.op = "NewParams"    -> NewParams /\ Quiet
              [] Ev.op = "KeyGen"       -> KeyGen /\ Quiet
              [] Ev.op = "NewCt"        -> NewCt(Ev.a, Ev.k) /\ Quiet
              [] Ev.op = "Encrypt"      -> Encrypt(Ev.k, Ev.a, Ev.i, Ev.b) /\ Quiet
              [] Ev.op = "Const"        -> Constant(Ev.k, Ev.a, Ev.i, Ev.b) /\ Function /\ UNCHANGED <<keyh, ctsh, nstrict>>
              [] Ev.op = "Gate"         -> Gate(Ev.k, Ev.g, Ev.a, Ev.i, Ev.a1, Ev.i1, Ev.a2, Ev.i2) /\ Function /\ UNCHANGED <<keyh, ctsh, nstrict>>
              [] Ev.op = "Mux"          -> Mux(Ev.k, Ev.a, Ev.i, Ev.a1, Ev.i1, Ev.a2, Ev.i2, Ev.a3, Ev.i3) /\ Function /\ UNCHANGED <<keyh, ctsh, nstrict>>
              [] Ev.op = "Decrypt"      -> Decrypt(Ev.k, Ev.a, Ev.i) /\ last'.b = Ev.b /\ Quiet
              [] Ev.op = "ExportCloud"  -> ExportCloud(Ev.k) /\ SameKeyBytes("cloud") /\ UNCHANGED <<memo, ctsh, nhit, nstrict>>
              [] Ev.op = "ExportSecret" -> ExportSecret(Ev.k) /\ SameKeyBytes("secret") /\ UNCHANGED <<memo, ctsh, nhit, nstrict>>
              [] Ev.op = "ImportCloud"  -> ImportCloud /\ SameKeyBytes("cloud") /\ UNCHANGED <<memo, ctsh, nhit, nstrict>>
              [] Ev.op = "ImportSecret" -> ImportSecret /\ SameKeyBytes("secret") /\ UNCHANGED <<memo, ctsh, nhit, nstrict>>
              [] Ev.op = "ExportCts"    -> ExportCts(Ev.a) /\ ctsh' = Ev.h /\ UNCHANGED <<memo, keyh, nhit, nstrict>>
              [] Ev.op = "ImportCts"    -> ImportCts(Ev.a) /\ Ev.h = ctsh /\ Quiet
              [] Ev.op = "Delete"       -> Delete(Ev.o) /\ Quiet
              [] Ev.op = "Finalize"     -> Finalize /\ Quiet
              [] OTHER -> FALSE
\* a ledger window closes a run: the lifecycle has been wound down completely, and the window is clean
TWindow == /\ Ev.e = "Window" /\ Terminal
           /\ Ev.damaged = 0 /\ Ev.dfree = 0
           /\ (Ev.strict = 1 => Ev.live_bytes = 0 /\ Ev.live_blocks = 0)
           /\ nstrict' = nstrict + Ev.strict /\ UNCHANGED <<obj, val, blob, bval, fin, steps, last, memo, keyh, ctsh, nhit, nhelp, nfile>>
TNext == Consume /\ (TReset \/ TStep \/ TWindow)                 \* a "Crash" event matches no action
TSpec == TInit /\ [][TNext]_tvars
Accepted == TLCGet("stats").diameter - 1 = Len(Tr)
Exercised == (l = Len(Tr) + 1) => nhit >= 1 /\ nstrict >= 1 /\ nhelp >= 1 /\ nfile >= 1
=============================================================================
