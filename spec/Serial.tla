------------------------------- MODULE Serial -------------------------------
(***************************************************************************)
(* The serialisation grammar of src/libtfhe/tfhe_io.cpp and                *)
(* tfhe_generic_streams.cpp, at the granularity of the calls the write_*   *)
(* functions make on the transport (one fputs per text line, one fwrite    *)
(* per tag / array / scalar).  A parameter record p has fields             *)
(*   n (LWE dimension), N, kk, l, Bgbit, t, bb (key-switch layout),        *)
(*   ksn (input dimension of a stand-alone key-switching key).             *)
(***************************************************************************)
EXTENDS Integers, Sequences
Types == {"LweParams", "LweSample", "LweKey", "TLweParams", "TLweSample", "TLweKey", "TGswParams", "TGswSample", "TGswKey",
          "KSKey", "BKey", "GateParams", "CloudKey", "SecretKey", "GateCt"}
\* type tags (tfhe_generic_streams.h)
UID == [LweSample |-> 42, LweKey |-> 43, TLweSample |-> 84, TLweKey |-> 85, TGswSample |-> 168, TGswKey |-> 169, KSKey |-> 200, BKey |-> 201]

Begin(title)  == [c |-> "begin", s |-> title, len |-> 0, tag |-> -1]
Prop(title, name) == [c |-> "prop", s |-> title \o "." \o name, len |-> 0, tag |-> -1]
End(title)    == [c |-> "end", s |-> title, len |-> 0, tag |-> -1]
Tag(u)        == [c |-> "w", s |-> "", len |-> 4, tag |-> u]
Raw(bytes)    == [c |-> "w", s |-> "", len |-> bytes, tag |-> -1]
\* An export is a sequence of segments; a segment is a pattern of calls repeated cnt times (key material is thousands of identical calls).
Seg(pat, cnt) == [pat |-> pat, cnt |-> cnt]
One(pat) == <<Seg(pat, 1)>>
\* a text section: BEGIN line, one line per property in std::map order (byte-wise: upper case before lower case), END line
TSec(title, names) == One(<<Begin(title)>> \o [i \in 1..Len(names) |-> Prop(title, names[i])] \o <<End(title)>>)
Base(p) == 2^p.bb
Kpl(p)  == (p.kk + 1) * p.l

ExpLweParams      == TSec("LWEPARAMS", <<"alpha_max", "alpha_min", "n">>)
ExpLweSample(p)   == One(<<Tag(UID.LweSample), Raw(4 * p.n), Raw(4), Raw(8)>>)
LweKeyContent(p)  == One(<<Tag(UID.LweKey), Raw(4 * p.n)>>)
ExpTLweParams     == TSec("TLWEPARAMS", <<"N", "alpha_max", "alpha_min", "k">>)
TLweSampleCalls(p) == <<Tag(UID.TLweSample)>> \o [i \in 1..(p.kk + 1) |-> Raw(4 * p.N)] \o <<Raw(8)>>
ExpTLweSample(p)  == One(TLweSampleCalls(p))
TLweKeyContent(p) == <<Seg(<<Tag(UID.TLweKey)>>, 1), Seg(<<Raw(4 * p.N)>>, p.kk)>>
ExpTGswParams     == ExpTLweParams \o TSec("TGSWPARAMS", <<"Bgbit", "l">>)
ExpTGswSample(p)  == <<Seg(<<Tag(UID.TGswSample)>>, 1), Seg(TLweSampleCalls(p), Kpl(p))>>
TGswKeyContent(p) == <<Seg(<<Tag(UID.TGswKey)>>, 1), Seg(<<Raw(4 * p.N)>>, p.kk)>>
KSParams          == TSec("LWEKSPARAMS", <<"basebit", "n", "t">>)
KSContent(nin, p) == <<Seg(<<Tag(UID.KSKey), Raw(8)>>, 1), Seg(<<Raw(4 * p.n), Raw(4)>>, nin * p.t * Base(p))>>      \* variance stored once
BKContent(p)      == <<Seg(<<Tag(UID.BKey), Raw(8)>>, 1), Seg(<<Raw(4 * p.N)>>, p.n * Kpl(p) * (p.kk + 1))>>
ExpGateParams     == TSec("GATEBOOTSPARAMS", <<"ks_basebit", "ks_t">>) \o ExpLweParams \o ExpTGswParams
\* the public part of a key set, and the secret part appended to it
CloudBody(p)      == KSParams \o KSContent(p.kk * p.N, p) \o BKContent(p)
ExpCloudSegs(p)   == ExpGateParams \o CloudBody(p)
SecretTailSegs(p) == LweKeyContent(p) \o TGswKeyContent(p)
ExpSecretSegs(p)  == ExpCloudSegs(p) \o SecretTailSegs(p)

ExportSegs(ty, p) == CASE ty = "LweParams"  -> ExpLweParams
                   [] ty = "LweSample"  -> ExpLweSample(p)
                   [] ty = "GateCt"     -> ExpLweSample(p)
                   [] ty = "LweKey"     -> ExpLweParams \o LweKeyContent(p)
                   [] ty = "TLweParams" -> ExpTLweParams
                   [] ty = "TLweSample" -> ExpTLweSample(p)
                   [] ty = "TLweKey"    -> ExpTLweParams \o TLweKeyContent(p)
                   [] ty = "TGswParams" -> ExpTGswParams
                   [] ty = "TGswSample" -> ExpTGswSample(p)
                   [] ty = "TGswKey"    -> ExpTGswParams \o TGswKeyContent(p)
                   [] ty = "KSKey"      -> ExpLweParams \o KSParams \o KSContent(p.ksn, p)
                   [] ty = "BKey"       -> ExpLweParams \o ExpTGswParams \o CloudBody(p)
                   [] ty = "GateParams" -> ExpGateParams
                   [] ty = "CloudKey"   -> ExpCloudSegs(p)
                   [] ty = "SecretKey"  -> ExpSecretSegs(p)
\* Canonical form, independent of how the writer groups its calls: text sections stay line by line, every maximal run of binary segments becomes ONE
\* call carrying the total length and the first type tag.  (Recorded exports are tokenised from their bytes in the same way.)
IsTextSeg(sg) == sg.pat[1].c # "w"
RECURSIVE PatBytes(_, _)
PatBytes(pat, i) == IF i > Len(pat) THEN 0 ELSE pat[i].len + PatBytes(pat, i + 1)
SegBytes(sg) == sg.cnt * PatBytes(sg.pat, 1)
Run(len, tag) == One(<<[c |-> "w", s |-> "", len |-> len, tag |-> tag]>>)
RECURSIVE CanonFrom(_, _, _, _)
CanonFrom(segs, i, acc, tag) ==
    IF i > Len(segs) THEN (IF tag = -2 THEN <<>> ELSE Run(acc, tag))
    ELSE IF IsTextSeg(segs[i]) THEN (IF tag = -2 THEN <<>> ELSE Run(acc, tag)) \o <<segs[i]>> \o CanonFrom(segs, i + 1, 0, -2)
    ELSE CanonFrom(segs, i + 1, acc + SegBytes(segs[i]), IF tag = -2 THEN segs[i].pat[1].tag ELSE tag)
Canon(segs) == CanonFrom(segs, 1, 0, -2)
\* the flat call sequence
FlatSeg(sg) == [i \in 1..(sg.cnt * Len(sg.pat)) |-> sg.pat[((i - 1) % Len(sg.pat)) + 1]]
RECURSIVE Flat(_, _)
Flat(segs, i) == IF i > Len(segs) THEN <<>> ELSE FlatSeg(segs[i]) \o Flat(segs, i + 1)
Export(ty, p) == Flat(ExportSegs(ty, p), 1)
ExpCloud(p)   == Flat(ExpCloudSegs(p), 1)
SecretTail(p) == Flat(SecretTailSegs(p), 1)
ExpSecret(p)  == Flat(ExpSecretSegs(p), 1)
LweKeyCalls(p) == Flat(LweKeyContent(p), 1)
RECURSIVE NCallsR(_, _)
NCallsR(segs, i) == IF i > Len(segs) THEN 0 ELSE segs[i].cnt * Len(segs[i].pat) + NCallsR(segs, i + 1)
NCalls(segs) == NCallsR(segs, 1)          \* number of transport calls of an export
\* cursor over segments: (segment, repetition, index in pattern), all starting at 1
Cursor0 == [sg |-> 1, rp |-> 1, ix |-> 1]
RECURSIVE SkipEmpty(_, _)
SkipEmpty(segs, sg) == IF sg <= Len(segs) /\ (segs[sg].cnt = 0 \/ Len(segs[sg].pat) = 0) THEN SkipEmpty(segs, sg + 1) ELSE sg
Start(segs) == [Cursor0 EXCEPT !.sg = SkipEmpty(segs, 1)]
AtEnd(segs, c) == c.sg > Len(segs)
CallAt(segs, c) == segs[c.sg].pat[c.ix]
Advance(segs, c) == IF c.ix < Len(segs[c.sg].pat) THEN [c EXCEPT !.ix = c.ix + 1]
                    ELSE IF c.rp < segs[c.sg].cnt THEN [c EXCEPT !.rp = c.rp + 1, !.ix = 1]
                    ELSE [sg |-> SkipEmpty(segs, c.sg + 1), rp |-> 1, ix |-> 1]

\* which field of the object a property line carries
FieldOf(s) == CASE s = "LWEPARAMS.n" -> "n" [] s = "LWEPARAMS.alpha_min" -> "amin" [] s = "LWEPARAMS.alpha_max" -> "amax"
                [] s = "TLWEPARAMS.N" -> "N" [] s = "TLWEPARAMS.k" -> "kk" [] s = "TLWEPARAMS.alpha_min" -> "tmin" [] s = "TLWEPARAMS.alpha_max" -> "tmax"
                [] s = "TGSWPARAMS.l" -> "l" [] s = "TGSWPARAMS.Bgbit" -> "Bgbit"
                [] s = "LWEKSPARAMS.n" -> "ksn" [] s = "LWEKSPARAMS.t" -> "t" [] s = "LWEKSPARAMS.basebit" -> "bb"
                [] s = "GATEBOOTSPARAMS.ks_t" -> "t" [] s = "GATEBOOTSPARAMS.ks_basebit" -> "bb"
IsReal(f) == f \in {"amin", "amax", "tmin", "tmax"}

(* ---- C17: what a cloud export contains --------------------------------------------------------------- *)
RECURSIVE SumLen(_, _, _)
SumLen(calls, lo, hi) == IF lo > hi THEN 0 ELSE IF lo = hi THEN calls[lo].len
                         ELSE LET mid == (lo + hi) \div 2 IN SumLen(calls, lo, mid) + SumLen(calls, mid + 1, hi)
BinBytes(calls, i) == SumLen(calls, 1, i)        \* bytes of the binary calls (text lines have len 0 here)
\* size formula of the binary part of the cloud key, from the parameters alone
CloudBinarySize(p) == (4 + 8 + p.kk * p.N * p.t * Base(p) * (4 * p.n + 4)) + (4 + 8 + p.n * Kpl(p) * (p.kk + 1) * 4 * p.N)
SecretTags == {UID.LweKey, UID.TGswKey, UID.TLweKey}
NoSecretSection(calls) == \A i \in 1..Len(calls) : calls[i].tag \notin SecretTags
IsStrictPrefix(a, b) == Len(a) < Len(b) /\ \A i \in 1..Len(a) : a[i] = b[i]

(* ---- C18: outcome of importing a damaged stream -------------------------------------------------------- *)
\* outcomes: "clean" (returned normally, stream good), "failed" (returned, stream in failed state), "signal" (process terminated), "exit" (process exited non-zero)
\* The importer may accept (return clean) only a stream that contains a complete well-typed export.  One named deviation of the code is part of the model:
\* AcceptMissingFinalNewline -- on the C++ stream transport a prefix that lacks only the final line terminator of a trailing text section
\* contains the whole object and is accepted, with a complete object.
AllowedOutcome(outcome, complete, lastIsText, missing, transport, objectEqual) ==
    \/ outcome \in {"failed", "signal", "exit"}
    \/ outcome = "clean" /\ complete /\ objectEqual
    \/ outcome = "clean" /\ lastIsText /\ missing = 1 /\ transport = "stream" /\ objectEqual       \* AcceptMissingFinalNewline
=============================================================================
