---- MODULE MC_Gadget_TTrace_1790549364 ----
EXTENDS Sequences, TLCExt, Toolbox, MC_Gadget, Naturals, TLC

_expression ==
    LET MC_Gadget_TEExpression == INSTANCE MC_Gadget_TEExpression
    IN MC_Gadget_TEExpression!expression
----

_trace ==
    LET MC_Gadget_TETrace == INSTANCE MC_Gadget_TETrace
    IN MC_Gadget_TETrace!trace
----

_inv ==
    ~(
        TLCGet("level") = Len(_TETrace)
        /\
        res = (<<<<0, 0>>, <<0, 0>>, <<0, 0>>>>)
        /\
        buf = (<<84, 84>>)
        /\
        pc = ("extract")
        /\
        orig = (<<0, 0>>)
        /\
        lv = (1)
    )
----

_init ==
    /\ lv = _TETrace[1].lv
    /\ pc = _TETrace[1].pc
    /\ res = _TETrace[1].res
    /\ buf = _TETrace[1].buf
    /\ orig = _TETrace[1].orig
----

_next ==
    /\ \E i,j \in DOMAIN _TETrace:
        /\ \/ /\ j = i + 1
              /\ i = TLCGet("level")
        /\ lv  = _TETrace[i].lv
        /\ lv' = _TETrace[j].lv
        /\ pc  = _TETrace[i].pc
        /\ pc' = _TETrace[j].pc
        /\ res  = _TETrace[i].res
        /\ res' = _TETrace[j].res
        /\ buf  = _TETrace[i].buf
        /\ buf' = _TETrace[j].buf
        /\ orig  = _TETrace[i].orig
        /\ orig' = _TETrace[j].orig

\* Uncomment the ASSUME below to write the states of the error trace
\* to the given file in Json format. Note that you can pass any tuple
\* to `JsonSerialize`. For example, a sub-sequence of _TETrace.
    \* ASSUME
    \*     LET J == INSTANCE Json
    \*         IN J!JsonSerialize("MC_Gadget_TTrace_1790549364.json", _TETrace)

=============================================================================

 Note that you can extract this module `MC_Gadget_TEExpression`
  to a dedicated file to reuse `expression` (the module in the 
  dedicated `MC_Gadget_TEExpression.tla` file takes precedence 
  over the module `MC_Gadget_TEExpression` below).

---- MODULE MC_Gadget_TEExpression ----
EXTENDS Sequences, TLCExt, Toolbox, MC_Gadget, Naturals, TLC

expression == 
    [
        \* To hide variables of the `MC_Gadget` spec from the error trace,
        \* remove the variables below.  The trace will be written in the order
        \* of the fields of this record.
        lv |-> lv
        ,pc |-> pc
        ,res |-> res
        ,buf |-> buf
        ,orig |-> orig
        
        \* Put additional constant-, state-, and action-level expressions here:
        \* ,_stateNumber |-> _TEPosition
        \* ,_lvUnchanged |-> lv = lv'
        
        \* Format the `lv` variable as Json value.
        \* ,_lvJson |->
        \*     LET J == INSTANCE Json
        \*     IN J!ToJson(lv)
        
        \* Lastly, you may build expressions over arbitrary sets of states by
        \* leveraging the _TETrace operator.  For example, this is how to
        \* count the number of times a spec variable changed up to the current
        \* state in the trace.
        \* ,_lvModCount |->
        \*     LET F[s \in DOMAIN _TETrace] ==
        \*         IF s = 1 THEN 0
        \*         ELSE IF _TETrace[s].lv # _TETrace[s-1].lv
        \*             THEN 1 + F[s-1] ELSE F[s-1]
        \*     IN F[_TEPosition - 1]
    ]

=============================================================================



Parsing and semantic processing can take forever if the trace below is long.
 In this case, it is advised to uncomment the module below to deserialize the
 trace from a generated binary file.

\*
\*---- MODULE MC_Gadget_TETrace ----
\*EXTENDS IOUtils, MC_Gadget, TLC
\*
\*trace == IODeserialize("MC_Gadget_TTrace_1790549364.bin", TRUE)
\*
\*=============================================================================
\*

---- MODULE MC_Gadget_TETrace ----
EXTENDS MC_Gadget, TLC

trace == 
    <<
    ([res |-> <<<<0, 0>>, <<0, 0>>, <<0, 0>>>>,buf |-> <<0, 0>>,pc |-> "start",orig |-> <<0, 0>>,lv |-> 1]),
    ([res |-> <<<<0, 0>>, <<0, 0>>, <<0, 0>>>>,buf |-> <<84, 84>>,pc |-> "extract",orig |-> <<0, 0>>,lv |-> 1])
    >>
----


=============================================================================

---- CONFIG MC_Gadget_TTrace_1790549364 ----
CONSTANTS
    W = 7
    L = 3
    Bgbit = 2
    NC = 2
    Vals = { 0 , 1 , 2 , 3 , 4 , 5 , 6 , 7 , 8 , 15 , 16 , 17 , 31 , 32 , 33 , 63 , 64 , 65 , 95 , 96 , 97 , 126 , 127 }
    Mutant = "none"

INVARIANT
    _inv

CHECK_DEADLOCK
    \* CHECK_DEADLOCK off because of PROPERTY or INVARIANT above.
    FALSE

INIT
    _init

NEXT
    _next

CONSTANT
    _TETrace <- _trace

ALIAS
    _expression
=============================================================================
\* Generated on Sun Sep 27 22:49:25 UTC 2026