------------------------------ MODULE Threads ------------------------------
(***************************************************************************)
(* Threads evaluating with the library: one FFT processor per thread       *)
(* (thread_local object holding twiddle tables and the in/out scratch      *)
(* buffers every transform goes through), the FFTW planner critical        *)
(* section (plan creation under a mutex, plan destruction in the           *)
(* thread-exit destructor), and what the destructor releases.              *)
(* One transform is three steps (load scratch, run, read scratch) so that  *)
(* TLC explores every interleaving of transforms of different threads.     *)
(* Constants select the structure of a back-end as implemented, or a       *)
(* deliberately wrong one.                                                 *)
(***************************************************************************)
EXTENDS Integers, FiniteSets, Sequences, TLC
CONSTANTS Thr,            \* thread ids
          Calls,          \* number of transforms each thread performs
          ProcScope,      \* "thread" : one processor per thread (thread_local)   | "global" : one shared
          DtorLocked,     \* TRUE iff the destructor takes the planner mutex around plan destruction
          UsesPlanner,    \* TRUE for the FFTW back-end
          DtorFrees,      \* "all" : the destructor releases every allocation of the constructor | "partial" (spqlios as pinned: 1 of 4)
          TableScope,     \* "proc" : every processor owns its read-only twiddle tables | "firstowner" : tables published once and freed by the processor that built them
          PolyShare,      \* FALSE: a Lagrange polynomial is only used by the thread that created it | TRUE: the first thread's polynomial is handed to the others
          PolyProc,       \* "creator": the polynomial points at its creating thread's processor (as pinned, D8) | "immortal": at a processor that lives as long as the process (fix 0f4e6fe)
          TempScope       \* "call" : evaluation temporaries (decomposition, FFT images, accumulator copy, test vector) are allocated per call | "static" : one set shared by all callers
VARIABLES pc,             \* pc[t]
          left,           \* transforms still to do
          proc,           \* proc[p] \in {"none","live","dead"}  for processor ids p
          buf,            \* buf[p] = tag of the (thread,call) whose data is in p's scratch buffer, or <<"free", 0>>
          mutex,          \* holder of the planner mutex or "none"
          inplanner,      \* set of threads currently inside an FFTW planner routine
          result,         \* result[t] = sequence of "ok"/"corrupt" per completed transform
          heap,           \* heap[p] = number of live allocations made by processor p's constructor
          tab,            \* shared tables (TableScope = "firstowner"): [owner, state \in {"none","live","freed"}]
          tmp,            \* tmp[x] = tag of the (thread,call) whose data is in the evaluation temporaries x
          uaf,            \* TRUE once a transform has read tables that were already freed
          poly,           \* the handed-over Lagrange polynomial: "none" or the thread whose processor its precomp field points to
          puaf            \* TRUE once an operation on that polynomial has read the processor of a thread that has exited
vars == <<pc, left, proc, buf, mutex, inplanner, result, heap, tab, tmp, uaf, poly, puaf>>
NAlloc == 4
P(t) == IF ProcScope = "thread" THEN t ELSE "shared"
Procs == IF ProcScope = "thread" THEN Thr ELSE {"shared"}
T(t) == IF TempScope = "call" THEN t ELSE "static"
Temps == IF TempScope = "call" THEN Thr ELSE {"static"}
Publish(t) == IF TableScope = "firstowner" /\ tab.state = "none" THEN [owner |-> t, state |-> "live"] ELSE tab
Unpublish(t) == IF TableScope = "firstowner" /\ tab.owner = t /\ tab.state = "live" THEN [tab EXCEPT !.state = "freed"] ELSE tab
Init == /\ pc = [t \in Thr |-> "start"] /\ left = [t \in Thr |-> Calls]
        /\ proc = [p \in Procs |-> "none"] /\ buf = [p \in Procs |-> <<"free", 0>>]
        /\ mutex = "none" /\ inplanner = {} /\ result = [t \in Thr |-> <<>>] /\ heap = [p \in Procs |-> 0]
        /\ tab = [owner |-> "none", state |-> "none"] /\ tmp = [x \in Temps |-> <<"free", 0>>] /\ uaf = FALSE
        /\ poly = "none" /\ puaf = FALSE
\* ---- construction on first use (thread_local dynamic initialisation) ----
CtorLock(t)   == pc[t] = "start" /\ proc[P(t)] = "none" /\ UsesPlanner /\ mutex = "none"
                 /\ mutex' = t /\ pc' = [pc EXCEPT ![t] = "plan"] /\ UNCHANGED <<left,proc,buf,inplanner,result,heap,tab,tmp,uaf,poly,puaf>>
CtorPlanIn(t) == pc[t] = "plan" /\ inplanner' = inplanner \cup {t} /\ pc' = [pc EXCEPT ![t] = "plan2"]
                 /\ UNCHANGED <<left,proc,buf,mutex,result,heap,tab,tmp,uaf,poly,puaf>>
CtorPlanOut(t)== pc[t] = "plan2" /\ inplanner' = inplanner \ {t} /\ mutex' = "none"
                 /\ proc' = [proc EXCEPT ![P(t)] = "live"] /\ pc' = [pc EXCEPT ![t] = "idle"] /\ heap' = [heap EXCEPT ![P(t)] = NAlloc] /\ tab' = Publish(t)
                 /\ UNCHANGED <<left,buf,result,tmp,uaf,poly,puaf>>
CtorPlain(t)  == pc[t] = "start" /\ proc[P(t)] = "none" /\ ~UsesPlanner
                 /\ proc' = [proc EXCEPT ![P(t)] = "live"] /\ pc' = [pc EXCEPT ![t] = "idle"] /\ heap' = [heap EXCEPT ![P(t)] = NAlloc] /\ tab' = Publish(t)
                 /\ UNCHANGED <<left,buf,mutex,inplanner,result,tmp,uaf,poly,puaf>>
CtorSkip(t)   == pc[t] = "start" /\ proc[P(t)] = "live" /\ pc' = [pc EXCEPT ![t] = "idle"]
                 /\ UNCHANGED <<left,proc,buf,mutex,inplanner,result,heap,tab,tmp,uaf,poly,puaf>>
\* ---- one transform = load scratch ; run ; read scratch -------------------
Begin(t) == pc[t] = "idle" /\ left[t] > 0 /\ proc[P(t)] = "live"
            /\ buf' = [buf EXCEPT ![P(t)] = <<t, left[t]>>] /\ tmp' = [tmp EXCEPT ![T(t)] = <<t, left[t]>>] /\ pc' = [pc EXCEPT ![t] = "loaded"]
            /\ UNCHANGED <<left,proc,mutex,inplanner,result,heap,tab,uaf,poly,puaf>>
\* with PolyShare the first transform creates the shared polynomial (its precomp = the creator's processor); a later operation by anyone reads that processor
Run(t)   == pc[t] = "loaded" /\ pc' = [pc EXCEPT ![t] = "ran"] /\ uaf' = (uaf \/ (TableScope = "firstowner" /\ tab.state = "freed"))
            /\ poly' = (IF PolyShare /\ poly = "none" THEN t ELSE poly)
            /\ puaf' = (puaf \/ (PolyShare /\ PolyProc = "creator" /\ poly # "none" /\ proc[P(poly)] = "dead")) /\ UNCHANGED <<left,proc,buf,mutex,inplanner,result,heap,tab,tmp>>
End(t)   == pc[t] = "ran"
            /\ result' = [result EXCEPT ![t] = Append(@, IF buf[P(t)] = <<t, left[t]>> /\ tmp[T(t)] = <<t, left[t]>> THEN "ok" ELSE "corrupt")]
            /\ tmp' = [tmp EXCEPT ![T(t)] = IF @ = <<t, left[t]>> THEN <<"free", 0>> ELSE @]
            /\ buf' = [buf EXCEPT ![P(t)] = IF @ = <<t, left[t]>> THEN <<"free", 0>> ELSE @]
            /\ left' = [left EXCEPT ![t] = @ - 1] /\ pc' = [pc EXCEPT ![t] = "idle"]
            /\ UNCHANGED <<proc,mutex,inplanner,heap,tab,uaf,poly,puaf>>
\* ---- thread exit: destructor of the thread's processor --------------------
ExitLock(t)  == pc[t] = "idle" /\ left[t] = 0 /\ ProcScope = "thread" /\ UsesPlanner /\ DtorLocked /\ mutex = "none"
                /\ mutex' = t /\ pc' = [pc EXCEPT ![t] = "dtor"] /\ UNCHANGED <<left,proc,buf,inplanner,result,heap,tab,tmp,uaf,poly,puaf>>
ExitNoLock(t)== pc[t] = "idle" /\ left[t] = 0 /\ ProcScope = "thread" /\ UsesPlanner /\ ~DtorLocked
                /\ pc' = [pc EXCEPT ![t] = "dtor"] /\ UNCHANGED <<left,proc,buf,mutex,inplanner,result,heap,tab,tmp,uaf,poly,puaf>>
DtorIn(t)    == pc[t] = "dtor" /\ inplanner' = inplanner \cup {t} /\ pc' = [pc EXCEPT ![t] = "dtor2"]
                /\ UNCHANGED <<left,proc,buf,mutex,result,heap,tab,tmp,uaf,poly,puaf>>
DtorOut(t)   == pc[t] = "dtor2" /\ inplanner' = inplanner \ {t} /\ mutex' = (IF mutex = t THEN "none" ELSE mutex)
                /\ proc' = [proc EXCEPT ![P(t)] = "dead"] /\ pc' = [pc EXCEPT ![t] = "gone"] /\ heap' = [heap EXCEPT ![P(t)] = (IF DtorFrees = "all" THEN 0 ELSE NAlloc - 1)] /\ tab' = Unpublish(t)
                /\ UNCHANGED <<left,buf,result,tmp,uaf,poly,puaf>>
ExitPlain(t) == pc[t] = "idle" /\ left[t] = 0 /\ (~UsesPlanner \/ ProcScope # "thread")
                /\ proc' = [proc EXCEPT ![P(t)] = IF ProcScope = "thread" THEN "dead" ELSE @]
                /\ heap' = [heap EXCEPT ![P(t)] = IF ProcScope = "thread" THEN (IF DtorFrees = "all" THEN 0 ELSE NAlloc - 1) ELSE @]
                /\ tab' = (IF ProcScope = "thread" THEN Unpublish(t) ELSE tab)
                /\ pc' = [pc EXCEPT ![t] = "gone"] /\ UNCHANGED <<left,buf,mutex,inplanner,result,tmp,uaf,poly,puaf>>
Next == \E t \in Thr : CtorLock(t) \/ CtorPlanIn(t) \/ CtorPlanOut(t) \/ CtorPlain(t) \/ CtorSkip(t)
                    \/ Begin(t) \/ Run(t) \/ End(t)
                    \/ ExitLock(t) \/ ExitNoLock(t) \/ DtorIn(t) \/ DtorOut(t) \/ ExitPlain(t)
Spec == Init /\ [][Next]_vars /\ WF_vars(Next)
Deterministic    == \A t \in Thr : \A i \in 1..Len(result[t]) : result[t][i] = "ok"
PlannerExclusive == Cardinality(inplanner) <= 1
\* no scratch buffer is between Begin and End for two threads at once
ScratchPrivate   == \A t1, t2 \in Thr : (t1 # t2 /\ pc[t1] \in {"loaded", "ran"} /\ pc[t2] \in {"loaded", "ran"}) => P(t1) # P(t2)
\* per-thread FFT state is released when the thread exits
ReleasedOnExit   == \A t \in Thr : (pc[t] = "gone" /\ ProcScope = "thread") => heap[P(t)] = 0
\* no transform reads twiddle tables that were freed by another thread's exit
TablesAlive      == ~uaf
\* no operation on a Lagrange polynomial reads the processor of a thread that has exited (defect D8: violated by the design as pinned, PolyProc = "creator", once polynomials change hands; holds for the repaired design)
PolyProcAlive    == ~puaf
AllDone == <>(\A t \in Thr : pc[t] = "gone")
=============================================================================
