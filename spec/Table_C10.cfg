SPECIFICATION Spec
INVARIANT RowOK
CHECK_DEADLOCK FALSE
