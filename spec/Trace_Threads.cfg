SPECIFICATION ThSpec
INVARIANT Exercised
POSTCONDITION Accepted
CHECK_DEADLOCK FALSE
