------------------------------ MODULE TGswAlg ------------------------------
(***************************************************************************)
(* The TGSW sample as an algebraic object (src/libtfhe/tgsw-functions.cpp, *)
(* tgsw-fft-operations.cpp): a register holding (k+1)l TLWE rows, the      *)
(* operations the library offers on it - clear, add the gadget H, add      *)
(* mu*H for an integer polynomial or an integer, noiseless trivial sample, *)
(* multiply by X^a - 1 (out of place), load of a noiseless encryption,     *)
(* decryption, round trip through the Lagrange-domain image - and the      *)
(* message m the register carries.  What makes a row matrix a TGSW sample  *)
(* of m is WellFormed: under the ring key, row (c, p) has phase m*h_p on   *)
(* the body block and -s_c*m*h_p on mask block c.  Every operation is a    *)
(* ring homomorphism on messages (MessageMap), which is what external      *)
(* products and blind rotation (RingScheme) rely on.  Bit-exact at reduced *)
(* size through the embeddings of RingScheme; the library is driven with   *)
(* the embedded values and must produce the embedded results exactly.      *)
(***************************************************************************)
EXTENDS RingScheme
CONSTANTS MuPool,          \* integer polynomials used as messages (sequences of NP integers)
          Exps,            \* exponents a of X^a - 1
          Msizes,          \* message-space sizes of tGswSymDecrypt (powers of two <= Bg^LL)
          Tags,            \* mask seeds of loaded encryptions
          MaxOps,
          AlgMutant        \* "none" | "bodyonly": the gadget is added to the body block only (design mutant: must violate WellFormed)
VARIABLES g,               \* the register: rows 1..(KK+1)*LL -> TLWE sample
          m,               \* the message it carries (coefficients mod Q)
          nops, lastop
avars == <<g, m, nops, lastop>>
Rows == 1..((KK + 1) * LL)
DefaultMuPool == <<<<1, 0, 0, 0>>, <<0, 1, 0, 0>>, <<-1, 0, 2, 0>>, <<3, -2, 1, -1>>, <<0, 0, 0, -1>>, <<7, 7, -8, 5>>>>        \* (for NP = 4)
MuP(k) == [i \in Idx |-> MuPool[k][i + 1]]
PMod(p) == TLCEval([i \in Idx |-> Md(p[i])])
GZero == TLCEval([r \in Rows |-> TZero])
\* integer polynomial times gadget element, placed on component RowC(r) of row r
PlaceMuH(gg, mu) == LET g0 == gg IN TLCEval([r \in Rows |-> TLCEval([c \in Comp |->
                        IF c = RowC(r) /\ (AlgMutant = "bodyonly" => c = KK) THEN PAdd(g0[r][c], [i \in Idx |-> Md(mu[i] * H(RowP(r)))]) ELSE g0[r][c]])])
\* X^e * m for an integer polynomial given mod Q (same two-case code as for torus polynomials)
AInit == g = GZero /\ m = Zero /\ nops = 0 /\ lastop = [op |-> "Init"]
Did(rec) == nops < MaxOps /\ nops' = nops + 1 /\ lastop' = rec
Clear        == g' = GZero /\ m' = Zero /\ Did([op |-> "Clear"])                                             \* tGswClear
AddH         == g' = PlaceMuH(g, Const(1)) /\ m' = PAdd(m, Const(1)) /\ Did([op |-> "AddH"])                   \* tGswAddH
SeqOf(p) == [i \in 1..NP |-> p[i - 1]]
AddMuH(mu)   == g' = PlaceMuH(g, mu) /\ m' = PAdd(m, PMod(mu)) /\ Did([op |-> "AddMuH", mu |-> SeqOf(mu)])          \* tGswAddMuH
AddMuIntH(v) == g' = PlaceMuH(g, Const(v)) /\ m' = PAdd(m, PMod(Const(v))) /\ Did([op |-> "AddMuIntH", v |-> v])   \* tGswAddMuIntH
Trivial(mu)  == g' = PlaceMuH(GZero, mu) /\ m' = PMod(mu) /\ Did([op |-> "Trivial", mu |-> SeqOf(mu)])             \* tGswNoiselessTrivial
Load(k, tag) == g' = TGsw(MuP(k), tag) /\ m' = PMod(MuP(k)) /\ Did([op |-> "Load", k |-> k, tag |-> tag])          \* a noiseless tGswSymEncrypt with the module's masks
MulXaiM1(e)  == /\ g' = TLCEval([r \in Rows |-> TMulXaiM1(e, g[r])])                                              \* tGswMulByXaiMinusOne (into a second sample)
                /\ m' = PSub(MulXai(e, m), m) /\ Did([op |-> "MulXaiM1", x |-> e])
\* observations: they change nothing
DecOf(ms)    == [i \in Idx |-> m[i] % ms]                                                                     \* tGswSymDecrypt(.., Msize)
Decrypt(ms)  == UNCHANGED <<g, m>> /\ Did([op |-> "Decrypt", ms |-> ms, dec |-> DecOf(ms)])
FFTRound     == UNCHANGED <<g, m>> /\ Did([op |-> "FFTRound"])                                                \* tGswToFFTConvert then tGswFromFFTConvert
\* the gadget added in the Lagrange domain: what comes back from tGswToFFTConvert ; tGswFFTAddH ; tGswFromFFTConvert is the register plus H,
\* and from tGswFFTClear ; tGswFFTAddH ; tGswFromFFTConvert it is H alone (the register itself is left as it was)
\* a fresh encryption by the library itself (tGswSymEncrypt / tGswSymEncryptInt with real masks and noise 2^-alog, into a scratch sample): its rows are not
\* the specification's, but their phases are - the message times the gadget, as WellFormed says, up to the noise
PhasesOf(mu) == [r \in Rows |-> LET mh == [i \in Idx |-> Md(mu[i] * H(RowP(r)))] IN IF RowC(r) = KK THEN TLCEval(mh) ELSE PSub(Zero, NegMul(SKey[RowC(r)], mh))]
EncPoly(mu, alog) == UNCHANGED <<g, m>> /\ Did([op |-> "EncPoly", mu |-> SeqOf(mu), alog |-> alog])
EncInt(v, alog)   == UNCHANGED <<g, m>> /\ Did([op |-> "EncInt", v |-> v, alog |-> alog])
FFTAddHOf(gg) == PlaceMuH(gg, Const(1))
FFTAddH      == UNCHANGED <<g, m>> /\ Did([op |-> "FFTAddH"])
FFTOnlyH     == UNCHANGED <<g, m>> /\ Did([op |-> "FFTOnlyH"])
ANext == \/ Clear \/ AddH \/ FFTRound \/ FFTAddH \/ FFTOnlyH
         \/ \E k \in 1..Len(MuPool) : AddMuH(MuP(k)) \/ Trivial(MuP(k)) \/ \E tag \in Tags : Load(k, tag)
         \/ \E v \in {-1, 2, 3} : AddMuIntH(v) \/ \E alog \in {20, 30} : EncInt(v, alog)
         \/ \E k \in 1..Len(MuPool), alog \in {20, 30} : EncPoly(MuP(k), alog)
         \/ \E e \in Exps : MulXaiM1(e)
         \/ \E ms \in Msizes : Decrypt(ms)
ASpec == AInit /\ [][ANext]_avars
(* ---- what must hold ------------------------------------------------------- *)
MH(p) == [i \in Idx |-> Md(m[i] * H(p))]
WellFormed == \A r \in Rows : TPhase(g[r]) = (IF RowC(r) = KK THEN MH(RowP(r)) ELSE PSub(Zero, NegMul(SKey[RowC(r)], MH(RowP(r)))))
\* decryption reads the message off the body block: sum_p d_p * phase(row (k, p)) with d the gadget digits of 1/Msize, rounded to the Msize grid
DecDigits(ms) == [p \in 1..LL |-> Digit(Q \div ms, p)]
DecPhase(ms) == LET ph == [p \in 1..LL |-> TPhase(g[KK * LL + p])] IN [i \in Idx |-> Md(SumF([p \in 0..(LL - 1) |-> DecDigits(ms)[p + 1] * ph[p + 1][i]], LL - 1))]
RoundTo(x, ms) == (((x * ms) + (Q \div 2)) \div Q) % ms
DecryptReadsMessage == \A ms \in Msizes : [i \in Idx |-> RoundTo(DecPhase(ms)[i], ms)] = DecOf(ms)
=============================================================================
