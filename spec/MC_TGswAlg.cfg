SPECIFICATION ASpec
CONSTANTS W = 8
 NP = 4
 KK = 1
 LL = 2
 BGB = 4
 NN = 1
 T = 2
 BB = 2
 MuPool <- MCMuPool
 Exps = {1, 4, 7}
 Msizes = {2, 4, 16}
 Tags = {1, 2}
 MaxOps = 3
 AlgMutant = "none"
VIEW View
INVARIANT WellFormed
INVARIANT DecryptReadsMessage
CHECK_DEADLOCK FALSE
