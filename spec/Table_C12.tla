----------------------------- MODULE Table_C12 -----------------------------
(* Rows printed by harness/h_gadget.cpp validated against Gadget (C12). *)
EXTENDS Gadget, Table, Word32
VARIABLE i
Init == i \in 1..NRows
Next == UNCHANGED i
Spec == Init /\ [][Next]_i
R == Rows[i]

\* ---- the property as stated, at full width, for the layout carried by the row ----
Balanced32(d, bgbit) == \A p \in 1..Len(d) : d[p] >= -(2^(bgbit - 1)) /\ d[p] < 2^(bgbit - 1)
Recomp32(d, bgbit)   == WSum([p \in 1..Len(d) |-> WShl(d[p], 32 - p * bgbit)])
Recomposes32(d, bgbit, x) == WBelowPow2(WSub(x, Recomp32(d, bgbit)), 32 - Len(d) * bgbit)

\* ---- embedded rows of this instance's layout: equality with the as-implemented model ----
Embedded(w) == IF W >= 16 THEN w.l % 2^(32 - W) = 0 ELSE w.l = 0 /\ w.h % 2^(16 - W) = 0
Xi(w) == IF W >= 16 THEN w.h * 2^(W - 16) + w.l \div 2^(32 - W) ELSE w.h \div 2^(16 - W)

RowDec == /\ IsWord(R.x) /\ Len(R.d) = R.L
          /\ R.a = R.x                                         \* input coefficient unchanged after the call
          /\ Balanced32(R.d, R.B)
          /\ Recomposes32(R.d, R.B, R.x)
          /\ (R.L = L /\ R.B = Bgbit /\ Embedded(R.x)) => R.d = Digits(Xi(R.x))
RowOK == CASE R.k = "dec" -> RowDec [] OTHER -> FALSE
=============================================================================
