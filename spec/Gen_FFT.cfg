SPECIFICATION GSpec
CONSTANTS NP = 4
 W = 8
 LRegs = {0,1,2}
 IPool <- GIPool
 TPool <- GTPool
 GenDepth = 24
CONSTRAINT Dump
CONSTRAINT Bound
CONSTRAINT Small
CHECK_DEADLOCK FALSE
