------------------------------- MODULE Table -------------------------------
(***************************************************************************)
(* Generic binding of a table of observations recorded from the real code  *)
(* (ndjson, one row per line, file named by the TRACE environment          *)
(* variable) to a row predicate of a specification module.  One TLC state  *)
(* per row; the invariant is the row predicate.  Rows are independent      *)
(* (stateless routines); stateful behaviours use Trace_* specs instead.    *)
(***************************************************************************)
EXTENDS Integers, Sequences, TLC, Json, IOUtils
Rows == ndJsonDeserialize(IOEnv.TRACE)
NRows == Len(Rows)
\* 32-bit words arrive as [h |-> 0..65535, l |-> 0..65535]
IsWord(w) == w.h \in 0..65535 /\ w.l \in 0..65535
=============================================================================
