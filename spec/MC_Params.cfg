SPECIFICATION Spec
CONSTANT Mutant = "none"
INVARIANT MatchesDocumentedThresholds
INVARIANT NeverWeaker
INVARIANT Monotone
INVARIANT SetsAreSound
CHECK_DEADLOCK FALSE
