---- MODULE Collector_TTrace_1790568232 ----
EXTENDS Sequences, TLCExt, Toolbox, Collector, Naturals, TLC, Collector_TEConstants

_expression ==
    LET Collector_TEExpression == INSTANCE Collector_TEExpression
    IN Collector_TEExpression!expression
----

_trace ==
    LET Collector_TETrace == INSTANCE Collector_TETrace
    IN Collector_TETrace!trace
----

_inv ==
    ~(
        TLCGet("level") = Len(_TETrace)
        /\
        single = (t2)
        /\
        rd = ((t1 :> 0 @@ t2 :> 0))
        /\
        slots = (<<>>)
        /\
        pc = ((t1 :> "read" @@ t2 :> "read"))
        /\
        size = (0)
        /\
        made = ({t1, t2})
        /\
        lock = ("none")
    )
----

_init ==
    /\ rd = _TETrace[1].rd
    /\ single = _TETrace[1].single
    /\ lock = _TETrace[1].lock
    /\ size = _TETrace[1].size
    /\ pc = _TETrace[1].pc
    /\ slots = _TETrace[1].slots
    /\ made = _TETrace[1].made
----

_next ==
    /\ \E i,j \in DOMAIN _TETrace:
        /\ \/ /\ j = i + 1
              /\ i = TLCGet("level")
        /\ rd  = _TETrace[i].rd
        /\ rd' = _TETrace[j].rd
        /\ single  = _TETrace[i].single
        /\ single' = _TETrace[j].single
        /\ lock  = _TETrace[i].lock
        /\ lock' = _TETrace[j].lock
        /\ size  = _TETrace[i].size
        /\ size' = _TETrace[j].size
        /\ pc  = _TETrace[i].pc
        /\ pc' = _TETrace[j].pc
        /\ slots  = _TETrace[i].slots
        /\ slots' = _TETrace[j].slots
        /\ made  = _TETrace[i].made
        /\ made' = _TETrace[j].made

\* Uncomment the ASSUME below to write the states of the error trace
\* to the given file in Json format. Note that you can pass any tuple
\* to `JsonSerialize`. For example, a sub-sequence of _TETrace.
    \* ASSUME
    \*     LET J == INSTANCE Json
    \*         IN J!JsonSerialize("Collector_TTrace_1790568232.json", _TETrace)

=============================================================================

 Note that you can extract this module `Collector_TEExpression`
  to a dedicated file to reuse `expression` (the module in the 
  dedicated `Collector_TEExpression.tla` file takes precedence 
  over the module `Collector_TEExpression` below).

---- MODULE Collector_TEExpression ----
EXTENDS Sequences, TLCExt, Toolbox, Collector, Naturals, TLC, Collector_TEConstants

expression == 
    [
        \* To hide variables of the `Collector` spec from the error trace,
        \* remove the variables below.  The trace will be written in the order
        \* of the fields of this record.
        rd |-> rd
        ,single |-> single
        ,lock |-> lock
        ,size |-> size
        ,pc |-> pc
        ,slots |-> slots
        ,made |-> made
        
        \* Put additional constant-, state-, and action-level expressions here:
        \* ,_stateNumber |-> _TEPosition
        \* ,_rdUnchanged |-> rd = rd'
        
        \* Format the `rd` variable as Json value.
        \* ,_rdJson |->
        \*     LET J == INSTANCE Json
        \*     IN J!ToJson(rd)
        
        \* Lastly, you may build expressions over arbitrary sets of states by
        \* leveraging the _TETrace operator.  For example, this is how to
        \* count the number of times a spec variable changed up to the current
        \* state in the trace.
        \* ,_rdModCount |->
        \*     LET F[s \in DOMAIN _TETrace] ==
        \*         IF s = 1 THEN 0
        \*         ELSE IF _TETrace[s].rd # _TETrace[s-1].rd
        \*             THEN 1 + F[s-1] ELSE F[s-1]
        \*     IN F[_TEPosition - 1]
    ]

=============================================================================



Parsing and semantic processing can take forever if the trace below is long.
 In this case, it is advised to uncomment the module below to deserialize the
 trace from a generated binary file.

\*
\*---- MODULE Collector_TETrace ----
\*EXTENDS IOUtils, Collector, TLC, Collector_TEConstants
\*
\*trace == IODeserialize("Collector_TTrace_1790568232.bin", TRUE)
\*
\*=============================================================================
\*

---- MODULE Collector_TETrace ----
EXTENDS Collector, TLC, Collector_TEConstants

trace == 
    <<
    ([single |-> "null",rd |-> (t1 :> 0 @@ t2 :> 0),slots |-> <<>>,pc |-> (t1 :> "start" @@ t2 :> "start"),size |-> 0,made |-> {},lock |-> "none"]),
    ([single |-> "null",rd |-> (t1 :> 0 @@ t2 :> 0),slots |-> <<>>,pc |-> (t1 :> "check" @@ t2 :> "start"),size |-> 0,made |-> {},lock |-> "none"]),
    ([single |-> "null",rd |-> (t1 :> 0 @@ t2 :> 0),slots |-> <<>>,pc |-> (t1 :> "create" @@ t2 :> "start"),size |-> 0,made |-> {},lock |-> "none"]),
    ([single |-> "null",rd |-> (t1 :> 0 @@ t2 :> 0),slots |-> <<>>,pc |-> (t1 :> "create" @@ t2 :> "check"),size |-> 0,made |-> {},lock |-> "none"]),
    ([single |-> "null",rd |-> (t1 :> 0 @@ t2 :> 0),slots |-> <<>>,pc |-> (t1 :> "create" @@ t2 :> "create"),size |-> 0,made |-> {},lock |-> "none"]),
    ([single |-> t1,rd |-> (t1 :> 0 @@ t2 :> 0),slots |-> <<>>,pc |-> (t1 :> "read" @@ t2 :> "create"),size |-> 0,made |-> {t1},lock |-> "none"]),
    ([single |-> t2,rd |-> (t1 :> 0 @@ t2 :> 0),slots |-> <<>>,pc |-> (t1 :> "read" @@ t2 :> "read"),size |-> 0,made |-> {t1, t2},lock |-> "none"])
    >>
----


=============================================================================

---- MODULE Collector_TEConstants ----
EXTENDS Collector

CONSTANTS t1, t2

=============================================================================

---- CONFIG Collector_TTrace_1790568232 ----
CONSTANTS
    Thr = { t1 , t2 }
    CallerLock = FALSE
    t2 = t2
    t1 = t1

INVARIANT
    _inv

CHECK_DEADLOCK
    \* CHECK_DEADLOCK off because of PROPERTY or INVARIANT above.
    FALSE

INIT
    _init

NEXT
    _next

CONSTANT
    _TETrace <- _trace

ALIAS
    _expression
=============================================================================
\* Generated on Mon Sep 28 04:03:53 UTC 2026