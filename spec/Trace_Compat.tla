----------------------------- MODULE Trace_Compat -----------------------------
(***************************************************************************)
(* C20: the public API is realised identically by each of the five         *)
(* library variants (both builds) and through the C99 and the C++11 view   *)
(* of the headers.  Events (checks/c20.py + harness/c20_driver.c):         *)
(*   Layout : sizeof / offsetof of every public structure in one view      *)
(*   Sym    : exported-symbol comparison of one variant against the union  *)
(*   Link   : a C99 program referencing every exported API function links  *)
(*   Obs    : one observation of the same API behaviour (key "P:..." must  *)
(*            agree across all variants and views, "V:..." across the      *)
(*            views of one variant)                                        *)
(* The specification is the memo: the first observation defines the value, *)
(* every later one must equal it.                                          *)
(***************************************************************************)
EXTENDS Integers, Sequences, TLC, Json, IOUtils
VARIABLES l, lay, obsm, counts
Tr == ndJsonDeserialize(IOEnv.TRACE)
Ev == Tr[l]
Structs == {Tr[i].struct : i \in {j \in 1..Len(Tr) : Tr[j].e = "Layout"}}
OKey(e) == IF SubSeq(e.key, 1, 2) = "P:" THEN <<"all", e.key>> ELSE <<e.variant, e.key>>
OKeys == {OKey(Tr[i]) : i \in {j \in 1..Len(Tr) : Tr[j].e = "Obs"}}
None == <<-1, -1>>
TInit == l = 1 /\ lay = [s \in Structs |-> <<>>] /\ obsm = [k \in OKeys |-> None] /\ counts = [layout |-> 0, obs |-> 0, sym |-> 0, link |-> 0]
Bump(f) == counts' = [counts EXCEPT ![f] = @ + 1]
TLayout == /\ Ev.e = "Layout"
           /\ LET v == <<Ev.size, Ev.fields>> IN
                IF lay[Ev.struct] = <<>> THEN lay' = [lay EXCEPT ![Ev.struct] = v] ELSE lay[Ev.struct] = v /\ lay' = lay      \* identical size and field offsets in every view
           /\ Bump("layout") /\ UNCHANGED obsm
TObs == /\ Ev.e = "Obs"
        /\ LET k == OKey(Ev) IN IF obsm[k] = None THEN obsm' = [obsm EXCEPT ![k] = Ev.val] ELSE obsm[k] = Ev.val /\ obsm' = obsm
        /\ Bump("obs") /\ UNCHANGED lay
\* same set of public API functions with C linkage in every variant: nothing missing from the union, no API function exported only with C++ linkage
TSym == /\ Ev.e = "Sym" /\ Ev.missing = <<>> /\ Ev.mangled_api = <<>> /\ Ev.count > 100
        /\ Bump("sym") /\ UNCHANGED <<lay, obsm>>
TLink == /\ Ev.e = "Link" /\ Ev.ok = 1 /\ Bump("link") /\ UNCHANGED <<lay, obsm>>
TNext == l <= Len(Tr) /\ l' = l + 1 /\ (TLayout \/ TObs \/ TSym \/ TLink)
TSpec == TInit /\ [][TNext]_<<l, lay, obsm, counts>>
Accepted == TLCGet("stats").diameter - 1 = Len(Tr)
Exercised == (l = Len(Tr) + 1) => counts.layout >= 40 /\ counts.obs >= 40 /\ counts.sym >= 2 /\ counts.link >= 2
=============================================================================
