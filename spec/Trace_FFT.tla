------------------------------ MODULE Trace_FFT ------------------------------
(* Programs of the FFTLagrange machine executed on a real back-end (harness/h_fft.cpp prog), validated step by step:   *)
(* every event is the machine's operation on the same registers, and every forward transform returns the register's   *)
(* exact content modulo 2^W (embedded), each coefficient within the register's error budget, nothing outside the      *)
(* embedded sub-ring.                                                                                                   *)
EXTENDS FFTLagrange, Word32, Json, IOUtils
TIPool == <<<<1,0,0,0>>, <<0,0,0,1>>, <<-1,1,-1,1>>, <<2,-2,1,0>>, <<0,-1,0,0>>, <<1,1,1,1>>>>
TTPool == <<<<1,0,0,0>>, <<255,128,127,0>>, <<17,200,3,99>>, <<0,0,0,255>>, <<128,128,128,128>>>>
VARIABLE l
Tr == ndJsonDeserialize(IOEnv.TRACE)
Ev == Tr[l]
Wd(p) == [h |-> p[1], l |-> p[2]]
Emb(v) == [h |-> (v % Q) * 2^(16 - W), l |-> 0]
TInit == l = 1 /\ Init
TStep == CASE Ev.e = "Reset"  -> lag' = [r \in LRegs |-> Blank]
           [] Ev.e = "IfftI"  -> IfftI(Ev.d, Ev.a)
           [] Ev.e = "IfftT"  -> IfftT(Ev.d, Ev.a)
           [] Ev.e = "Clear"  -> Clear(Ev.d)
           [] Ev.e = "SetC"   -> SetC(Ev.d, Ev.a)
           [] Ev.e = "AddC"   -> AddC(Ev.d, Ev.a)
           [] Ev.e = "AddTo"  -> AddTo(Ev.d, Ev.a)
           [] Ev.e = "Mul"    -> Mul(Ev.d, Ev.a, Ev.b)
           [] Ev.e = "AddMul" -> AddMul(Ev.d, Ev.a, Ev.b)
           [] Ev.e = "SubMul" -> SubMul(Ev.d, Ev.a, Ev.b)
           [] Ev.e = "Fft"    -> /\ CanFft(Ev.d) /\ UNCHANGED lag
                                 /\ LET r == lag[Ev.d]  want == FftOut(Ev.d) IN
                                      /\ \A i \in Idx : WAbsLeq(WSub(Wd(Ev.out[i]), Emb(want[i])), WOfInt(r.eb))
                                      /\ Ev.off <= r.eb
TNext == l <= Len(Tr) /\ l' = l + 1 /\ TStep
TSpec == TInit /\ [][TNext]_<<l, lag>>
Accepted == TLCGet("stats").diameter - 1 = Len(Tr)
=============================================================================
