------------------------------- MODULE Word32 -------------------------------
(***************************************************************************)
(* Exact arithmetic modulo 2^32 on words given as two 16-bit halves        *)
(* [h |-> 0..65535, l |-> 0..65535].  TLC integers are 32-bit signed and   *)
(* trap on overflow, so no operator here forms an intermediate >= 2^31.    *)
(***************************************************************************)
EXTENDS Integers, Sequences
H16 == 65536
WZero == [h |-> 0, l |-> 0]
WAdd(a, b) == LET lo == a.l + b.l IN [h |-> (a.h + b.h + lo \div H16) % H16, l |-> lo % H16]
WNeg(a)    == LET lo == (H16 - a.l) % H16
                  c  == IF a.l = 0 THEN 0 ELSE 1          \* borrow
              IN [h |-> (2 * H16 - a.h - c) % H16, l |-> lo]
WSub(a, b) == WAdd(a, WNeg(b))
\* (small signed integer v, |v| <= 2^15) * 2^s mod 2^32, 0 <= s <= 31
WShl(v, s) == IF s >= 16 THEN [h |-> (v * 2^(s - 16)) % H16, l |-> 0]
              ELSE LET u == v * 2^s IN [h |-> (u \div H16) % H16, l |-> u % H16]
\* word * small nonnegative integer m (m < 2^15) mod 2^32
WMulSmall(a, m) == LET lo == a.l * m IN [h |-> (a.h * m + lo \div H16) % H16, l |-> lo % H16]
\* full product of two words mod 2^32 via 8-bit limbs of b
WMul(a, b) == LET b0 == b.l % 256  b1 == b.l \div 256  b2 == b.h % 256  b3 == b.h \div 256
                  Sh8(w)  == [h |-> (w.h * 256 + w.l \div 256) % H16, l |-> (w.l * 256) % H16]
                  p0 == WMulSmall(a, b0)
                  p1 == Sh8(WMulSmall(a, b1))
                  p2 == Sh8(Sh8(WMulSmall(a, b2)))
                  p3 == Sh8(Sh8(Sh8(WMulSmall(a, b3))))
              IN WAdd(WAdd(p0, p1), WAdd(p2, p3))
\* signed 32-bit integer given as a word, times word
WLess(a, b) == a.h < b.h \/ (a.h = b.h /\ a.l < b.l)            \* unsigned compare
\* a < 2^t  (0 <= t <= 32)
WBelowPow2(a, t) == IF t >= 32 THEN TRUE ELSE IF t >= 16 THEN a.h < 2^(t - 16) ELSE a.h = 0 /\ a.l < 2^t
\* centred magnitude: |a| as signed 32-bit is <= bound given as word (bound < 2^31)
WAbsLeq(a, bnd) == IF a.h < 32768 THEN ~WLess(bnd, a) ELSE ~WLess(bnd, WNeg(a))
\* small signed integer -> word
WOfInt(v) == [h |-> (v \div H16) % H16, l |-> v % H16]
\* top bits: the integer a >> s for s >= 2 (result < 2^30)
WShr(a, s) == IF s >= 16 THEN a.h \div 2^(s - 16) ELSE a.h * 2^(16 - s) + a.l \div 2^s
RECURSIVE WSumR(_, _, _)
WSumR(seq, lo, hi) == IF lo > hi THEN WZero ELSE IF lo = hi THEN seq[lo]
                      ELSE LET mid == (lo + hi) \div 2 IN WAdd(WSumR(seq, lo, mid), WSumR(seq, mid + 1, hi))
WSum(seq) == WSumR(seq, 1, Len(seq))        \* balanced recursion: depth log2(Len)
=============================================================================
