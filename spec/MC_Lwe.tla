------------------------------- MODULE MC_Lwe -------------------------------
(* C14 / C03 / C08 on the specification, exhaustively on small instances. *)
EXTENDS LweScheme, TLC, FiniteSets
CONSTANTS NMax,        \* dimensions 1..NMax
          Mode,        \* "lin" | "dec" | "ks" | "foot"
          KT, KB,      \* key-switch layout for Mode = "ks" (W >= KT*KB+1)
          Variant,     \* "pinned" | "guarded"  (the 8-lane subtraction)
          Mutant       \* "none" | "ksfloor" | "varlin"
VARIABLES n, c1, c2, key
vars == <<n, c1, c2, key>>
T == 0..(Q - 1)
Samples(m) == [a : [1..m -> T], b : T, v : {1}]
Init == /\ n \in 1..NMax
        /\ IF Mode = "foot" THEN key = <<>> ELSE key \in [1..n -> {0, 1}]
        /\ CASE Mode = "lin"  -> c1 \in Samples(n) /\ c2 \in Samples(n)
             [] Mode = "dec"  -> c1 \in Samples(n) /\ c2 = 0
             [] Mode = "ks"   -> c1 \in [a : [1..n -> T], b : {1}, v : {1}] /\ c2 = 0
             [] Mode = "foot" -> c1 = 0 /\ c2 = 0
Next == UNCHANGED vars
Spec == Init /\ [][Next]_vars

(* ---- C14: phase is a homomorphism; variance annotation ---- *)
Ps == {-2, -1, 0, 1, 2, 3}
VarOf(p) == IF Mutant = "varlin" THEN c1.v + (IF p < 0 THEN 0 - p ELSE p) * c2.v ELSE AddMulTo(c1, p, c2).v
PhaseLinear == Mode = "lin" =>
    /\ Phase(AddTo(c1, c2), key) = (Phase(c1, key) + Phase(c2, key)) % Q
    /\ Phase(SubTo(c1, c2), key) = (Phase(c1, key) - Phase(c2, key)) % Q
    /\ Phase(Negate(c1), key) = (0 - Phase(c1, key)) % Q
    /\ Phase(Copy(c1), key) = Phase(c1, key)
    /\ Phase(Clear(n), key) = 0
    /\ Phase(Trivial(n, c1.b), key) = c1.b
    /\ \A p \in Ps : /\ Phase(AddMulTo(c1, p, c2), key) = (Phase(c1, key) + p * Phase(c2, key)) % Q
                     /\ Phase(SubMulTo(c1, p, c2), key) = (Phase(c1, key) - p * Phase(c2, key)) % Q
                     /\ VarOf(p) = c1.v + p * p * c2.v
                     /\ SubMulTo(c1, p, c2).v = c1.v + p * p * c2.v
(* ---- C03: decryption returns the nearest message; inverts encryption when M*|e| < 1/2 ---- *)
Ms == {M \in 2..6 : M * M <= Q}       \* the double-width rounding is exact only while M^2 <= torus size (M <= 2^15 at 32 bits)
DecryptNearest == Mode = "dec" => \A M \in Ms :
    /\ IsNearest(ModSwitchFromCode(Phase(c1, key), M), Phase(c1, key), M)
    /\ Decrypt(c1, key, M) = ModSwitchToCode(ModSwitchFromCode(Phase(c1, key), M), M)
    \* c1 read as an encryption: mask c1.a, and b reinterpreted as (message index, error)
    /\ \A m \in 0..(M - 1) : \A e \in {x \in -(Q \div 4)..(Q \div 4) : 2 * M * (IF x < 0 THEN 0 - x ELSE x) < Q - 2 * M} :
          Decrypt(Encrypt(ModSwitchToCode(m, M), c1.a, e, key), key, M) = ModSwitchToCode(m, M)
    /\ \A mu \in T : Decrypt(Trivial(n, mu), key, M) = ApproxPhaseCode(mu, M)         \* trivial samples: any key
(* ---- C08: key switch on a noiseless key: digits recompose to the nearest multiple; phase relation exact ---- *)
MaskOf == [ijh \in (1..NMax) \X (1..KT) \X (0..(2^KB - 1)) |-> [p \in 1..2 |-> (7 * ijh[1] + 3 * ijh[2] + 5 * ijh[3] + p) % Q]]                       \* arbitrary fixed masks, n_out = 2
KeyOut == <<1, 0>>
Digit(ai, j) == IF Mutant = "ksfloor" THEN (ai \div 2^(W - j * KB)) % (2^KB) ELSE KSDigit(ai, j, KT, KB)
KSRoundsNearest == Mode = "ks" => \A i \in 1..n :
    LET r == IF Mutant = "ksfloor" THEN (c1.a[i] \div 2^(W - KT * KB)) * 2^(W - KT * KB) ELSE Recompose(c1.a[i], KT, KB, KT) % Q
    IN IsRoundTo(r, c1.a[i], KT * KB)
KSPhase == Mode = "ks" =>
    LET out == KeySwitchCode(c1, key, KeyOut, KT, KB, MaskOf)
    IN  /\ Phase(out, KeyOut) = (c1.b - RoundedSum(c1.a, key, KT, KB, n)) % Q
        /\ LET d == Centred(Phase(out, KeyOut) - Phase(c1, key))
               w == Cardinality({i \in 1..n : key[i] = 1})
           IN  d <= w * PrecOffset(KT, KB) /\ d >= 0 - w * PrecOffset(KT, KB)
(* ---- C14/C16: the vectorised subtraction stays inside its arrays ---- *)
SubToInBounds == Mode = "foot" => SubToFootprint(n, Variant) = 0..(n - 1)
=============================================================================
