----------------------------- MODULE FFTLagrange -----------------------------
(***************************************************************************)
(* The Lagrange-domain API (lagrangehalfc_arithmetic.h) as a register      *)
(* machine.  The abstract content of a Lagrange register is the exact      *)
(* integer polynomial it stands for (no reduction), its kind (image of an  *)
(* integer polynomial, of a torus polynomial, or zero), and an error       *)
(* budget: the number of units of 2^-32 by which a forward transform of    *)
(* the register may deviate from the content (the tolerance the property   *)
(* states: 1 for a round trip, 2 per product).                             *)
(* Polynomials have NP coefficients; torus values have W bits; the real    *)
(* code is driven through X |-> X^(1024/NP), x |-> x * 2^(32-W).           *)
(***************************************************************************)
EXTENDS Integers, Sequences, TLC
CONSTANTS NP, W, LRegs,
          IPool,       \* sequence of integer polynomials (sequences of length NP)
          TPool        \* sequence of torus polynomials (values in 0..2^W-1)
VARIABLE lag            \* lag[r] = [kind, c (sequence of NP integers), eb]
Q == 2^W
Idx == 1..NP
ZeroP == [i \in Idx |-> 0]
Blank == [kind |-> "zero", c |-> ZeroP, eb |-> 0]
\* exact negacyclic product of integer sequences (1-based)
RECURSIVE NSum(_, _, _, _)
NSum(a, b, i, j) == IF j = 0 THEN 0 ELSE (IF j <= i THEN a[j] * b[i - j + 1] ELSE 0 - a[j] * b[NP + i - j + 1]) + NSum(a, b, i, j - 1)
NMul(a, b) == TLCEval([i \in Idx |-> NSum(a, b, i, NP)])
PAdd(a, b) == TLCEval([i \in Idx |-> a[i] + b[i]])
PSub(a, b) == TLCEval([i \in Idx |-> a[i] - b[i]])
ConstP(v) == [i \in Idx |-> IF i = 1 THEN v ELSE 0]
Set(r, v) == lag' = [lag EXCEPT ![r] = v]
(* ---- the operations ------------------------------------------------------ *)
IfftI(r, k)  == Set(r, [kind |-> "int", c |-> IPool[k], eb |-> 0])                                   \* IntPolynomial_ifft
IfftT(r, k)  == Set(r, [kind |-> "torus", c |-> TPool[k], eb |-> 1])                                 \* TorusPolynomial_ifft
Clear(r)     == Set(r, Blank)                                                                       \* LagrangeHalfCPolynomialClear
SetC(r, v)   == Set(r, [kind |-> "torus", c |-> ConstP(v), eb |-> 1])                                \* ...SetTorusConstant
AddC(r, v)   == lag[r].kind # "int" /\ Set(r, [kind |-> "torus", c |-> PAdd(lag[r].c, ConstP(v)), eb |-> lag[r].eb + 1])   \* ...AddTorusConstant
AddTo(d, s)  == /\ lag[d].kind # "int" /\ lag[s].kind # "int"                                         \* ...AddTo
                /\ Set(d, [kind |-> "torus", c |-> PAdd(lag[d].c, lag[s].c), eb |-> lag[d].eb + lag[s].eb])
IsIT(a, b)   == lag[a].kind = "int" /\ lag[b].kind = "torus"
Mul(d, a, b) == IsIT(a, b) /\ Set(d, [kind |-> "torus", c |-> NMul(lag[a].c, lag[b].c), eb |-> 2])    \* ...Mul
AddMul(d, a, b) == /\ IsIT(a, b) /\ lag[d].kind # "int"                                               \* ...AddMul
                   /\ Set(d, [kind |-> "torus", c |-> PAdd(lag[d].c, NMul(lag[a].c, lag[b].c)), eb |-> lag[d].eb + 2])
SubMul(d, a, b) == /\ IsIT(a, b) /\ lag[d].kind # "int"                                               \* ...SubMul
                   /\ Set(d, [kind |-> "torus", c |-> PSub(lag[d].c, NMul(lag[a].c, lag[b].c)), eb |-> lag[d].eb + 2])
\* TorusPolynomial_fft(r): the torus polynomial read back is the content modulo Q
FftOut(r)    == [i \in Idx |-> lag[r].c[i] % Q]
CanFft(r)    == lag[r].kind # "int"
\* magnitude precondition of the tolerance clause: the exact values stay far below the 53-bit mantissa (B <= 2^9 regime)
MaxAbs(p)    == LET A(x) == IF x < 0 THEN 0 - x ELSE x IN CHOOSE m \in {A(p[i]) : i \in Idx} : \A i \in Idx : A(p[i]) <= m
Init == lag = [r \in LRegs |-> Blank]
=============================================================================
