SPECIFICATION Spec
CONSTANTS W = 5
 NP = 16
 KK = 1
 LL = 1
 BGB = 5
 NN = 2
 T = 5
 BB = 1
 AVals = {0, 13}
INVARIANT TruthTable
INVARIANT RefinesMachineP
CHECK_DEADLOCK FALSE
