SPECIFICATION TSpec
INVARIANT MemoExercised
POSTCONDITION Accepted
CHECK_DEADLOCK FALSE
