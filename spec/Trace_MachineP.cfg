SPECIFICATION TSpec
CONSTANTS Regs = {0,1,2,3,4,5,6,7}
 U = 16777216
 ECap = 786431
 DCap = 524303
 NotSlack = 2
 Mutant = "none"
INVARIANT Correct
INVARIANT Admissible
INVARIANT StatsAccepted
POSTCONDITION Accepted
CHECK_DEADLOCK FALSE
