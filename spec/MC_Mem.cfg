SPECIFICATION MSpec
CONSTANTS Sharing = "copy"
 Variant = "repaired"
INVARIANT NoUseAfterFree
INVARIANT FullyReleased
CHECK_DEADLOCK FALSE
