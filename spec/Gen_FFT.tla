------------------------------- MODULE Gen_FFT -------------------------------
(* Random programs over the FFTLagrange machine, written out for the replay harness (tlc -simulate). *)
EXTENDS FFTLagrange, Json, IOUtils
CONSTANT GenDepth
GIPool == <<<<1,0,0,0>>, <<0,0,0,1>>, <<-1,1,-1,1>>, <<2,-2,1,0>>, <<0,-1,0,0>>, <<1,1,1,1>>>>
GTPool == <<<<1,0,0,0>>, <<255,128,127,0>>, <<17,200,3,99>>, <<0,0,0,255>>, <<128,128,128,128>>>>
VARIABLE hist
Op(o) == hist' = Append(hist, o)
R3(op, d, a, b) == [op |-> op, d |-> d, a |-> a, b |-> b]
GNext == \/ \E r \in LRegs, k \in 1..Len(IPool) : IfftI(r, k) /\ Op(R3("IfftI", r, k, 0))
         \/ \E r \in LRegs, k \in 1..Len(TPool) : IfftT(r, k) /\ Op(R3("IfftT", r, k, 0))
         \/ \E r \in LRegs : Clear(r) /\ Op(R3("Clear", r, 0, 0))
         \/ \E r \in LRegs, v \in {1, Q \div 2, Q - 1} : (SetC(r, v) /\ Op(R3("SetC", r, v, 0))) \/ (AddC(r, v) /\ Op(R3("AddC", r, v, 0)))
         \/ \E d \in LRegs, s \in LRegs : AddTo(d, s) /\ Op(R3("AddTo", d, s, 0))
         \/ \E d \in LRegs, a \in LRegs, b \in LRegs :
               \* the destination may be one of the operands (the products are coefficient-wise in the Lagrange domain: every back-end as pinned computes
               \* them from the old contents); a = b cannot happen (one is an integer image, the other a torus image)
               \/ (Mul(d, a, b) /\ Op(R3("Mul", d, a, b)))
               \/ (AddMul(d, a, b) /\ Op(R3("AddMul", d, a, b)))
               \/ (SubMul(d, a, b) /\ Op(R3("SubMul", d, a, b)))
         \/ \E r \in LRegs : CanFft(r) /\ lag[r].kind = "torus" /\ UNCHANGED lag /\ Op(R3("Fft", r, 0, 0))
GInit == Init /\ hist = <<>>
GSpec == GInit /\ [][GNext]_<<lag, hist>>
Dump == Len(hist) = GenDepth => ndJsonSerialize(IOEnv.GEN_OUT \o ToString(TLCGet("stats").traces) \o ".ndjson", hist)
Bound == Len(hist) <= GenDepth
\* the tolerance clause is only claimed while exact values are small against the mantissa
Small == \A r \in LRegs : MaxAbs(lag[r].c) < 2^20
=============================================================================
