----------------------------- MODULE TraceStats -----------------------------
(***************************************************************************)
(* Running statistics of an error stream as specification state, and the   *)
(* acceptance regions used by the noise clauses (C02, C07, C08, C09).      *)
(* Errors are accumulated in units of 2^-14 of the torus so that the sum   *)
(* of squares of 10^5 samples of sd 0.005 stays below 2^31 (TLC traps on   *)
(* overflow, which would fail the check, never wrap silently).             *)
(* Every region is >= 8 estimator standard deviations wide.                *)
(***************************************************************************)
EXTENDS Integers
St0 == [n |-> 0, s1 |-> 0, s2 |-> 0, mx |-> 0]
Abs(x) == IF x < 0 THEN 0 - x ELSE x
Upd(st, e) == [n |-> st.n + 1, s1 |-> st.s1 + e, s2 |-> st.s2 + e * e, mx |-> IF Abs(e) > st.mx THEN Abs(e) ELSE st.mx]
ISqrt(x) == CHOOSE r \in 0..2000 : r * r <= x /\ (r + 1) * (r + 1) > x          \* x <= 4*10^6
Mean(st) == st.s1 \div st.n
Var(st)  == (st.s2 \div st.n) - Mean(st) * Mean(st)
\* sd <= bound * (1 + 8/sqrt(2n))   <=>   var * 2n <= bound^2 * (sqrt(2n) + 8)^2      (B2 = bound^2 in units of 2^-28)
SdAtMost(st, B2) == st.n = 0 \/ LET r == ISqrt(2 * st.n) + 1 IN Var(st) * ((2 * st.n) \div 16) <= ((B2 \div 16) + 1) * (r + 8) * (r + 8)
\* |mean| <= bound/4 + 8*bound/sqrt(n)     (B = bound, rounded up)
MeanSmall(st, B) == st.n = 0 \/ Abs(st.s1) <= ((st.n * B) \div 4) + 8 * B * (ISqrt(st.n) + 1) + st.n
\* sd >= bound * (1 - 8/sqrt(2n))  (noise must not be smaller than configured: security)
SdAtLeast(st, B2) == st.n < 200 \/ LET r == ISqrt(2 * st.n) IN (Var(st) + 2) * (((2 * st.n) \div 16) + 1) >= (B2 \div 16) * (r - 8) * (r - 8)
\* two streams have the same variance within 8 estimator sigma: |va - vb| <= 8 * v * sqrt(2/na + 2/nb)
SameVar(a, b) == a.n < 100 \/ b.n < 100 \/
    LET va == Var(a)  vb == Var(b)  v == IF va > vb THEN va ELSE vb
        m == IF a.n < b.n THEN a.n ELSE b.n                     \* sqrt(2/na + 2/nb) <= 2/sqrt(m)
    IN Abs(va - vb) * ISqrt(m) <= 16 * v + 16 * ISqrt(m)
MaxBelow(st, cap) == st.mx < cap
=============================================================================
