---------------------------- MODULE Gen_MachineP ----------------------------
(* Behaviours of MachineP written out as programs for the real library (replay, spec -> code).                    *)
(* Run with  -simulate num=K -depth D ;  every behaviour that reaches length GenDepth is serialised by the      *)
(* constraint below into  $GEN_OUT<k>.ndjson  (one op per line).                                                 *)
EXTENDS MachineP, Sequences, Json, IOUtils
CONSTANT GenDepth
VARIABLE hist
gvars == <<reg, plain, hist>>
GInit == Init /\ hist = <<>>
Op(o) == hist' = Append(hist, o)
GNext == \/ \E g \in Bin, d \in Regs, a \in Regs, b \in Regs, o \in Outs :
              GateBinTo(g, d, a, b, o) /\ Op([op |-> "gate", g |-> g, d |-> d, a |-> a, b |-> b, c |-> 0])
         \/ \E d \in Regs, a \in Regs, b \in Regs, c \in Regs, o \in Outs :
              GateMuxTo(d, a, b, c, o) /\ Op([op |-> "gate", g |-> "MUX", d |-> d, a |-> a, b |-> b, c |-> c])
         \/ \E d \in Regs, a \in Regs :
              \/ GateNotTo(d, a, Rec(1 - reg[a].bit, -reg[a].err)) /\ Op([op |-> "gate", g |-> "NOT", d |-> d, a |-> a, b |-> 0, c |-> 0])
              \/ GateCopyTo(d, a, reg[a]) /\ Op([op |-> "gate", g |-> "COPY", d |-> d, a |-> a, b |-> 0, c |-> 0])
         \/ \E d \in Regs, v \in {0, 1} : GateConstTo(d, v, Rec(v, 0)) /\ Op([op |-> "const", d |-> d, v |-> v])
         \/ \E d \in Regs, o \in Outs : LoadTo(d, o.bit, o) /\ Op([op |-> "load", d |-> d, bit |-> o.bit, inj |-> o.err \div ECap])
GSpec == GInit /\ [][GNext]_gvars
InitLoads == [r \in Regs |-> [op |-> "load", d |-> r, bit |-> reg[r].bit, inj |-> 0]]
Dump == Len(hist) = GenDepth =>
          ndJsonSerialize(IOEnv.GEN_OUT \o ToString(TLCGet("stats").traces) \o ".ndjson", hist)
Bound == Len(hist) <= GenDepth
=============================================================================
