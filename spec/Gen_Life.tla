------------------------------ MODULE Gen_Life ------------------------------
(* Behaviours of Life written out as API programs for harness/h_life.cpp (spec -> code).  Run with -simulate: each class of   *)
(* action contributes at most one successor per step (arguments drawn with RandomElement), so that exports, imports and      *)
(* deletions are as likely as gates; every behaviour that reaches Terminal is serialised to $GEN_OUT<k>.ndjson.               *)
EXTENDS Life, Json, IOUtils, Randomization
VARIABLE hist
gvars == <<obj, val, blob, bval, fin, steps, last, hist>>
GInit == LInit /\ hist = <<>>
R(S) == RandomElement(S)
LK == {k \in Keys : Live(k)}
LA == {a \in Arr : Live(a)}
Def == {x \in Arr \X Slots : Live(x[1]) /\ val[x[1]][x[2]] # Undef}
Pick == LET k == R(Keys) a == R(Arr) i == R(Slots) b == R({0, 1}) IN
        \/ NewParams \/ KeyGen \/ KeyGen \/ ImportCloud \/ ImportSecret \/ Finalize
        \/ NewCt(a, R({"params", "ck", "sk2"})) \/ NewCt("ct", "params")
        \/ Encrypt(k, a, i, b) \/ Encrypt("sk", "ct", i, b) \/ Constant(k, a, i, b)
        \/ (LK # {} /\ LA # {} /\ Def # {} /\
              LET lk == R(LK) la == R(LA) x == R(Def) y == R(Def) z == R(Def) IN
                \/ Gate(lk, R(Gates2), la, i, x[1], x[2], y[1], y[2])
                \/ Gate(R(LK), R(Gates2), x[1], x[2], x[1], x[2], y[1], y[2])        \* in place
                \/ Gate(R(LK), R(Gates2), R(LA), R(Slots), z[1], z[2], x[1], x[2])
                \/ Mux(lk, la, R(Slots), x[1], x[2], y[1], y[2], z[1], z[2])
                \/ Decrypt(R(SKeys), x[1], x[2]) \/ Decrypt(R(SKeys), y[1], y[2])
                \/ Encrypt(R(SKeys), la, R(Slots), b))
        \/ ExportCloud(k) \/ ExportSecret(k) \/ ExportCts(a) \/ ImportCts(a)
        \/ (steps > 8 /\ Delete(R(Objs)))
WindDown == (\E o \in Objs : Delete(o)) \/ Finalize
\* the executor: one step in four runs on a helper thread that is created for it and exits right after (Life has no thread in its state:
\* no object of the API is bound to the thread that created it - which is what Trace_Life then checks on the observations)
Exec(s) == IF R(1..4) = 1 THEN "helper" ELSE "run"      \* (an argument, so that TLC does not evaluate it once and for all)
\* the transport of an export or import: the std::iostream functions or the FILE* functions (the blob is the same bytes either way - Trace_Life compares them)
Transport(s) == IF R(1..3) = 1 THEN "file" ELSE "stream"
GNext == (IF Busy THEN Pick ELSE WindDown) /\ hist' = Append(hist, last' @@ [th |-> Exec(steps), tr |-> Transport(steps)])
GSpec == GInit /\ [][GNext]_gvars
Dump == Terminal => ndJsonSerialize(IOEnv.GEN_OUT \o ToString(TLCGet("stats").traces) \o ".ndjson", hist)
=============================================================================
