------------------------------ MODULE TorusW ------------------------------
(***************************************************************************)
(* The discretised torus Z/2^W and the three rounding routines of          *)
(* src/libtfhe/numeric-functions.cpp, written twice:                       *)
(*   - "Code": as the library computes them (interval arithmetic on a      *)
(*     double-width word; the library uses 64 bits for W = 32),            *)
(*   - "as stated": the mathematical predicate the property names.         *)
(* x |-> x * 2^(32-W) embeds this torus in the library's Torus32; for M a  *)
(* power of two the Code operators commute with the embedding exactly.     *)
(***************************************************************************)
EXTENDS Integers
CONSTANT W
Q  == 2^W            \* torus size
QQ == Q * Q          \* the double-width word ("uint64_t" when W = 32)

TAdd(x, y) == (x + y) % Q
TSub(x, y) == (x - y) % Q
TNeg(x)    == (0 - x) % Q
TMulZ(p, x) == (p * x) % Q                  \* small p only (TLC ints are 32 bit)
Centred(x) == IF x % Q >= Q \div 2 THEN (x % Q) - Q ELSE x % Q     \* representative in [-Q/2, Q/2)

(* ---- as implemented ---------------------------------------------------- *)
Interv(M)  == ((QQ \div 2) \div M) * 2       \* ((1<<63)/Msize)*2
ModSwitchFromCode(x, M) ==
    LET phase64 == ((x * Q) + Interv(M) \div 2) % QQ       \* (uint64(phase)<<32) + half_interval, wraps
    IN  phase64 \div Interv(M)
ApproxPhaseCode(x, M) ==
    LET phase64 == ((x * Q) + Interv(M) \div 2) % QQ
    IN  ((phase64 - (phase64 % Interv(M))) \div Q) % Q
ModSwitchToCode(mu, M) == (((mu * Interv(M)) % QQ) \div Q) % Q

(* ---- as stated --------------------------------------------------------- *)
\* r is an integer of [0,M) nearest to M*x/Q (ties either way), on the circle Z/M
IsNearest(r, x, M) ==
    /\ r \in 0..(M - 1)
    /\ LET d == (M * x - r * Q) % (M * Q)               \* distance on the circle of length M*Q
       IN  2 * d <= Q \/ 2 * (M * Q - d) <= Q
\* t is the torus encoding of mu/M (the representative at or just below it)
IsEncoding(t, mu, M) == LET d == (mu * Q - t * M) % (M * Q) IN d < 2 * M
=============================================================================
