SPECIFICATION GSpec
CONSTANTS Types = {"LweParams", "LweKey", "LweSample", "LweKeySwitchKey", "LweBootstrappingKey", "LweBootstrappingKeyFFT", "TLweParams", "TLweKey", "TLweSample", "TLweSampleFFT", "TGswParams", "TGswKey", "TGswSample", "TGswSampleFFT", "IntPolynomial", "TorusPolynomial", "LagrangeHalfCPolynomial"}
 Slots = {1, 2, 3}
 Counts = {0, 1, 3}
 MaxCalls = 40
CONSTRAINT Dump
INVARIANT TypeOK
CHECK_DEADLOCK FALSE
