---------------------------- MODULE Gen_TGswAlg ----------------------------
(* Behaviours of TGswAlg written out as programs for harness/h_tgsw.cpp (spec -> code; tlc -simulate): every record names the operation with its *)
(* concrete arguments (message polynomials, the rows of a loaded encryption) - the harness computes nothing of the specification itself.       *)
EXTENDS TGswAlg, Json, IOUtils, Randomization
VARIABLE hist
RowsOut(gg) == [r \in Rows |-> [c1 \in 1..(KK + 1) |-> SeqOf(gg[r][c1 - 1])]]
KeyOut == [c1 \in 1..KK |-> SeqOf(SKey[c1 - 1])]
Rec == IF lastop'.op = "Load" THEN lastop' @@ [rows |-> RowsOut(g')] ELSE lastop'
GInit == AInit /\ hist = <<[op |-> "Key", key |-> KeyOut, W |-> W, NP |-> NP, KK |-> KK, LL |-> LL, BGB |-> BGB]>>
R(S) == RandomElement(S)
\* one successor per class of operation, arguments drawn at random, so that the resetting operations (Clear, Trivial, Load) do not crowd out the others
Pick == \/ Clear \/ AddH \/ AddH \/ FFTRound \/ FFTAddH \/ FFTOnlyH
        \/ AddMuH(MuP(R(1..Len(MuPool)))) \/ AddMuH(MuP(R(1..Len(MuPool)))) \/ AddMuIntH(R({-1, 2, 3})) \/ AddMuIntH(R({-1, 2, 3}))
        \/ Trivial(MuP(R(1..Len(MuPool)))) \/ Load(R(1..Len(MuPool)), R(Tags)) \/ Load(R(1..Len(MuPool)), R(Tags))
        \/ MulXaiM1(R(Exps)) \/ MulXaiM1(R(Exps)) \/ MulXaiM1(R(Exps))
        \/ Decrypt(R(Msizes)) \/ Decrypt(R(Msizes))
        \/ EncPoly(MuP(R(1..Len(MuPool))), R({20, 25, 30})) \/ EncInt(R({-1, 1, 2, 3}), R({20, 25, 30}))
GNext == Pick /\ hist' = Append(hist, Rec)
GSpec == GInit /\ [][GNext]_<<avars, hist>>
Dump == nops = MaxOps => ndJsonSerialize(IOEnv.GEN_OUT \o ToString(TLCGet("stats").traces) \o ".ndjson", hist)
=============================================================================
