------------------------------ MODULE MC_Life ------------------------------
(* Exhaustive check of the lifecycle machine for a small budget; the action just taken is hidden from the state identity. *)
EXTENDS Life
View == <<obj, val, blob, bval, fin, steps>>
=============================================================================
