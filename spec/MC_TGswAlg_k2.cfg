SPECIFICATION ASpec
CONSTANTS W = 8
 NP = 4
 KK = 2
 LL = 2
 BGB = 3
 NN = 1
 T = 2
 BB = 2
 MuPool <- MCMuPool
 Exps = {1, 4, 7}
 Msizes = {2, 8}
 Tags = {1, 2}
 MaxOps = 2
 AlgMutant = "none"
VIEW View
INVARIANT WellFormed
INVARIANT DecryptReadsMessage
CHECK_DEADLOCK FALSE
