----------------------------- MODULE SharedInit -----------------------------
(***************************************************************************)
(* First use of the process-lifetime FFT processor (fix 0f4e6fe): every    *)
(* Lagrange polynomial constructor evaluates                               *)
(*     static X *const shared_tables = new X(1024);  proc = shared_tables; *)
(* and any number of threads may create their first polynomial at the same *)
(* moment.  The function-local static is initialised under the compiler's  *)
(* guard ("once"); the constructor it runs is several steps (allocations,  *)
(* table fill and, for FFTW, two planner calls under the planner mutex,    *)
(* which threads constructing their own thread_local processor take too).  *)
(* Two ways of getting it wrong are kept as designs to be rejected:        *)
(* "none"  - unguarded check-then-construct (if (!p) p = new X),           *)
(* "early" - the pointer becomes visible before construction has finished. *)
(***************************************************************************)
EXTENDS Integers, FiniteSets
CONSTANTS Thr, Guard, UsesPlanner
VARIABLES pc,      \* pc[t]
          flag,    \* "uninit" | "done"            (the guard variable of the static)
          holder,  \* thread inside the guarded region, or "none"
          mutex,   \* holder of the FFTW planner mutex, or "none"
          ptr,     \* what shared_tables holds: "null" | "partial" | "ready"
          built,   \* number of processors constructed for shared_tables
          own,     \* own[t]: the thread has constructed its own thread_local processor (transforms need it; polynomials do not)
          got      \* got[t]: what the precomp field of the thread's polynomial points to
vars == <<pc, flag, holder, mutex, ptr, built, own, got>>
Init == /\ pc = [t \in Thr |-> "start"] /\ flag = "uninit" /\ holder = "none" /\ mutex = "none" /\ ptr = "null" /\ built = 0
        /\ own = [t \in Thr |-> FALSE] /\ got = [t \in Thr |-> "none"]
Goto(t, s) == pc' = [pc EXCEPT ![t] = s]
\* a thread may first run a transform of its own: thread_local processor, constructed under the planner mutex where there is a planner
OwnLock(t)  == pc[t] = "start" /\ ~own[t] /\ (UsesPlanner => mutex = "none") /\ mutex' = (IF UsesPlanner THEN t ELSE mutex) /\ Goto(t, "ownbuild")
               /\ UNCHANGED <<flag, holder, ptr, built, own, got>>
OwnBuilt(t) == pc[t] = "ownbuild" /\ own' = [own EXCEPT ![t] = TRUE] /\ mutex' = (IF mutex = t THEN "none" ELSE mutex) /\ Goto(t, "start")
               /\ UNCHANGED <<flag, holder, ptr, built, got>>
\* new_LagrangeHalfCPolynomial: the fast path reads the guard variable (or, in the early design, the pointer)
Check(t) == /\ pc[t] = "start"
            /\ IF (Guard = "early" /\ ptr # "null") \/ (Guard # "early" /\ flag = "done") THEN Goto(t, "use") ELSE Goto(t, "enter")
            /\ UNCHANGED <<flag, holder, mutex, ptr, built, own, got>>
Enter(t) == /\ pc[t] = "enter"
            /\ IF Guard = "none" THEN Goto(t, "alloc") /\ UNCHANGED holder
               ELSE holder = "none" /\ holder' = t /\ Goto(t, "recheck")
            /\ UNCHANGED <<flag, mutex, ptr, built, own, got>>
Recheck(t) == /\ pc[t] = "recheck" /\ IF flag = "done" THEN Goto(t, "leave") ELSE Goto(t, "alloc")
              /\ UNCHANGED <<flag, holder, mutex, ptr, built, own, got>>
\* X::X(1024): allocate, (planner calls under the planner mutex), fill tables
Alloc(t) == /\ pc[t] = "alloc" /\ built' = built + 1 /\ ptr' = (IF Guard = "early" THEN "partial" ELSE ptr)
            /\ Goto(t, IF UsesPlanner THEN "planlock" ELSE "fill") /\ UNCHANGED <<flag, holder, mutex, own, got>>
PlanLock(t) == pc[t] = "planlock" /\ mutex = "none" /\ mutex' = t /\ Goto(t, "planned") /\ UNCHANGED <<flag, holder, ptr, built, own, got>>
Planned(t)  == pc[t] = "planned" /\ mutex' = "none" /\ Goto(t, "fill") /\ UNCHANGED <<flag, holder, ptr, built, own, got>>
Fill(t)  == /\ pc[t] = "fill" /\ ptr' = "ready" /\ flag' = "done" /\ Goto(t, IF Guard = "none" THEN "use" ELSE "leave")
            /\ UNCHANGED <<holder, mutex, built, own, got>>
Leave(t) == pc[t] = "leave" /\ holder' = "none" /\ Goto(t, "use") /\ UNCHANGED <<flag, mutex, ptr, built, own, got>>
Use(t)   == pc[t] = "use" /\ got' = [got EXCEPT ![t] = ptr] /\ Goto(t, "done") /\ UNCHANGED <<flag, holder, mutex, ptr, built, own>>
Next == \E t \in Thr : OwnLock(t) \/ OwnBuilt(t) \/ Check(t) \/ Enter(t) \/ Recheck(t) \/ Alloc(t) \/ PlanLock(t) \/ Planned(t) \/ Fill(t) \/ Leave(t) \/ Use(t)
Spec == Init /\ [][Next]_vars /\ \A t \in Thr : WF_vars(Check(t) \/ Enter(t) \/ Recheck(t) \/ Alloc(t) \/ PlanLock(t) \/ Planned(t) \/ Fill(t) \/ Leave(t) \/ Use(t) \/ OwnBuilt(t))
TypeOK == /\ flag \in {"uninit", "done"} /\ holder \in Thr \cup {"none"} /\ mutex \in Thr \cup {"none"} /\ ptr \in {"null", "partial", "ready"} /\ built \in 0..Cardinality(Thr)
\* exactly one process-lifetime processor is ever built (a second one would be a leak and two sets of tables)
OneShared == built <= 1
\* no polynomial points at a processor that is not there yet or not finished
NoHalfBuilt == \A t \in Thr : got[t] \in {"none", "ready"}
\* lock order: the guard is taken before the planner mutex and never the other way round, so nobody waits forever
AllDone == <>(\A t \in Thr : pc[t] = "done")
=============================================================================
