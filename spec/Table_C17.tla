----------------------------- MODULE Table_C17 -----------------------------
(* Reports printed by harness/h_io.cpp --cloud validated against Serial (C17). *)
EXTENDS Serial, Table
VARIABLE i
Init == i \in 1..NRows
Next == UNCHANGED i
Spec == Init /\ [][Next]_i
R == Rows[i]
Sz(v) == v[1] * 1048576 + v[2]
RowCloud == LET p == R.p IN
    /\ Sz(R.bin) = CloudBinarySize(p)                                        \* exactly the size determined by the parameters (binary part)
    /\ Sz(R.cloud) = Sz(R.bin) + R.text
    /\ R.text > 0                                                           \* the export starts with the export of the parameter set (its text part)
    /\ R.conc_bad = 0                                                       \* exported at the same time as the secret key set on another thread: same bytes
    /\ R.prefix = 1 /\ Sz(R.secret) > Sz(R.cloud)                            \* strict prefix of the secret key set export
    /\ R.tail = (4 + 4 * p.n) + (4 + 4 * p.kk * p.N)                         \* the secret export adds exactly the two secret key sections
    /\ R.occ_lwe = 0 /\ R.occ_lwe8 = 0 /\ R.occ_lwep = 0 /\ R.occ_ring = 0   \* no secret key material in any encoding
    /\ R.unmasked = 0                                                       \* every row carrying key material is masked (an unmasked row is the key in clear)
    /\ R.occ_ctl >= 1                                                        \* (the search does find the key inside the secret export)
    /\ R.imp_pos_ok = 1 /\ R.imp_has_bk = 1                                  \* importing needs nothing beyond the cloud bytes
RowOK == CASE R.e = "Cloud" -> RowCloud [] OTHER -> FALSE
=============================================================================
