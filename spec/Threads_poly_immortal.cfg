SPECIFICATION Spec
CONSTANTS Thr = {t1,t2,t3}
 Calls = 2
 ProcScope = "thread"
 DtorLocked = FALSE
 UsesPlanner = FALSE
 PolyProc = "immortal"
 PolyShare = TRUE
 TableScope = "proc"
 TempScope = "call"
 DtorFrees = "all"
INVARIANT Deterministic
INVARIANT TablesAlive
INVARIANT PolyProcAlive
INVARIANT ScratchPrivate
INVARIANT PlannerExclusive
PROPERTY AllDone
CHECK_DEADLOCK FALSE
