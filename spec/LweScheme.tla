----------------------------- MODULE LweScheme -----------------------------
(***************************************************************************)
(* LWE samples over the W-bit torus: src/libtfhe/lwe-functions.cpp and     *)
(* lwe-keyswitch-functions.cpp.  A sample is [a |-> Seq(torus), b |->      *)
(* torus, v |-> variance annotation]; a key is a sequence of bits.         *)
(***************************************************************************)
EXTENDS TorusW, Sequences
RECURSIVE DotR(_, _, _)
DotR(a, key, i) == IF i = 0 THEN 0 ELSE a[i] * key[i] + DotR(a, key, i - 1)
Dot(a, key)   == DotR(a, key, Len(a)) % Q
Phase(c, key) == (c.b - Dot(c.a, key)) % Q                                   \* lwePhase
ZeroVec(n)    == [i \in 1..n |-> 0]

(* ---- linear operations, as implemented (coefficient loops) -------------- *)
Clear(n)          == [a |-> ZeroVec(n), b |-> 0, v |-> 0]
Trivial(n, mu)    == [a |-> ZeroVec(n), b |-> mu % Q, v |-> 0]
Copy(c)           == c
Negate(c)         == [a |-> [i \in 1..Len(c.a) |-> (0 - c.a[i]) % Q], b |-> (0 - c.b) % Q, v |-> c.v]
AddTo(r, c)       == [a |-> [i \in 1..Len(r.a) |-> (r.a[i] + c.a[i]) % Q], b |-> (r.b + c.b) % Q, v |-> r.v + c.v]
SubTo(r, c)       == [a |-> [i \in 1..Len(r.a) |-> (r.a[i] - c.a[i]) % Q], b |-> (r.b - c.b) % Q, v |-> r.v + c.v]
AddMulTo(r, p, c) == [a |-> [i \in 1..Len(r.a) |-> (r.a[i] + p * c.a[i]) % Q], b |-> (r.b + p * c.b) % Q, v |-> r.v + p * p * c.v]
SubMulTo(r, p, c) == [a |-> [i \in 1..Len(r.a) |-> (r.a[i] - p * c.a[i]) % Q], b |-> (r.b - p * c.b) % Q, v |-> r.v + p * p * c.v]

(* ---- encryption / decryption -------------------------------------------- *)
Encrypt(mu, mask, e, key) == [a |-> mask, b |-> (mu + e + Dot(mask, key)) % Q, v |-> 0]   \* lweSymEncrypt with the draws as arguments
Decrypt(c, key, M)        == ApproxPhaseCode(Phase(c, key), M)                            \* lweSymDecrypt

(* ---- key switching, as implemented --------------------------------------- *)
\* requires W >= 1 + t*bb
PrecOffset(t, bb)   == 2^(W - (1 + bb * t))
KSDigit(ai, j, t, bb) == (((ai + PrecOffset(t, bb)) % Q) \div 2^(W - j * bb)) % (2^bb)          \* j = 1..t
\* a noiseless key-switching key: ks[i][j][h] encrypts key_in[i]*h*2^(W-j*bb) under key_out with mask Mask[<<i,j,h>>]
KSRow(keyin, keyout, i, j, h, bb, Mask) ==
    IF h = 0 THEN Trivial(Len(keyout), 0)
    ELSE Encrypt((keyin[i] * h * 2^(W - j * bb)) % Q, Mask[<<i, j, h>>], 0, keyout)
RECURSIVE KSFold(_, _, _, _, _, _, _, _)
\* the double loop of lweKeySwitchTranslate_fromArray, unrolled over the linear index q = (i-1)*t + j, q = n*t .. 1
KSFold(res, ai, keyin, keyout, q, t, bb, Mask) ==
    IF q = 0 THEN res
    ELSE LET i == ((q - 1) \div t) + 1
             j == ((q - 1) % t) + 1
             prev == KSFold(res, ai, keyin, keyout, q - 1, t, bb, Mask)
             d == KSDigit(ai[i], j, t, bb)
         IN IF d = 0 THEN prev ELSE SubTo(prev, KSRow(keyin, keyout, i, j, d, bb, Mask))
KeySwitchCode(c, keyin, keyout, t, bb, Mask) ==
    KSFold(Trivial(Len(keyout), c.b), c.a, keyin, keyout, Len(c.a) * t, t, bb, Mask)

(* ---- key switching, as stated -------------------------------------------- *)
\* r is a_i rounded to nearest on t*bb bits (ties either way), wrapping at the top
IsRoundTo(r, ai, bits) == /\ r % 2^(W - bits) = 0 /\ r \in 0..(Q - 1)
                          /\ LET d == Centred(ai - r) IN 2 * d <= 2^(W - bits) /\ 2 * d >= 0 - 2^(W - bits)
RECURSIVE RoundedSum(_, _, _, _, _)
RoundedSum(ai, keyin, t, bb, i) == IF i = 0 THEN 0 ELSE
    LET r == (((ai[i] + PrecOffset(t, bb)) % Q) \div 2^(W - t * bb)) * 2^(W - t * bb) IN keyin[i] * r + RoundedSum(ai, keyin, t, bb, i - 1)
RECURSIVE Recompose(_, _, _, _)
Recompose(ai, t, bb, j) == IF j = 0 THEN 0 ELSE KSDigit(ai, j, t, bb) * 2^(W - j * bb) + Recompose(ai, t, bb, j - 1)

(* ---- the 8-lane subtraction of lweSubTo in optimised builds (intVecSubTo_avx), as a footprint ------------ *)
\* set of indices (0-based) written when called with n words.  Variant "pinned": the wide loop is a do-while
\* that runs once even when n < 8;  variant "guarded": it is skipped when n - n%8 = 0.
SubToFootprint(n, variant) ==
    LET n0   == n - (n % 8)
        wide == IF n0 = 0 THEN (IF variant = "pinned" THEN 8 ELSE 0) ELSE n0       \* words covered by the 8-lane loop
        rem  == n - n0
        f4   == IF rem >= 4 THEN {wide + k : k \in 0..3} ELSE {}
        p4   == IF rem >= 4 THEN wide + 4 ELSE wide
        r4   == IF rem >= 4 THEN rem - 4 ELSE rem
        f2   == IF r4 >= 2 THEN {p4, p4 + 1} ELSE {}
        p2   == IF r4 >= 2 THEN p4 + 2 ELSE p4
        r2   == IF r4 >= 2 THEN r4 - 2 ELSE r4
        f1   == IF r2 >= 1 THEN {p2} ELSE {}
    IN {k \in 0..(wide - 1) : TRUE} \cup f4 \cup f2 \cup f1
=============================================================================
