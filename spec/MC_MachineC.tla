----------------------------- MODULE MC_MachineC -----------------------------
(***************************************************************************)
(* MachineC: the gate API at the concrete, bit-exact, reduced-size level:  *)
(* a ciphertext is its coefficient vector, a gate is the linear            *)
(* combination of boot-gates.cpp (module Gates) followed by the            *)
(* transcribed bootstrapping of RingScheme (modulus switch, blind          *)
(* rotation, extraction, key switch).  TLC checks, for every gate, every   *)
(* input bit tuple, every admissible input error on the grid (|e| <= 1/32) *)
(* and masks over a covering set, that                                     *)
(*   - the result decrypts to the truth table (algorithmic half of C01),   *)
(*   - the step is a step of the phase-level machine MachineP under        *)
(*     Phase(ct) = b - <a,s>  (refinement MachineC => MachineP): the       *)
(*     output phase is exactly +-MU with the sign MachineP!BootBits allows *)
(*     for the rounded linear phase, and the MUX composition likewise.     *)
(***************************************************************************)
EXTENDS RingScheme, Gates
CONSTANT AVals
VARIABLES g, xa, xb, xc, grp
vars == <<g, xa, xb, xc, grp>>
MU == Q \div 8
Enc(bit) == IF bit = 1 THEN MU ELSE Md(0 - MU)
Errs == {-(Q \div 32), 0, Q \div 32}                        \* the property's 'valid' inputs: within 1/32 of +-1/8
\* an LWE encryption of `bit` with error e and mask m under LKey
CT(bit, e, m) == [a |-> m, b |-> Md(Enc(bit) + e + Dot(m))]
Inputs == [bit : {0, 1}, e : Errs, m : [1..NN -> AVals]]
GG == Bin \cup {"MUX", "NOT"}
G == 16
Key(c) == (c.xa.bit * 8 + c.xb.bit * 4 + (c.xa.e + Q) + 3 * (c.xb.e + Q) + c.xa.m[1]) % G
Init == grp \in 0..(G - 1) /\ g = "none" /\ xa = 0 /\ xb = 0 /\ xc = 0
Next == g = "none" /\ \E c \in [g : GG, xa : Inputs, xb : Inputs, xc : Inputs] :
            /\ Key(c) = grp
            /\ (c.g # "MUX" => c.xc = [bit |-> 0, e |-> 0, m |-> [i \in 1..NN |-> CHOOSE v \in AVals : TRUE]])      \* third input only matters for MUX
            /\ (c.g = "NOT" => c.xb = c.xc)
            /\ g' = c.g /\ xa' = c.xa /\ xb' = c.xb /\ xc' = c.xc /\ grp' = grp
Spec == Init /\ [][Next]_vars
\* LWE linear operations on [a, b] records (LweScheme at this torus)
LTriv(mu) == [a |-> [q \in 1..NN |-> 0], b |-> Md(mu)]
LAddMul(r, p, c) == [a |-> [q \in 1..NN |-> Md(r.a[q] + p * c.a[q])], b |-> Md(r.b + p * c.b)]
LinC(gg, ca, cb) == LAddMul(LAddMul(LTriv(K(gg) * MU), CA(gg), ca), CB(gg), cb)          \* boot-gates.cpp: constant, then +-ca, +-cb (x2 for XOR/XNOR)
GateC(gg, ca, cb) == Boot(LinC(gg, ca, cb), MU)                                           \* tfhe_bootstrap_FFT(result, bk, MU, temp)
\* MUX: two bootstraps without key switch, sum + 1/8 at the extracted level, one key switch
MuxC(ca, cb, cc) == LET u1 == BootWoKS(LAddMul(LAddMul(LTriv(0 - MU), 1, ca), 1, cb), MU)
                        u2 == BootWoKS(LAddMul(LAddMul(LTriv(0 - MU), -1, ca), 1, cc), MU)
                        s  == [a |-> [q \in 0..(KK * NP - 1) |-> Md(u1.a[q] + u2.a[q])], b |-> Md(u1.b + u2.b + MU)]
                    IN KeySwitch(s)
DecBit(c) == IF PhaseL(c) > 0 /\ PhaseL(c) < Q \div 2 THEN 1 ELSE 0                          \* bootsSymDecrypt: phase > 0
A == CT(xa.bit, xa.e, xa.m)
B == CT(xb.bit, xb.e, xb.m)
C == CT(xc.bit, xc.e, xc.m)
Centred(x) == IF Md(x) >= Q \div 2 THEN Md(x) - Q ELSE Md(x)
TruthTable == g # "none" =>
    CASE g \in Bin -> DecBit(GateC(g, A, B)) = TT(g, xa.bit, xb.bit)
      [] g = "MUX" -> DecBit(MuxC(A, B, C)) = MuxTT(xa.bit, xb.bit, xc.bit)
      [] g = "NOT" -> DecBit([a |-> [q \in 1..NN |-> Md(0 - A.a[q])], b |-> Md(0 - A.b)]) = 1 - xa.bit
\* refinement: the concrete step is a MachineP step (phases under LKey): output phase exactly +-MU, sign as MachineP computes it from the input phases
RefinesMachineP == (g \in Bin) =>
    LET lin == Centred(K(g) * MU + CA(g) * (Enc(xa.bit) + xa.e) + CB(g) * (Enc(xb.bit) + xb.e))      \* MachineP!Lin on the projected state
        out == PhaseL(GateC(g, A, B))
    IN /\ PhaseL(LinC(g, A, B)) = Md(lin)                                                            \* the temporary has the phase MachineP computes
       /\ out = (IF lin >= 0 THEN MU ELSE Md(0 - MU))                                                \* Boot: +MU iff rounded phase in [0, 1/2)   (here the modulus switch is exact: DCap = 0)
=============================================================================
