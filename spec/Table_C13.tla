----------------------------- MODULE Table_C13 -----------------------------
(* Rows printed by harness/h_arith.cpp validated against TorusW (C13). *)
EXTENDS TorusW, Table, Torus32
VARIABLE i
Init == i \in 1..NRows
Next == UNCHANGED i
Spec == Init /\ [][Next]_i
R == Rows[i]

\* embedded rows: x = xi * 2^(32-W) with W <= 15, and M a power of two <= 2^15: equality with the as-implemented model
Embedded(w) == w.l = 0 /\ w.h % 2^(16 - W) = 0
Xi(w) == w.h \div 2^(16 - W)
Emb(v) == [h |-> v * 2^(16 - W), l |-> 0]

RowMs == /\ R.M >= 2 /\ IsWord(R.x) /\ IsWord(R.ap) /\ IsWord(R.t)
         /\ R.r \in 0..(R.M - 1)
         /\ IsNearest32(R.r, R.x, R.M)
         /\ R.ap = R.t                                   \* approxPhase = modSwitchTo o modSwitchFrom
         /\ IsEncoding32(R.t, R.r, R.M)
         /\ (Embedded(R.x) /\ IsPow2(R.M) /\ R.M <= 32768) =>
               /\ R.r = ModSwitchFromCode(Xi(R.x), R.M)
               /\ (R.M <= Q => R.ap = Emb(ApproxPhaseCode(Xi(R.x), R.M)))
RowEnc == /\ R.mu \in 0..(R.M - 1)
          /\ R.back = R.mu
          /\ IsEncoding32(R.t, R.mu, R.M)
RowConv == R.r1 = R.x /\ R.r2 = R.x                      \* t32tod then dtot32 is the identity; dtot32 is 1-periodic
RowOK == CASE R.k = "ms" -> RowMs [] R.k = "enc" -> RowEnc [] R.k = "conv" -> RowConv [] OTHER -> FALSE
=============================================================================
