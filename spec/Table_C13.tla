----------------------------- MODULE Table_C13 -----------------------------
(* Rows printed by harness/h_arith.cpp validated against TorusW (C13). *)
EXTENDS TorusW, Table
VARIABLE i
Init == i \in 1..NRows
Next == UNCHANGED i
Spec == Init /\ [][Next]_i
R == Rows[i]

IsPow2(M) == \E k \in 1..30 : M = 2^k
Log2(M) == CHOOSE k \in 1..30 : M = 2^k

(* ---- full-width arithmetic on halves: M * x = Ah * 2^32 + Al * 2^16 + B  (M <= 2^15) ---- *)
Prod(M, w) == LET P == M * w.l
                  A == M * w.h + P \div 65536
              IN  [Ah |-> A \div 65536, Al |-> A % 65536, B |-> P % 65536]
\* r is an integer of [0,M) nearest to M*x/2^32 (ties either way)
IsNearest32(r, w, M) ==
    IF M <= 32768 THEN
       LET p == Prod(M, w) IN
         \/ r = p.Ah % M /\ (p.Al < 32768 \/ (p.Al = 32768 /\ p.B = 0))
         \/ r = (p.Ah + 1) % M /\ p.Al >= 32768
    ELSE \* power of two 2^m, 16 <= m <= 30: M*x/2^32 = x / 2^s, s = 32 - m in 2..16
       LET s  == 32 - Log2(M)
           fl == w.h * 2^(16 - s) + w.l \div 2^s
           fr == w.l % 2^s
       IN \/ r = fl % M /\ fr <= 2^(s - 1)
          \/ r = (fl + 1) % M /\ fr >= 2^(s - 1)
\* t is the torus encoding of mu/M: 0 <= mu*2^32 - t*M < 2M on the circle
IsEncoding32(t, mu, M) ==
    IF M <= 32768 THEN
       LET p == Prod(M, t) IN
         \/ mu = p.Ah % M /\ p.Al = 0 /\ p.B = 0
         \/ mu = (p.Ah + 1) % M /\ p.Al = 65535 /\ p.B > 65536 - 2 * M
    ELSE LET s == 32 - Log2(M) IN t.h * 2^(16 - s) + t.l \div 2^s = mu /\ t.l % 2^s = 0

\* embedded rows: x = xi * 2^(32-W) with W <= 15, and M a power of two <= 2^15: equality with the as-implemented model
Embedded(w) == w.l = 0 /\ w.h % 2^(16 - W) = 0
Xi(w) == w.h \div 2^(16 - W)
Emb(v) == [h |-> v * 2^(16 - W), l |-> 0]

RowMs == /\ R.M >= 2 /\ IsWord(R.x) /\ IsWord(R.ap) /\ IsWord(R.t)
         /\ R.r \in 0..(R.M - 1)
         /\ IsNearest32(R.r, R.x, R.M)
         /\ R.ap = R.t                                   \* approxPhase = modSwitchTo o modSwitchFrom
         /\ IsEncoding32(R.t, R.r, R.M)
         /\ (Embedded(R.x) /\ IsPow2(R.M) /\ R.M <= 32768) =>
               /\ R.r = ModSwitchFromCode(Xi(R.x), R.M)
               /\ (R.M <= Q => R.ap = Emb(ApproxPhaseCode(Xi(R.x), R.M)))
RowEnc == /\ R.mu \in 0..(R.M - 1)
          /\ R.back = R.mu
          /\ IsEncoding32(R.t, R.mu, R.M)
RowConv == R.r1 = R.x /\ R.r2 = R.x                      \* t32tod then dtot32 is the identity; dtot32 is 1-periodic
RowOK == CASE R.k = "ms" -> RowMs [] R.k = "enc" -> RowEnc [] R.k = "conv" -> RowConv [] OTHER -> FALSE
=============================================================================
