----------------------------- MODULE Table_C19 -----------------------------
(* Rows printed by harness/h_params.cpp validated against Params (C19). *)
EXTENDS Params, Table
VARIABLE i
Init == i \in 1..NRows
Next == UNCHANGED i
Spec == Init /\ [][Next]_i
R == Rows[i]
SameDouble(obs, doc) == obs.m = doc.m /\ obs.e = doc.e
RowSel == LET s == SelectSpec(R.lam) IN
    IF s = "abort" THEN R.outcome = "abort"                                   \* rejected by aborting, no fallback set
    ELSE LET p == SetOf(s)  d == Derived(p) IN
         /\ R.outcome = "return" /\ R.ret = 1
         /\ R.n = p.n /\ R.N = p.N /\ R.kk = p.k /\ R.l = p.l /\ R.Bgbit = p.Bgbit /\ R.ks_t = p.ks_t /\ R.ks_basebit = p.ks_basebit
         /\ SameDouble(R.ks_stdev, p.ks_stdev) /\ R.ks_stdev.s = p.ks_str           \* noise levels: the exact double and its decimal rendering
         /\ SameDouble(R.bk_stdev, p.bk_stdev) /\ R.bk_stdev.s = p.bk_str
         /\ SameDouble(R.in_max, p.max_stdev) /\ SameDouble(R.bk_max, p.max_stdev)
         /\ R.Bg = d.Bg /\ R.halfBg = d.halfBg /\ R.maskMod = d.maskMod /\ R.kpl = d.kpl /\ R.ext_n = d.extracted_n
         /\ SameDouble(R.ext_min, p.bk_stdev) /\ SameDouble(R.ext_max, p.max_stdev)
         /\ Len(R.h) = p.l
         /\ \A q \in 1..p.l : LET sft == 32 - q * p.Bgbit IN (IF sft >= 16 THEN R.h[q] = <<2^(sft - 16), 0>> ELSE R.h[q] = <<0, 2^sft>>)
         /\ Structural([n |-> R.n, N |-> R.N, k |-> R.kk, l |-> R.l, Bgbit |-> R.Bgbit, ks_t |-> R.ks_t, ks_basebit |-> R.ks_basebit])
         /\ Strength(s) >= R.lam
         \* the noise formulas evaluated on the values actually returned
         /\ LET q == [p EXCEPT !.ks_stdev = [m |-> R.ks_stdev.m, e |-> R.ks_stdev.e], !.bk_stdev = [m |-> R.bk_stdev.m, e |-> R.bk_stdev.e]] IN
              FLeq(GateVar(q), Bound2(s)) /\ Margin12(q, Bound2(s))
RowOK == CASE R.k = "sel" -> RowSel [] OTHER -> FALSE
=============================================================================
