------------------------------ MODULE Transport ------------------------------
(***************************************************************************)
(* The two transports under the serialisation grammar (tfhe_generic_      *)
(* streams.cpp: COstream/CIstream over FILE*, StdOstream/StdIstream over   *)
(* C++ streams) at the granularity of bytes.  Serial.tla says WHICH calls  *)
(* an export makes; this module says what a transport does with ONE        *)
(* binary call of `len` bytes on the way out and on the way in, so that    *)
(* the clauses "exact size on both transports" (C17), "the same bytes on   *)
(* both transports" (C05) and "a truncated stream is never accepted        *)
(* silently" (C18) are statements about a machine:                         *)
(*                                                                         *)
(*   write phase  the writer moves the calls of an export to the sink,     *)
(*                whole (the code: one fwrite / ostream::write per call),  *)
(*                or block-wise (a design a maintainer may move to);       *)
(*   cut          the environment keeps a prefix of the sink (cut = all    *)
(*                bytes: no damage);                                       *)
(*   read phase   the reader consumes the same calls; a call that finds    *)
(*                fewer bytes than it asks for must not return normally.   *)
(*                                                                         *)
(* Two wrong designs are configurations: Writer = "blocks_short" (block    *)
(* loop one iteration short when len is a multiple of the block size)      *)
(* and Reader = "eof_ok" (a read that finds a clean end of file returns    *)
(* normally: truncation at a call boundary is accepted).                   *)
(***************************************************************************)
EXTENDS Integers, Sequences, TLC
CONSTANTS Lens,        \* candidate lengths of a binary call, in bytes
          MaxCalls,    \* calls per export
          Block,       \* block size of the block-wise writer
          Writer,      \* "whole" | "blocks" | "blocks_short"
          Reader       \* "strict" | "eof_ok"
VARIABLES calls,       \* the export: sequence of call lengths
          phase,       \* "write" | "cut" | "read" | "done"
          wi, wo,      \* writer: current call, bytes of it already moved
          sink,        \* sequence of <<call, byte index>> as they arrive
          cut,         \* number of bytes the environment keeps
          ri, pos,     \* reader: current call, position in the kept prefix
          got,         \* number of bytes delivered to the object
          outcome      \* "none" | "clean" | "abort"
vars == <<calls, phase, wi, wo, sink, cut, ri, pos, got, outcome>>

RECURSIVE Bytes(_, _)
Bytes(cs, i) == IF i > Len(cs) THEN <<>> ELSE [k \in 1..cs[i] |-> <<i, k>>] \o Bytes(cs, i + 1)
Expected == Bytes(calls, 1)                 \* what the stream transport puts out: every byte of every call, in order
RECURSIVE Total(_, _)
Total(cs, i) == IF i > Len(cs) THEN 0 ELSE cs[i] + Total(cs, i + 1)

Seqs(n) == UNION {[1..m -> Lens] : m \in 1..n}
Init == /\ calls \in Seqs(MaxCalls)
        /\ phase = "write" /\ wi = 1 /\ wo = 0 /\ sink = <<>> /\ cut = 0 /\ ri = 1 /\ pos = 0 /\ got = 0 /\ outcome = "none"

Chunk(i, from, n) == [k \in 1..n |-> <<i, from + k>>]
NextCall == IF wi = Len(calls) THEN phase' = "cut" /\ wi' = wi /\ wo' = 0 ELSE phase' = phase /\ wi' = wi + 1 /\ wo' = 0
\* the code as it is: one transport call moves the whole array
WriteWhole == /\ phase = "write" /\ Writer = "whole"
              /\ sink' = sink \o Chunk(wi, 0, calls[wi]) /\ NextCall
              /\ UNCHANGED <<calls, cut, ri, pos, got, outcome>>
\* block-wise: `full` blocks of Block bytes, then a tail of len % Block bytes
Full(len) == IF Writer = "blocks_short" THEN (len - 1) \div Block ELSE len \div Block
WriteBlock == /\ phase = "write" /\ Writer \in {"blocks", "blocks_short"}
              /\ wo < Full(calls[wi]) * Block
              /\ sink' = sink \o Chunk(wi, wo, Block) /\ wo' = wo + Block
              /\ UNCHANGED <<calls, phase, wi, cut, ri, pos, got, outcome>>
WriteTail  == /\ phase = "write" /\ Writer \in {"blocks", "blocks_short"}
              /\ wo >= Full(calls[wi]) * Block
              /\ sink' = sink \o Chunk(wi, wo, calls[wi] % Block) /\ NextCall
              /\ UNCHANGED <<calls, cut, ri, pos, got, outcome>>
\* the environment truncates (or not)
Cut == /\ phase = "cut" /\ cut' \in 0..Len(sink) /\ phase' = "read"
       /\ UNCHANGED <<calls, wi, wo, sink, ri, pos, got, outcome>>
\* one read call of calls[ri] bytes
Avail == cut - pos
Finish(r) == IF r > Len(calls) THEN phase' = "done" /\ outcome' = "clean" ELSE phase' = phase /\ outcome' = outcome
ReadOk    == /\ phase = "read" /\ Avail >= calls[ri]
             /\ pos' = pos + calls[ri] /\ got' = got + calls[ri] /\ ri' = ri + 1 /\ Finish(ri + 1)
             /\ UNCHANGED <<calls, wi, wo, sink, cut>>
ReadShort == /\ phase = "read" /\ Avail < calls[ri]
             /\ IF Reader = "eof_ok" /\ Avail = 0
                THEN pos' = pos /\ got' = got /\ ri' = ri + 1 /\ Finish(ri + 1)           \* "reported through feof()": nobody looks
                ELSE phase' = "done" /\ outcome' = "abort" /\ UNCHANGED <<pos, got, ri>>  \* the code: abort() on a short read
             /\ UNCHANGED <<calls, wi, wo, sink, cut>>
Next == WriteWhole \/ WriteBlock \/ WriteTail \/ Cut \/ ReadOk \/ ReadShort
Spec == Init /\ [][Next]_vars /\ WF_vars(Next)

TypeOK == phase \in {"write", "cut", "read", "done"} /\ outcome \in {"none", "clean", "abort"} /\ wo >= 0 /\ pos <= cut
\* C17 / C05: what reaches the sink is exactly what the stream transport would put out, whatever the grouping into transport calls
ExportExact     == phase # "write" => sink = Expected
ExportIsPrefix  == Len(sink) <= Len(Expected) /\ \A j \in 1..Len(sink) : sink[j] = Expected[j]
\* C18: a normal return means the whole export was there and all of it was delivered
NoSilentAccept  == outcome = "clean" => cut = Total(calls, 1) /\ got = Total(calls, 1)
\* C05: without damage the import returns normally
RoundTrip       == (phase = "done" /\ cut = Total(calls, 1) /\ sink = Expected) => outcome = "clean"
Terminates      == <>(phase = "done")
=============================================================================
