-------------------------------- MODULE Ring --------------------------------
(***************************************************************************)
(* The negacyclic ring Z_Q[X]/(X^N+1), Q = 2^W, polynomials as sequences   *)
(* of length N (index 1 = constant coefficient).  Each routine of          *)
(* src/libtfhe/toruspolynomial-functions.cpp and multiplication.cpp is     *)
(* written twice: "Def" (the ring operation) and "Code" (the loops and     *)
(* index arithmetic of the implementation).                                *)
(***************************************************************************)
EXTENDS Integers, Sequences
CONSTANT W
Q == 2^W
Md(x) == x % Q
N_(s) == Len(s)
Zero(n) == [i \in 1..n |-> 0]
Mono(n, j, c) == [i \in 1..n |-> IF i = j + 1 THEN c ELSE 0]          \* c * X^j, 0 <= j < n

(* ---- coefficient-wise --------------------------------------------------- *)
PAdd(a, b)       == [i \in 1..Len(a) |-> Md(a[i] + b[i])]
PSub(a, b)       == [i \in 1..Len(a) |-> Md(a[i] - b[i])]
PNeg(a)          == [i \in 1..Len(a) |-> Md(0 - a[i])]
PAddMulZ(a, p, b) == [i \in 1..Len(a) |-> Md(a[i] + p * b[i])]
PSubMulZ(a, p, b) == [i \in 1..Len(a) |-> Md(a[i] - p * b[i])]

(* ---- definitional negacyclic product ------------------------------------ *)
RECURSIVE SumTo(_, _, _)
SumTo(F(_), lo, hi) == IF lo > hi THEN 0 ELSE F(lo) + SumTo(F, lo + 1, hi)
\* coefficient i (0-based) of a*b mod X^N+1: terms j+k = i positive, j+k = i+N negative
NegMulCoef(a, b, i) == LET n == Len(a)
                           T(j) == IF j <= i THEN a[j + 1] * b[i - j + 1] ELSE 0 - a[j + 1] * b[n + i - j + 1]
                       IN  Md(SumTo(T, 0, n - 1))
NegMul(a, b) == [i \in 1..Len(a) |-> NegMulCoef(a, b, i - 1)]

(* ---- monomial multiplication: definition (scatter form, X^N = -1) -------- *)
\* out[(j+a) mod N] = (-1)^((j+a) div N) * src[j]   for 0 <= a < 2N
IsMulXai(out, a, src) == LET n == Len(src) IN
    /\ Len(out) = n
    /\ \A j \in 0..(n - 1) : out[((j + a) % n) + 1] = Md(IF ((j + a) \div n) % 2 = 0 THEN src[j + 1] ELSE 0 - src[j + 1])
(* ---- monomial multiplication: as implemented (gather, two loops x two cases) *)
MulXaiCode(a, src) == LET n == Len(src) IN
    IF a < n THEN [i1 \in 1..n |-> LET i == i1 - 1 IN IF i < a THEN Md(0 - src[i - a + n + 1]) ELSE src[i - a + 1]]
    ELSE LET aa == a - n IN
         [i1 \in 1..n |-> LET i == i1 - 1 IN IF i < aa THEN src[i - aa + n + 1] ELSE Md(0 - src[i - aa + 1])]
MulXaiMinusOneCode(a, src) == LET n == Len(src) IN
    IF a < n THEN [i1 \in 1..n |-> LET i == i1 - 1 IN IF i < a THEN Md(0 - src[i - a + n + 1] - src[i + 1]) ELSE Md(src[i - a + 1] - src[i + 1])]
    ELSE LET aa == a - n IN
         [i1 \in 1..n |-> LET i == i1 - 1 IN IF i < aa THEN Md(src[i - aa + n + 1] - src[i + 1]) ELSE Md(0 - src[i - aa + 1] - src[i + 1])]

(* ---- schoolbook as implemented ------------------------------------------ *)
\* torusPolynomialMultNaive_aux : reduced product, two inner loops
NaiveCode(a, b) == LET n == Len(a) IN
    [i1 \in 1..n |-> LET i == i1 - 1
                         P(j) == a[j + 1] * b[i - j + 1]
                         M(j) == a[j + 1] * b[n + i - j + 1]
                     IN Md(SumTo(P, 0, i) - SumTo(M, i + 1, n - 1))]
\* torusPolynomialMultNaive_plain_aux : unreduced product of length 2n-1
PlainCode(a, b) == LET n == Len(a) IN
    [i1 \in 1..(2 * n - 1) |-> LET i == i1 - 1
                                   P(j) == a[j + 1] * b[i - j + 1]
                               IN IF i < n THEN Md(SumTo(P, 0, i)) ELSE Md(SumTo(P, i - n + 1, n - 1))]
(* ---- Karatsuba as implemented: cut-off h <= 4, R of length 2*size-1, R[size-1] set to 0 by hand *)
RECURSIVE KaraCode(_, _)
KaraCode(a, b) ==
    LET size == Len(a)
        h == size \div 2
    IN IF h <= 4 THEN PlainCode(a, b)
       ELSE LET alo == SubSeq(a, 1, h)        ahi == SubSeq(a, h + 1, size)
                blo == SubSeq(b, 1, h)        bhi == SubSeq(b, h + 1, size)
                at  == [i \in 1..h |-> Md(alo[i] + ahi[i])]
                bt  == [i \in 1..h |-> Md(blo[i] + bhi[i])]
                lo  == KaraCode(alo, blo)                     \* R[0 .. 2h-2]
                hi  == KaraCode(ahi, bhi)                     \* R[size .. size+2h-2]
                mid == KaraCode(at, bt)                       \* Rtemp[0 .. 2h-2]
                R0  == lo \o <<0>> \o hi                      \* R[sm1] = 0
                sm1 == size - 1
                rt  == [i \in 1..sm1 |-> Md(mid[i] - (R0[i] + R0[size + i]))]
            IN [i \in 1..(2 * size - 1) |-> IF i >= h + 1 /\ i <= h + sm1 THEN Md(R0[i] + rt[i - h]) ELSE R0[i]]
\* reduction mod X^N+1 as in torusPolynomialMultKaratsuba
ReduceCode(R, n) == [i \in 1..n |-> IF i <= n - 1 THEN Md(R[i] - R[n + i]) ELSE R[n]]
KaratsubaCode(a, b)         == ReduceCode(KaraCode(a, b), Len(a))
AddMulRKaratsubaCode(r, a, b) == PAdd(r, KaratsubaCode(a, b))
SubMulRKaratsubaCode(r, a, b) == PSub(r, KaratsubaCode(a, b))
=============================================================================
