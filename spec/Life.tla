-------------------------------- MODULE Life --------------------------------
(***************************************************************************)
(* Object lifecycles of the public gate-bootstrapping API: parameter set,  *)
(* generated secret key set (with its embedded cloud key), re-imported     *)
(* cloud and secret key sets, two ciphertext arrays, three kinds of        *)
(* exported blobs, and the process-wide parameter collector.  Every        *)
(* action is one API call (or one fixed group of calls); its guard is what *)
(* the API requires to be alive, so the reachable behaviours are exactly   *)
(* "new / use / export / import / delete in every order the API allows".   *)
(* val tracks the plaintext each ciphertext slot must decrypt to.          *)
(* TLC enumerates or samples the behaviours (Gen_Life) and the harness     *)
(* h_life replays them on the real library under the allocation ledger;    *)
(* Trace_Life validates what the library did, step by step, against these  *)
(* same actions.  There is no thread in this state: no object of the API   *)
(* belongs to the thread that created it (since fix 0f4e6fe not even       *)
(* through a Lagrange polynomial's processor pointer, see Threads.tla), so *)
(* the generator assigns each step an executor - the run's thread or a     *)
(* helper thread that exits right after the step - and Trace_Life accepts  *)
(* a run only if the observations do not depend on that assignment.        *)
(***************************************************************************)
EXTENDS Integers, Sequences, FiniteSets, TLC
CONSTANTS Budget,             \* API calls before wind-down (afterwards only deletions and the collector's finalize are enabled)
          Relax,              \* FALSE as specified; TRUE drops the deletion-order guard (design mutant: must violate NoDangling)
          ParamKind           \* "custom": the user builds and owns all four parameter objects | "default": new_default_gate_bootstrapping_parameters,
                              \*   whose three inner parameter objects belong to the collector from the start
Arr   == {"ct", "ct2"}        \* ct: allocated with the user's parameter set; ct2: allocated with a re-imported key set's own parameters
Slots == 0..2
SKeys == {"sk", "sk2"}        \* key sets that can encrypt / decrypt (generated, re-imported)
Keys  == {"sk", "ck", "sk2"}  \* key sets that can evaluate (sk and sk2 through their embedded cloud key)
Objs  == {"params", "sk", "ck", "sk2", "ct", "ct2"}
Blobs == {"cloud", "secret", "cts"}
Gates2 == {"NAND", "XOR", "ANDNY", "OR"}
Undef == -1
VARIABLES obj,     \* obj[o] \in {"none", "live", "freed"}
          val,     \* val[a][i] \in {Undef, 0, 1}
          blob,    \* set of blobs that have been written
          bval,    \* plaintexts inside the "cts" blob
          fin,     \* TRUE iff the collector owns nothing (no import since the last finalize)
          steps,
          last     \* the action just taken, as a record (what the generator prints and the trace names)
lvars == <<obj, val, blob, bval, fin, steps, last>>
Live(o) == obj[o] = "live"
NoVals == [i \in Slots |-> Undef]
LInit == /\ obj = [o \in Objs |-> "none"] /\ val = [a \in Arr |-> NoVals] /\ blob = {} /\ bval = NoVals
         /\ fin = TRUE /\ steps = 0 /\ last = [op |-> "Init"]
Step(rec) == steps' = steps + 1 /\ last' = rec
Busy == steps < Budget
G2(g, x, y) == CASE g = "NAND" -> 1 - x * y [] g = "XOR" -> (x + y) % 2 [] g = "ANDNY" -> (1 - x) * y [] g = "OR" -> x + y - x * y
(* ---- creation ------------------------------------------------------------- *)
NewParams == /\ Busy /\ obj["params"] = "none" /\ obj' = [obj EXCEPT !["params"] = "live"]
             /\ fin' = (IF ParamKind = "default" THEN FALSE ELSE fin)
             /\ Step([op |-> "NewParams"]) /\ UNCHANGED <<val, blob, bval>>
KeyGen    == /\ Busy /\ Live("params") /\ obj["sk"] = "none" /\ obj' = [obj EXCEPT !["sk"] = "live"]
             /\ Step([op |-> "KeyGen"]) /\ UNCHANGED <<val, blob, bval, fin>>
\* ct is allocated with the user's parameters; ct2 with the parameters a re-imported key set carries (owned by the collector)
NewCt(a, k) == /\ Busy /\ ~Live(a)
               /\ IF a = "ct" THEN Live("params") /\ k = "params" ELSE k \in {"ck", "sk2"} /\ Live(k)
               /\ obj' = [obj EXCEPT ![a] = "live"] /\ val' = [val EXCEPT ![a] = NoVals]
               /\ Step([op |-> "NewCt", a |-> a, k |-> k]) /\ UNCHANGED <<blob, bval, fin>>
(* ---- use -------------------------------------------------------------------- *)
Encrypt(k, a, i, b) == /\ Busy /\ k \in SKeys /\ Live(k) /\ Live(a)
                       /\ val' = [val EXCEPT ![a][i] = b]
                       /\ Step([op |-> "Encrypt", k |-> k, a |-> a, i |-> i, b |-> b]) /\ UNCHANGED <<obj, blob, bval, fin>>
Constant(k, a, i, b) == /\ Busy /\ k \in Keys /\ Live(k) /\ Live(a)
                        /\ val' = [val EXCEPT ![a][i] = b]
                        /\ Step([op |-> "Const", k |-> k, a |-> a, i |-> i, b |-> b]) /\ UNCHANGED <<obj, blob, bval, fin>>
Gate(k, g, a, i, a1, i1, a2, i2) ==
    /\ Busy /\ k \in Keys /\ Live(k) /\ Live(a) /\ Live(a1) /\ Live(a2) /\ val[a1][i1] # Undef /\ val[a2][i2] # Undef
    /\ val' = [val EXCEPT ![a][i] = G2(g, val[a1][i1], val[a2][i2])]
    /\ Step([op |-> "Gate", k |-> k, g |-> g, a |-> a, i |-> i, a1 |-> a1, i1 |-> i1, a2 |-> a2, i2 |-> i2]) /\ UNCHANGED <<obj, blob, bval, fin>>
Mux(k, a, i, a1, i1, a2, i2, a3, i3) ==
    /\ Busy /\ k \in Keys /\ Live(k) /\ Live(a) /\ Live(a1) /\ Live(a2) /\ Live(a3)
    /\ val[a1][i1] # Undef /\ val[a2][i2] # Undef /\ val[a3][i3] # Undef
    /\ val' = [val EXCEPT ![a][i] = IF val[a1][i1] = 1 THEN val[a2][i2] ELSE val[a3][i3]]
    /\ Step([op |-> "Mux", k |-> k, a |-> a, i |-> i, a1 |-> a1, i1 |-> i1, a2 |-> a2, i2 |-> i2, a3 |-> a3, i3 |-> i3]) /\ UNCHANGED <<obj, blob, bval, fin>>
\* decryption is an observation: the trace must report val[a][i]
Decrypt(k, a, i) == /\ Busy /\ k \in SKeys /\ Live(k) /\ Live(a) /\ val[a][i] # Undef
                    /\ Step([op |-> "Decrypt", k |-> k, a |-> a, i |-> i, b |-> val[a][i]]) /\ UNCHANGED <<obj, val, blob, bval, fin>>
(* ---- export / import -------------------------------------------------------- *)
ExportCloud(k)  == /\ Busy /\ k \in Keys /\ Live(k) /\ blob' = blob \cup {"cloud"}
                   /\ Step([op |-> "ExportCloud", k |-> k]) /\ UNCHANGED <<obj, val, bval, fin>>
ExportSecret(k) == /\ Busy /\ k \in SKeys /\ Live(k) /\ blob' = blob \cup {"secret"}
                   /\ Step([op |-> "ExportSecret", k |-> k]) /\ UNCHANGED <<obj, val, bval, fin>>
ExportCts(a)    == /\ Busy /\ Live(a) /\ \A i \in Slots : val[a][i] # Undef
                   /\ blob' = blob \cup {"cts"} /\ bval' = val[a]
                   /\ Step([op |-> "ExportCts", a |-> a]) /\ UNCHANGED <<obj, val, fin>>
\* importers create a new key set whose parameter objects belong to the collector
ImportCloud  == /\ Busy /\ "cloud" \in blob /\ ~Live("ck") /\ obj' = [obj EXCEPT !["ck"] = "live"] /\ fin' = FALSE
                /\ Step([op |-> "ImportCloud"]) /\ UNCHANGED <<val, blob, bval>>
ImportSecret == /\ Busy /\ "secret" \in blob /\ ~Live("sk2") /\ obj' = [obj EXCEPT !["sk2"] = "live"] /\ fin' = FALSE
                /\ Step([op |-> "ImportSecret"]) /\ UNCHANGED <<val, blob, bval>>
ImportCts(a) == /\ Busy /\ "cts" \in blob /\ Live(a) /\ val' = [val EXCEPT ![a] = bval]
                /\ Step([op |-> "ImportCts", a |-> a]) /\ UNCHANGED <<obj, blob, bval, fin>>
(* ---- deletion ----------------------------------------------------------------- *)
\* the user's parameter set goes last among the objects built on it; ct2 and the imported key sets depend on collector-owned parameters
DeleteOk(o) == Relax \/ CASE o = "params" -> ~Live("sk") /\ ~Live("ct")
                 [] OTHER -> TRUE
Delete(o) == /\ Live(o) /\ DeleteOk(o) /\ obj' = [obj EXCEPT ![o] = "freed"]
             /\ val' = IF o \in Arr THEN [val EXCEPT ![o] = NoVals] ELSE val
             /\ Step([op |-> "Delete", o |-> o]) /\ UNCHANGED <<blob, bval, fin>>
\* TfheGarbageCollector::finalize frees the parameters created by importers: legal once nothing built on them is alive
Finalize == /\ ~Live("ck") /\ ~Live("sk2") /\ ~Live("ct2") /\ ~fin /\ fin' = TRUE
            /\ (ParamKind = "default" => ~Live("params") /\ ~Live("sk") /\ ~Live("ct"))
            /\ Step([op |-> "Finalize"]) /\ UNCHANGED <<obj, val, blob, bval>>
LNext == \/ NewParams \/ KeyGen \/ ImportCloud \/ ImportSecret \/ Finalize
         \/ \E a \in Arr : \E k \in {"params", "ck", "sk2"} : NewCt(a, k)
         \/ \E k \in Keys, a \in Arr, i \in Slots, b \in {0, 1} : Encrypt(k, a, i, b) \/ Constant(k, a, i, b)
         \/ \E k \in Keys, g \in Gates2, a, a1, a2 \in Arr, i, i1, i2 \in Slots : Gate(k, g, a, i, a1, i1, a2, i2)
         \/ \E k \in Keys, a, a1, a2, a3 \in Arr, i, i1, i2, i3 \in Slots : Mux(k, a, i, a1, i1, a2, i2, a3, i3)
         \/ \E k \in Keys, a \in Arr, i \in Slots : Decrypt(k, a, i)
         \/ \E k \in Keys : ExportCloud(k) \/ ExportSecret(k)
         \/ \E a \in Arr : ExportCts(a) \/ ImportCts(a)
         \/ \E o \in Objs : Delete(o)
LSpec == LInit /\ [][LNext]_lvars
Terminal == (\A o \in Objs : ~Live(o)) /\ fin /\ steps > 0
(* ---- what must hold ------------------------------------------------------------- *)
TypeOK == /\ obj \in [Objs -> {"none", "live", "freed"}] /\ val \in [Arr -> [Slots -> {Undef, 0, 1}]] /\ blob \subseteq Blobs
\* nothing alive is built on something dead: a generated key set and ct need the user's parameters; ct2 and imported key sets need un-finalized collector parameters
NoDangling == /\ (Live("sk") \/ Live("ct")) => Live("params")
              /\ (Live("ck") \/ Live("sk2") \/ Live("ct2")) => ~fin
              /\ (ParamKind = "default" /\ (Live("params") \/ Live("sk") \/ Live("ct"))) => ~fin
\* a slot of a dead array holds nothing
DeadIsEmpty == \A a \in Arr : ~Live(a) => val[a] = NoVals
\* the lifecycle can always be continued or wound down: no reachable state is stuck short of "everything released"
NoStuck == Terminal \/ steps = 0 \/ ENABLED LNext
=============================================================================
