SPECIFICATION GSpec
CONSTANTS Regs = {0,1,2,3,4,5}
 U = 16777216
 ECap = 786431
 DCap = 524287
 NotSlack = 0
 Mutant = "none"
 GenDepth = 120
CONSTRAINT Dump
CONSTRAINT Bound
INVARIANT Correct
CHECK_DEADLOCK FALSE
