SPECIFICATION Spec
CONSTANTS Thr = {t1, t2, t3}
 Guard = "none"
 UsesPlanner = TRUE
INVARIANT TypeOK
INVARIANT OneShared
INVARIANT NoHalfBuilt
PROPERTY AllDone
CHECK_DEADLOCK FALSE
