---------------------------- MODULE Trace_Serial ----------------------------
(***************************************************************************)
(* Recorded export / import / re-export round trips of the real library    *)
(* (harness/h_io.cpp) validated against Serial:                            *)
(*  - the exported bytes, tokenised independently of the writer's call     *)
(*    grouping (text lines; one run per maximal binary stretch), are the   *)
(*    canonical form of Serial!Export(type, params): same sections, same   *)
(*    binary lengths, same leading tags; property lines carry the object's *)
(*    field values exactly as the reader will parse them (reals included); *)
(*  - importing consumes exactly the bytes of the object, leaves the       *)
(*    stream good, and yields an object equal field for field (content     *)
(*    hash; key rows come back with the common maximum variance);          *)
(*  - re-exporting the imported object gives identical bytes;              *)
(*  - objects written back to back are read back in order.                 *)
(***************************************************************************)
EXTENDS Serial, TLC, Json, IOUtils
VARIABLES l, exp, pos, cur, bytes, objs, off, imp, tr
svars == <<l, exp, pos, cur, bytes, objs, off, imp, tr>>
Tr == ndJsonDeserialize(IOEnv.TRACE)
Ev == Tr[l]
NoObj == [ty |-> "none"]
TInit == l = 1 /\ exp = <<>> /\ pos = Cursor0 /\ cur = NoObj /\ bytes = 0 /\ objs = <<>> /\ off = 0 /\ imp = 1 /\ tr = "none"
KeyTypes == {"KSKey", "BKey", "CloudKey", "SecretKey"}
SameReal(a, b) == a.m = b.m /\ a.e = b.e /\ a.neg = b.neg
TSeqBegin == /\ Ev.e = "SeqBegin" /\ cur = NoObj
             /\ objs' = <<>> /\ off' = 0 /\ imp' = 1 /\ tr' = Ev.tr /\ UNCHANGED <<exp, pos, cur, bytes>>
TExport == /\ Ev.e = "Export" /\ cur = NoObj /\ Ev.ty \in Types
           /\ exp' = Canon(ExportSegs(Ev.ty, Ev.p)) /\ pos' = Start(Canon(ExportSegs(Ev.ty, Ev.p))) /\ cur' = Ev /\ bytes' = 0 /\ UNCHANGED <<objs, off, imp, tr>>
TW == /\ Ev.e = "W" /\ cur # NoObj /\ ~AtEnd(exp, pos)
      /\ LET x == CallAt(exp, pos) IN
           /\ Ev.c = x.c /\ Ev.s = x.s
           /\ (x.c = "w" => Ev.len = x.len /\ (x.tag # -1 => Ev.tag = x.tag))
           /\ (x.c = "prop" => LET f == FieldOf(x.s) IN IF IsReal(f) THEN SameReal(Ev.dv, cur.r[f]) ELSE Ev.iv = cur.p[f])   \* what the reader will parse = the field
      /\ pos' = Advance(exp, pos) /\ bytes' = bytes + Ev.bytes /\ UNCHANGED <<exp, cur, objs, off, imp, tr>>
TExportEnd == /\ Ev.e = "ExportEnd" /\ cur # NoObj /\ AtEnd(exp, pos) /\ Ev.bytes = bytes
              /\ objs' = Append(objs, [d |-> cur, bytes |-> bytes, hb |-> Ev.hb])
              /\ cur' = NoObj /\ UNCHANGED <<exp, pos, bytes, off, imp, tr>>
TImport == /\ Ev.e = "Import" /\ cur = NoObj /\ imp <= Len(objs)
           /\ LET o == objs[imp] IN
                /\ Ev.ty = o.d.ty /\ Ev.p = o.d.p
                /\ \A f \in {"amin", "amax", "tmin", "tmax"} : SameReal(Ev.r[f], o.d.r[f])          \* real-valued noise parameters exactly
                /\ Ev.h = o.d.h                                                                    \* contents field for field
                /\ (Ev.ty \in KeyTypes => Ev.vuni = 1 /\ SameReal(Ev.vall, o.d.vmax))               \* advisory variance: stored once, comes back as the common maximum
                /\ (Ev.ty \in KeyTypes \ {"KSKey"} => Ev.bvuni = 1 /\ SameReal(Ev.bvall, o.d.bvmax))  \* likewise for the bootstrapping rows
                /\ Ev.pos = off + o.bytes /\ Ev.good = 1                                           \* consumed exactly this object
                /\ off' = off + o.bytes
           /\ UNCHANGED <<exp, pos, cur, bytes, objs, imp, tr>>
TReExport == /\ Ev.e = "ReExport" /\ imp <= Len(objs)
             /\ Ev.bytes = objs[imp].bytes /\ Ev.hb = objs[imp].hb
             /\ imp' = imp + 1 /\ UNCHANGED <<exp, pos, cur, bytes, objs, off, tr>>
TSeqEnd == /\ Ev.e = "SeqEnd" /\ cur = NoObj /\ imp = Len(objs) + 1 /\ Ev.total = off
           /\ UNCHANGED <<exp, pos, cur, bytes, objs, off, imp, tr>>
TNext == l <= Len(Tr) /\ l' = l + 1 /\ (TSeqBegin \/ TExport \/ TW \/ TExportEnd \/ TImport \/ TReExport \/ TSeqEnd)
TSpec == TInit /\ [][TNext]_svars
Accepted == TLCGet("stats").diameter - 1 = Len(Tr)
=============================================================================
