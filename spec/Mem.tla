--------------------------------- MODULE Mem ---------------------------------
(***************************************************************************)
(* Memory: (i) footprints of the routines with hand-written index          *)
(* arithmetic as functions of the parameters, against the sizes of the     *)
(* buffers they run on; (ii) the ownership structure of the key-set        *)
(* objects as a heap of cells with an API lifecycle machine on top.        *)
(***************************************************************************)
EXTENDS Integers, FiniteSets, Sequences, TLC
(* ---- (i) footprints ------------------------------------------------------ *)
\* rounded-mask scratch of tfhe_bootstrap_woKS(_FFT): entries 0..n-1 are written; allocated: n (repaired) or N (pinned)
BaraWritten(n) == 0..(n - 1)
BaraAllocated(n, N, variant) == 0..((IF variant = "pinned" THEN N ELSE n) - 1)
\* key-switching key: ks[i][j][h] lives at ks0_raw[(i*t + j)*base + h]; n*t*base samples allocated
KSIndex(i, j, h, t, base) == (i * t + j) * base + h
\* Karatsuba_aux scratch: a call of size s >= 10 (h = s/2 > 4) uses h + h + s words of buf and recurses on h with the rest
RECURSIVE KaraWords(_)
KaraWords(s) == IF s \div 2 <= 4 THEN 0 ELSE (s \div 2) + (s \div 2) + s + KaraWords(s \div 2)
KaraAllocatedWords(N) == 4 * N                       \* new char[16*N]
\* the 8-lane subtraction (see LweScheme!SubToFootprint) and the decomposition loops (multiples of 8 only)
DecompWritten(N) == 0..(((N + 7) \div 8) * 8 - 1)     \* the AVX2 loops process whole 8-lane blocks
(* ---- (ii) ownership and lifecycle ------------------------------------------ *)
\* cells: params, lwe_key, tgsw_key, bk (TGSW array), ks (key-switching key owned by bk), bkFFT (FFT array), ksFFT (the FFT key's own copy of ks)
Cells == {"params", "lwekey", "tgswkey", "bk", "ks", "bkfft", "ksfft"}
CONSTANT Sharing      \* "copy": the FFT key owns a deep copy of the key-switching key (as implemented) | "shared": it aliases bk's
VARIABLES heap,        \* heap[c] \in {"none", "live", "freed"}
          steps        \* number of API calls made (bound)
mvars == <<heap, steps>>
KsOfFFT == IF Sharing = "copy" THEN "ksfft" ELSE "ks"
MInit == heap = [c \in Cells |-> "none"] /\ steps = 0
Set(m) == heap' = [c \in Cells |-> IF c \in DOMAIN m THEN m[c] ELSE heap[c]] /\ steps' = steps + 1
Live(cs) == \A c \in cs : heap[c] = "live"
\* new_random_gate_bootstrapping_secret_keyset (params given)
NewParams == heap["params"] = "none" /\ Set([params |-> "live"])
KeyGen == /\ Live({"params"}) /\ heap["bk"] = "none"
          /\ Set([c \in {"lwekey", "tgswkey", "bk", "ks", "bkfft"} \cup {KsOfFFT} |-> "live"])
\* evaluation with the FFT key reads bkfft and its key-switching key; with the coefficient key reads bk and ks
EvalFFT == Live({"params"}) /\ heap["bkfft"] = "live" /\ steps' = steps + 1 /\ UNCHANGED heap
EvalCoef == Live({"params"}) /\ heap["bk"] = "live" /\ steps' = steps + 1 /\ UNCHANGED heap
\* delete_LweBootstrappingKey(bk): frees the TGSW array and bk's key-switching key
DeleteBK == heap["bk"] = "live" /\ Set([bk |-> "freed", ks |-> "freed"])
\* delete_LweBootstrappingKeyFFT: frees the FFT array and (when it owns one) its key-switching key
DeleteBKFFT == heap["bkfft"] = "live" /\ Set(IF Sharing = "copy" THEN [bkfft |-> "freed", ksfft |-> "freed"] ELSE [bkfft |-> "freed"])
DeleteSecret == Live({"lwekey", "tgswkey"}) /\ Set([lwekey |-> "freed", tgswkey |-> "freed"])
DeleteParams == heap["params"] = "live" /\ heap["bk"] # "live" /\ heap["bkfft"] # "live" /\ Set([params |-> "freed"])
MNext == steps < 9 /\ (NewParams \/ KeyGen \/ EvalFFT \/ EvalCoef \/ DeleteBK \/ DeleteBKFFT \/ DeleteSecret \/ DeleteParams)
MSpec == MInit /\ [][MNext]_mvars
\* no use after free: whatever an enabled evaluation reads is live
NoUseAfterFree == /\ (heap["bkfft"] = "live" => heap[KsOfFFT] = "live")
                  /\ (heap["bk"] = "live" => heap["ks"] = "live")
\* everything created and then released through the matching deletion API is freed exactly once
NoLeak == (heap["params"] = "freed") => \A c \in Cells \ {"lwekey", "tgswkey"} : heap[c] # "live" \/ c \notin {"bk", "ks", "bkfft", "ksfft"}
FullyReleased == (\A c \in {"bk", "bkfft", "lwekey", "tgswkey"} : heap[c] = "freed") => \A c \in Cells \ {"params"} : heap[c] \in {"freed", "none"}
=============================================================================
