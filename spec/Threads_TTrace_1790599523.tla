---- MODULE Threads_TTrace_1790599523 ----
EXTENDS Threads_TEConstants, Threads, Sequences, TLCExt, Toolbox, Naturals, TLC

_expression ==
    LET Threads_TEExpression == INSTANCE Threads_TEExpression
    IN Threads_TEExpression!expression
----

_trace ==
    LET Threads_TETrace == INSTANCE Threads_TETrace
    IN Threads_TETrace!trace
----

_inv ==
    ~(
        TLCGet("level") = Len(_TETrace)
        /\
        proc = ((t1 :> "dead" @@ t2 :> "live" @@ t3 :> "none"))
        /\
        mutex = ("none")
        /\
        inplanner = ({})
        /\
        result = ((t1 :> <<"ok", "ok">> @@ t2 :> <<>> @@ t3 :> <<>>))
        /\
        buf = ((t1 :> <<"free", 0>> @@ t2 :> <<t2, 2>> @@ t3 :> <<"free", 0>>))
        /\
        pc = ((t1 :> "gone" @@ t2 :> "ran" @@ t3 :> "start"))
        /\
        tab = ([state |-> "freed", owner |-> t1])
        /\
        left = ((t1 :> 0 @@ t2 :> 2 @@ t3 :> 2))
        /\
        tmp = ((t1 :> <<"free", 0>> @@ t2 :> <<t2, 2>> @@ t3 :> <<"free", 0>>))
        /\
        poly = ("none")
        /\
        uaf = (TRUE)
        /\
        heap = ((t1 :> 0 @@ t2 :> 4 @@ t3 :> 0))
        /\
        puaf = (FALSE)
    )
----

_init ==
    /\ proc = _TETrace[1].proc
    /\ heap = _TETrace[1].heap
    /\ tab = _TETrace[1].tab
    /\ tmp = _TETrace[1].tmp
    /\ poly = _TETrace[1].poly
    /\ pc = _TETrace[1].pc
    /\ inplanner = _TETrace[1].inplanner
    /\ puaf = _TETrace[1].puaf
    /\ left = _TETrace[1].left
    /\ buf = _TETrace[1].buf
    /\ uaf = _TETrace[1].uaf
    /\ result = _TETrace[1].result
    /\ mutex = _TETrace[1].mutex
----

_next ==
    /\ \E i,j \in DOMAIN _TETrace:
        /\ \/ /\ j = i + 1
              /\ i = TLCGet("level")
        /\ proc  = _TETrace[i].proc
        /\ proc' = _TETrace[j].proc
        /\ heap  = _TETrace[i].heap
        /\ heap' = _TETrace[j].heap
        /\ tab  = _TETrace[i].tab
        /\ tab' = _TETrace[j].tab
        /\ tmp  = _TETrace[i].tmp
        /\ tmp' = _TETrace[j].tmp
        /\ poly  = _TETrace[i].poly
        /\ poly' = _TETrace[j].poly
        /\ pc  = _TETrace[i].pc
        /\ pc' = _TETrace[j].pc
        /\ inplanner  = _TETrace[i].inplanner
        /\ inplanner' = _TETrace[j].inplanner
        /\ puaf  = _TETrace[i].puaf
        /\ puaf' = _TETrace[j].puaf
        /\ left  = _TETrace[i].left
        /\ left' = _TETrace[j].left
        /\ buf  = _TETrace[i].buf
        /\ buf' = _TETrace[j].buf
        /\ uaf  = _TETrace[i].uaf
        /\ uaf' = _TETrace[j].uaf
        /\ result  = _TETrace[i].result
        /\ result' = _TETrace[j].result
        /\ mutex  = _TETrace[i].mutex
        /\ mutex' = _TETrace[j].mutex

\* Uncomment the ASSUME below to write the states of the error trace
\* to the given file in Json format. Note that you can pass any tuple
\* to `JsonSerialize`. For example, a sub-sequence of _TETrace.
    \* ASSUME
    \*     LET J == INSTANCE Json
    \*         IN J!JsonSerialize("Threads_TTrace_1790599523.json", _TETrace)

=============================================================================

 Note that you can extract this module `Threads_TEExpression`
  to a dedicated file to reuse `expression` (the module in the 
  dedicated `Threads_TEExpression.tla` file takes precedence 
  over the module `Threads_TEExpression` below).

---- MODULE Threads_TEExpression ----
EXTENDS Threads_TEConstants, Threads, Sequences, TLCExt, Toolbox, Naturals, TLC

expression == 
    [
        \* To hide variables of the `Threads` spec from the error trace,
        \* remove the variables below.  The trace will be written in the order
        \* of the fields of this record.
        proc |-> proc
        ,heap |-> heap
        ,tab |-> tab
        ,tmp |-> tmp
        ,poly |-> poly
        ,pc |-> pc
        ,inplanner |-> inplanner
        ,puaf |-> puaf
        ,left |-> left
        ,buf |-> buf
        ,uaf |-> uaf
        ,result |-> result
        ,mutex |-> mutex
        
        \* Put additional constant-, state-, and action-level expressions here:
        \* ,_stateNumber |-> _TEPosition
        \* ,_procUnchanged |-> proc = proc'
        
        \* Format the `proc` variable as Json value.
        \* ,_procJson |->
        \*     LET J == INSTANCE Json
        \*     IN J!ToJson(proc)
        
        \* Lastly, you may build expressions over arbitrary sets of states by
        \* leveraging the _TETrace operator.  For example, this is how to
        \* count the number of times a spec variable changed up to the current
        \* state in the trace.
        \* ,_procModCount |->
        \*     LET F[s \in DOMAIN _TETrace] ==
        \*         IF s = 1 THEN 0
        \*         ELSE IF _TETrace[s].proc # _TETrace[s-1].proc
        \*             THEN 1 + F[s-1] ELSE F[s-1]
        \*     IN F[_TEPosition - 1]
    ]

=============================================================================



Parsing and semantic processing can take forever if the trace below is long.
 In this case, it is advised to uncomment the module below to deserialize the
 trace from a generated binary file.

\*
\*---- MODULE Threads_TETrace ----
\*EXTENDS Threads_TEConstants, Threads, IOUtils, TLC
\*
\*trace == IODeserialize("Threads_TTrace_1790599523.bin", TRUE)
\*
\*=============================================================================
\*

---- MODULE Threads_TETrace ----
EXTENDS Threads_TEConstants, Threads, TLC

trace == 
    <<
    ([proc |-> (t1 :> "none" @@ t2 :> "none" @@ t3 :> "none"),mutex |-> "none",inplanner |-> {},result |-> (t1 :> <<>> @@ t2 :> <<>> @@ t3 :> <<>>),buf |-> (t1 :> <<"free", 0>> @@ t2 :> <<"free", 0>> @@ t3 :> <<"free", 0>>),pc |-> (t1 :> "start" @@ t2 :> "start" @@ t3 :> "start"),tab |-> [state |-> "none", owner |-> "none"],left |-> (t1 :> 2 @@ t2 :> 2 @@ t3 :> 2),tmp |-> (t1 :> <<"free", 0>> @@ t2 :> <<"free", 0>> @@ t3 :> <<"free", 0>>),poly |-> "none",uaf |-> FALSE,heap |-> (t1 :> 0 @@ t2 :> 0 @@ t3 :> 0),puaf |-> FALSE]),
    ([proc |-> (t1 :> "live" @@ t2 :> "none" @@ t3 :> "none"),mutex |-> "none",inplanner |-> {},result |-> (t1 :> <<>> @@ t2 :> <<>> @@ t3 :> <<>>),buf |-> (t1 :> <<"free", 0>> @@ t2 :> <<"free", 0>> @@ t3 :> <<"free", 0>>),pc |-> (t1 :> "idle" @@ t2 :> "start" @@ t3 :> "start"),tab |-> [state |-> "live", owner |-> t1],left |-> (t1 :> 2 @@ t2 :> 2 @@ t3 :> 2),tmp |-> (t1 :> <<"free", 0>> @@ t2 :> <<"free", 0>> @@ t3 :> <<"free", 0>>),poly |-> "none",uaf |-> FALSE,heap |-> (t1 :> 4 @@ t2 :> 0 @@ t3 :> 0),puaf |-> FALSE]),
    ([proc |-> (t1 :> "live" @@ t2 :> "none" @@ t3 :> "none"),mutex |-> "none",inplanner |-> {},result |-> (t1 :> <<>> @@ t2 :> <<>> @@ t3 :> <<>>),buf |-> (t1 :> <<t1, 2>> @@ t2 :> <<"free", 0>> @@ t3 :> <<"free", 0>>),pc |-> (t1 :> "loaded" @@ t2 :> "start" @@ t3 :> "start"),tab |-> [state |-> "live", owner |-> t1],left |-> (t1 :> 2 @@ t2 :> 2 @@ t3 :> 2),tmp |-> (t1 :> <<t1, 2>> @@ t2 :> <<"free", 0>> @@ t3 :> <<"free", 0>>),poly |-> "none",uaf |-> FALSE,heap |-> (t1 :> 4 @@ t2 :> 0 @@ t3 :> 0),puaf |-> FALSE]),
    ([proc |-> (t1 :> "live" @@ t2 :> "none" @@ t3 :> "none"),mutex |-> "none",inplanner |-> {},result |-> (t1 :> <<>> @@ t2 :> <<>> @@ t3 :> <<>>),buf |-> (t1 :> <<t1, 2>> @@ t2 :> <<"free", 0>> @@ t3 :> <<"free", 0>>),pc |-> (t1 :> "ran" @@ t2 :> "start" @@ t3 :> "start"),tab |-> [state |-> "live", owner |-> t1],left |-> (t1 :> 2 @@ t2 :> 2 @@ t3 :> 2),tmp |-> (t1 :> <<t1, 2>> @@ t2 :> <<"free", 0>> @@ t3 :> <<"free", 0>>),poly |-> "none",uaf |-> FALSE,heap |-> (t1 :> 4 @@ t2 :> 0 @@ t3 :> 0),puaf |-> FALSE]),
    ([proc |-> (t1 :> "live" @@ t2 :> "none" @@ t3 :> "none"),mutex |-> "none",inplanner |-> {},result |-> (t1 :> <<"ok">> @@ t2 :> <<>> @@ t3 :> <<>>),buf |-> (t1 :> <<"free", 0>> @@ t2 :> <<"free", 0>> @@ t3 :> <<"free", 0>>),pc |-> (t1 :> "idle" @@ t2 :> "start" @@ t3 :> "start"),tab |-> [state |-> "live", owner |-> t1],left |-> (t1 :> 1 @@ t2 :> 2 @@ t3 :> 2),tmp |-> (t1 :> <<"free", 0>> @@ t2 :> <<"free", 0>> @@ t3 :> <<"free", 0>>),poly |-> "none",uaf |-> FALSE,heap |-> (t1 :> 4 @@ t2 :> 0 @@ t3 :> 0),puaf |-> FALSE]),
    ([proc |-> (t1 :> "live" @@ t2 :> "none" @@ t3 :> "none"),mutex |-> "none",inplanner |-> {},result |-> (t1 :> <<"ok">> @@ t2 :> <<>> @@ t3 :> <<>>),buf |-> (t1 :> <<t1, 1>> @@ t2 :> <<"free", 0>> @@ t3 :> <<"free", 0>>),pc |-> (t1 :> "loaded" @@ t2 :> "start" @@ t3 :> "start"),tab |-> [state |-> "live", owner |-> t1],left |-> (t1 :> 1 @@ t2 :> 2 @@ t3 :> 2),tmp |-> (t1 :> <<t1, 1>> @@ t2 :> <<"free", 0>> @@ t3 :> <<"free", 0>>),poly |-> "none",uaf |-> FALSE,heap |-> (t1 :> 4 @@ t2 :> 0 @@ t3 :> 0),puaf |-> FALSE]),
    ([proc |-> (t1 :> "live" @@ t2 :> "none" @@ t3 :> "none"),mutex |-> "none",inplanner |-> {},result |-> (t1 :> <<"ok">> @@ t2 :> <<>> @@ t3 :> <<>>),buf |-> (t1 :> <<t1, 1>> @@ t2 :> <<"free", 0>> @@ t3 :> <<"free", 0>>),pc |-> (t1 :> "ran" @@ t2 :> "start" @@ t3 :> "start"),tab |-> [state |-> "live", owner |-> t1],left |-> (t1 :> 1 @@ t2 :> 2 @@ t3 :> 2),tmp |-> (t1 :> <<t1, 1>> @@ t2 :> <<"free", 0>> @@ t3 :> <<"free", 0>>),poly |-> "none",uaf |-> FALSE,heap |-> (t1 :> 4 @@ t2 :> 0 @@ t3 :> 0),puaf |-> FALSE]),
    ([proc |-> (t1 :> "live" @@ t2 :> "none" @@ t3 :> "none"),mutex |-> "none",inplanner |-> {},result |-> (t1 :> <<"ok", "ok">> @@ t2 :> <<>> @@ t3 :> <<>>),buf |-> (t1 :> <<"free", 0>> @@ t2 :> <<"free", 0>> @@ t3 :> <<"free", 0>>),pc |-> (t1 :> "idle" @@ t2 :> "start" @@ t3 :> "start"),tab |-> [state |-> "live", owner |-> t1],left |-> (t1 :> 0 @@ t2 :> 2 @@ t3 :> 2),tmp |-> (t1 :> <<"free", 0>> @@ t2 :> <<"free", 0>> @@ t3 :> <<"free", 0>>),poly |-> "none",uaf |-> FALSE,heap |-> (t1 :> 4 @@ t2 :> 0 @@ t3 :> 0),puaf |-> FALSE]),
    ([proc |-> (t1 :> "dead" @@ t2 :> "none" @@ t3 :> "none"),mutex |-> "none",inplanner |-> {},result |-> (t1 :> <<"ok", "ok">> @@ t2 :> <<>> @@ t3 :> <<>>),buf |-> (t1 :> <<"free", 0>> @@ t2 :> <<"free", 0>> @@ t3 :> <<"free", 0>>),pc |-> (t1 :> "gone" @@ t2 :> "start" @@ t3 :> "start"),tab |-> [state |-> "freed", owner |-> t1],left |-> (t1 :> 0 @@ t2 :> 2 @@ t3 :> 2),tmp |-> (t1 :> <<"free", 0>> @@ t2 :> <<"free", 0>> @@ t3 :> <<"free", 0>>),poly |-> "none",uaf |-> FALSE,heap |-> (t1 :> 0 @@ t2 :> 0 @@ t3 :> 0),puaf |-> FALSE]),
    ([proc |-> (t1 :> "dead" @@ t2 :> "live" @@ t3 :> "none"),mutex |-> "none",inplanner |-> {},result |-> (t1 :> <<"ok", "ok">> @@ t2 :> <<>> @@ t3 :> <<>>),buf |-> (t1 :> <<"free", 0>> @@ t2 :> <<"free", 0>> @@ t3 :> <<"free", 0>>),pc |-> (t1 :> "gone" @@ t2 :> "idle" @@ t3 :> "start"),tab |-> [state |-> "freed", owner |-> t1],left |-> (t1 :> 0 @@ t2 :> 2 @@ t3 :> 2),tmp |-> (t1 :> <<"free", 0>> @@ t2 :> <<"free", 0>> @@ t3 :> <<"free", 0>>),poly |-> "none",uaf |-> FALSE,heap |-> (t1 :> 0 @@ t2 :> 4 @@ t3 :> 0),puaf |-> FALSE]),
    ([proc |-> (t1 :> "dead" @@ t2 :> "live" @@ t3 :> "none"),mutex |-> "none",inplanner |-> {},result |-> (t1 :> <<"ok", "ok">> @@ t2 :> <<>> @@ t3 :> <<>>),buf |-> (t1 :> <<"free", 0>> @@ t2 :> <<t2, 2>> @@ t3 :> <<"free", 0>>),pc |-> (t1 :> "gone" @@ t2 :> "loaded" @@ t3 :> "start"),tab |-> [state |-> "freed", owner |-> t1],left |-> (t1 :> 0 @@ t2 :> 2 @@ t3 :> 2),tmp |-> (t1 :> <<"free", 0>> @@ t2 :> <<t2, 2>> @@ t3 :> <<"free", 0>>),poly |-> "none",uaf |-> FALSE,heap |-> (t1 :> 0 @@ t2 :> 4 @@ t3 :> 0),puaf |-> FALSE]),
    ([proc |-> (t1 :> "dead" @@ t2 :> "live" @@ t3 :> "none"),mutex |-> "none",inplanner |-> {},result |-> (t1 :> <<"ok", "ok">> @@ t2 :> <<>> @@ t3 :> <<>>),buf |-> (t1 :> <<"free", 0>> @@ t2 :> <<t2, 2>> @@ t3 :> <<"free", 0>>),pc |-> (t1 :> "gone" @@ t2 :> "ran" @@ t3 :> "start"),tab |-> [state |-> "freed", owner |-> t1],left |-> (t1 :> 0 @@ t2 :> 2 @@ t3 :> 2),tmp |-> (t1 :> <<"free", 0>> @@ t2 :> <<t2, 2>> @@ t3 :> <<"free", 0>>),poly |-> "none",uaf |-> TRUE,heap |-> (t1 :> 0 @@ t2 :> 4 @@ t3 :> 0),puaf |-> FALSE])
    >>
----


=============================================================================

---- MODULE Threads_TEConstants ----
EXTENDS Threads

CONSTANTS t1, t2, t3

=============================================================================

---- CONFIG Threads_TTrace_1790599523 ----
CONSTANTS
    Thr = { t1 , t2 , t3 }
    Calls = 2
    ProcScope = "thread"
    DtorLocked = FALSE
    UsesPlanner = FALSE
    PolyShare = FALSE
    TableScope = "firstowner"
    TempScope = "call"
    DtorFrees = "all"
    t2 = t2
    t3 = t3
    t1 = t1

INVARIANT
    _inv

CHECK_DEADLOCK
    \* CHECK_DEADLOCK off because of PROPERTY or INVARIANT above.
    FALSE

INIT
    _init

NEXT
    _next

CONSTANT
    _TETrace <- _trace

ALIAS
    _expression
=============================================================================
\* Generated on Mon Sep 28 12:45:24 UTC 2026