SPECIFICATION Spec
CONSTANTS Thr = {t1, t2}
 CallerLock = FALSE
INVARIANT OneSingleton
INVARIANT NothingLost
CHECK_DEADLOCK FALSE
