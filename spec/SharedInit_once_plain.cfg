SPECIFICATION Spec
CONSTANTS Thr = {t1, t2, t3}
 Guard = "once"
 UsesPlanner = FALSE
INVARIANT TypeOK
INVARIANT OneShared
INVARIANT NoHalfBuilt
PROPERTY AllDone
CHECK_DEADLOCK FALSE
