----------------------------- MODULE MC_Gadget -----------------------------
(* C12 on the specification: every value of the W-bit torus; and the decomposition as a little machine over a buffer *)
(* of NC coefficients with the dirty window made explicit (add offset / extract level p / remove offset).           *)
EXTENDS Gadget, TLC
CONSTANTS NC,          \* coefficients of the polynomial in the machine part
          Vals,        \* coefficient values the machine part starts from
          Mutant       \* "none" | "nooffset" | "norestore" | "shift"
VARIABLES orig,        \* the caller's polynomial (ghost)
          buf,         \* the input buffer the routine temporarily modifies
          res,         \* res[p][j]
          pc           \* "start" | "extract" (with level lv) | "restore" | "done"
        , lv
vars == <<orig, buf, res, pc, lv>>
Idx == 1..NC
Init == /\ orig \in [Idx -> Vals] /\ buf = orig
        /\ res = [p \in 1..L |-> [j \in Idx |-> 0]] /\ pc = "start" /\ lv = 1
Off == IF Mutant = "nooffset" THEN 0 ELSE Offset
Sh(p) == IF Mutant = "shift" /\ p = L THEN Shift(p) + 1 ELSE Shift(p)
AddOffset == /\ pc = "start" /\ buf' = [j \in Idx |-> (buf[j] + Off) % Q] /\ pc' = "extract" /\ UNCHANGED <<orig, res, lv>>
Extract   == /\ pc = "extract" /\ lv <= L
             /\ res' = [res EXCEPT ![lv] = [j \in Idx |-> ((buf[j] \div 2^Sh(lv)) % Bg) - HalfBg]]
             /\ lv' = lv + 1 /\ pc' = (IF lv = L THEN "restore" ELSE "extract") /\ UNCHANGED <<orig, buf>>
RemoveOffset == /\ pc = "restore"
                /\ buf' = IF Mutant = "norestore" THEN buf ELSE [j \in Idx |-> (buf[j] - Off) % Q]
                /\ pc' = "done" /\ UNCHANGED <<orig, res, lv>>
Next == AddOffset \/ Extract \/ RemoveOffset \/ (pc = "done" /\ UNCHANGED vars)
Spec == Init /\ [][Next]_vars

\* the input is modified only inside the window, and restored at the end
DirtyOnlyInside == (pc \in {"start", "done"}) => buf = orig
InputRestored   == pc = "done" => buf = orig
\* every coefficient position gets the digits of its own coefficient (lane independence) and they are good
ResultGood == pc = "done" => \A j \in Idx :
                  LET d == [p \in 1..L |-> res[p][j]] IN
                    /\ d = Digits(orig[j]) \/ Mutant # "none"
                    /\ Balanced(d) /\ RecomposesTo(d, orig[j])
=============================================================================
