---- MODULE MC_RingScheme_TTrace_1790556084 ----
EXTENDS Sequences, TLCExt, Toolbox, MC_RingScheme, Naturals, TLC

_expression ==
    LET MC_RingScheme_TEExpression == INSTANCE MC_RingScheme_TEExpression
    IN MC_RingScheme_TEExpression!expression
----

_trace ==
    LET MC_RingScheme_TETrace == INSTANCE MC_RingScheme_TETrace
    IN MC_RingScheme_TETrace!trace
----

_inv ==
    ~(
        TLCGet("level") = Len(_TETrace)
        /\
        grp = (15)
        /\
        aux = (2)
        /\
        x = ([a |-> <<0, 0>>, b |-> 15])
    )
----

_init ==
    /\ aux = _TETrace[1].aux
    /\ x = _TETrace[1].x
    /\ grp = _TETrace[1].grp
----

_next ==
    /\ \E i,j \in DOMAIN _TETrace:
        /\ \/ /\ j = i + 1
              /\ i = TLCGet("level")
        /\ aux  = _TETrace[i].aux
        /\ aux' = _TETrace[j].aux
        /\ x  = _TETrace[i].x
        /\ x' = _TETrace[j].x
        /\ grp  = _TETrace[i].grp
        /\ grp' = _TETrace[j].grp

\* Uncomment the ASSUME below to write the states of the error trace
\* to the given file in Json format. Note that you can pass any tuple
\* to `JsonSerialize`. For example, a sub-sequence of _TETrace.
    \* ASSUME
    \*     LET J == INSTANCE Json
    \*         IN J!JsonSerialize("MC_RingScheme_TTrace_1790556084.json", _TETrace)

=============================================================================

 Note that you can extract this module `MC_RingScheme_TEExpression`
  to a dedicated file to reuse `expression` (the module in the 
  dedicated `MC_RingScheme_TEExpression.tla` file takes precedence 
  over the module `MC_RingScheme_TEExpression` below).

---- MODULE MC_RingScheme_TEExpression ----
EXTENDS Sequences, TLCExt, Toolbox, MC_RingScheme, Naturals, TLC

expression == 
    [
        \* To hide variables of the `MC_RingScheme` spec from the error trace,
        \* remove the variables below.  The trace will be written in the order
        \* of the fields of this record.
        aux |-> aux
        ,x |-> x
        ,grp |-> grp
        
        \* Put additional constant-, state-, and action-level expressions here:
        \* ,_stateNumber |-> _TEPosition
        \* ,_auxUnchanged |-> aux = aux'
        
        \* Format the `aux` variable as Json value.
        \* ,_auxJson |->
        \*     LET J == INSTANCE Json
        \*     IN J!ToJson(aux)
        
        \* Lastly, you may build expressions over arbitrary sets of states by
        \* leveraging the _TETrace operator.  For example, this is how to
        \* count the number of times a spec variable changed up to the current
        \* state in the trace.
        \* ,_auxModCount |->
        \*     LET F[s \in DOMAIN _TETrace] ==
        \*         IF s = 1 THEN 0
        \*         ELSE IF _TETrace[s].aux # _TETrace[s-1].aux
        \*             THEN 1 + F[s-1] ELSE F[s-1]
        \*     IN F[_TEPosition - 1]
    ]

=============================================================================



Parsing and semantic processing can take forever if the trace below is long.
 In this case, it is advised to uncomment the module below to deserialize the
 trace from a generated binary file.

\*
\*---- MODULE MC_RingScheme_TETrace ----
\*EXTENDS IOUtils, MC_RingScheme, TLC
\*
\*trace == IODeserialize("MC_RingScheme_TTrace_1790556084.bin", TRUE)
\*
\*=============================================================================
\*

---- MODULE MC_RingScheme_TETrace ----
EXTENDS MC_RingScheme, TLC

trace == 
    <<
    ([grp |-> 15,aux |-> -1,x |-> "none"]),
    ([grp |-> 15,aux |-> 2,x |-> [a |-> <<0, 0>>, b |-> 15]])
    >>
----


=============================================================================

---- CONFIG MC_RingScheme_TTrace_1790556084 ----
CONSTANTS
    W = 4
    NP = 8
    KK = 1
    LL = 2
    BGB = 2
    NN = 2
    T = 2
    BB = 2
    Mode = "boot"
    AVals = { 0 , 3 , 8 , 13 }
    Mutant = "barb"

INVARIANT
    _inv

CHECK_DEADLOCK
    \* CHECK_DEADLOCK off because of PROPERTY or INVARIANT above.
    FALSE

INIT
    _init

NEXT
    _next

CONSTANT
    _TETrace <- _trace

ALIAS
    _expression
=============================================================================
\* Generated on Mon Sep 28 00:41:37 UTC 2026