SPECIFICATION TSpec
CONSTANTS NP = 4
 W = 8
 LRegs = {0,1,2}
 IPool <- TIPool
 TPool <- TTPool
POSTCONDITION Accepted
CHECK_DEADLOCK FALSE
