--------------------------- MODULE Trace_ObjLife ---------------------------
(* Ledger readings of harness/h_objs.cpp validated against ObjLife.  Every call must be enabled in ObjLife, and its effect on the heap (blocks and   *)
(* bytes allocated minus released across the call) must follow the footprint rules: a function of (call, type, n) only; alloc is one block, linear  *)
(* in n; free = -alloc; destroy = -init; new = alloc + init; delete = -new; init linear in n; no red zone written, no double free; and when a        *)
(* program ends with all slots empty, nothing it allocated is alive.  The table of footprints is read off the trace itself (it is a constant of     *)
(* the run); Calibrated demands that every (type, n) the trace uses has been seen through all six calls, so that no rule is vacuous.                *)
EXTENDS ObjLife, Json, IOUtils, Sequences
VARIABLES l, nwin
Tr == ndJsonDeserialize(IOEnv.TRACE)
Ev == Tr[l]
tvars == <<ovars, l, nwin>>
Calls == {i \in 1..Len(Tr) : Tr[i].e = "Call"}
Keys == {<<Tr[i].t, Tr[i].n>> : i \in Calls}
None == <<0, -1>>
Val(op, t, n) == LET S == {i \in Calls : Tr[i].op = op /\ Tr[i].t = t /\ Tr[i].n = n} IN IF S = {} THEN None ELSE LET i == CHOOSE j \in S : TRUE IN <<Tr[i].dblocks, Tr[i].dbytes>>
Tab == [k \in Keys |-> [op \in {"alloc", "init", "destroy", "free", "new", "delete"} |-> Val(op, k[1], k[2])]]
Neg(d) == <<0 - d[1], 0 - d[2]>>
Plus(a, b) == <<a[1] + b[1], a[2] + b[2]>>
El(n) == IF n = 0 THEN 1 ELSE n
Rule(op, t, n, d) == LET v == Tab[<<t, n>>] IN
    /\ d = v[op]                                                             \* a function of (call, type, n)
    /\ CASE op = "alloc"   -> d[1] = 1 /\ d[2] > 0 /\ \A k \in Keys : (k[1] = t /\ Tab[k]["alloc"] # None) => d[2] * El(k[2]) = Tab[k]["alloc"][2] * El(n)
         [] op = "init"    -> d[1] >= 0 /\ d[2] >= 0 /\ \A k \in Keys : (k[1] = t /\ Tab[k]["init"] # None) => (d[2] * El(k[2]) = Tab[k]["init"][2] * El(n) /\ d[1] * El(k[2]) = Tab[k]["init"][1] * El(n))
         [] op = "destroy" -> d = Neg(v["init"])
         [] op = "free"    -> d = Neg(v["alloc"])
         [] op = "new"     -> d = Plus(v["alloc"], v["init"])
         [] op = "delete"  -> d = Neg(Plus(v["alloc"], v["init"]))
Calibrated == \A k \in Keys : \A op \in {"alloc", "init", "destroy", "free", "new", "delete"} : Tab[k][op] # None
TInit == OInit /\ l = 1 /\ nwin = 0
Consume == l <= Len(Tr) /\ l' = l + 1
TProg == Ev.e = "Prog" /\ st' = [s \in Slots |-> "none"] /\ ty' = [s \in Slots |-> "-"] /\ cnt' = [s \in Slots |-> 0] /\ calls' = 0 /\ last' = [op |-> "Init"] /\ UNCHANGED nwin
TCall == /\ Ev.e = "Call" /\ Ev.damaged = 0 /\ Ev.dfree = 0
         /\ CASE Ev.op = "alloc"   -> Alloc(Ev.s, Ev.t, Ev.n)
              [] Ev.op = "new"     -> New(Ev.s, Ev.t, Ev.n)
              [] Ev.op = "init"    -> Init(Ev.s) /\ ty[Ev.s] = Ev.t /\ cnt[Ev.s] = Ev.n
              [] Ev.op = "destroy" -> Destroy(Ev.s) /\ ty[Ev.s] = Ev.t /\ cnt[Ev.s] = Ev.n
              [] Ev.op = "free"    -> Free(Ev.s) /\ ty[Ev.s] = Ev.t /\ cnt[Ev.s] = Ev.n
              [] Ev.op = "delete"  -> Delete(Ev.s) /\ ty[Ev.s] = Ev.t /\ cnt[Ev.s] = Ev.n
              [] OTHER -> FALSE
         /\ Rule(Ev.op, Ev.t, Ev.n, <<Ev.dblocks, Ev.dbytes>>) /\ UNCHANGED nwin
TWindow == /\ Ev.e = "Window" /\ (\A s \in Slots : st[s] = "none") /\ Ev.live_blocks = 0 /\ Ev.live_bytes = 0 /\ Ev.damaged = 0 /\ Ev.dfree = 0
           /\ nwin' = nwin + 1 /\ UNCHANGED ovars
TNext == Consume /\ (TProg \/ TCall \/ TWindow)            \* a "Crash" event matches no action
TSpec == TInit /\ [][TNext]_tvars
Accepted == TLCGet("stats").diameter - 1 = Len(Tr)
Exercised == (l = Len(Tr) + 1) => nwin >= 1 /\ Calibrated
=============================================================================
