--------------------------- MODULE Trace_ObjLife ---------------------------
(* Ledger readings of harness/h_objs.cpp validated against ObjLife.  Every call must be enabled in ObjLife, and its effect on the heap (blocks and   *)
(* bytes allocated minus released across the call) is booked on the slot it acts on.  The account is held to what C16 states and no more: an empty   *)
(* slot holds nothing (free and delete give back everything acquired on the slot's behalf, however it was acquired); raw memory holds the same every *)
(* time (destroy gives back what init acquired, so init / destroy cycles do not grow); allocation acquires something; no red zone is written and     *)
(* nothing is freed twice; a program that ends with all slots empty leaves nothing alive.  How an implementation lays its objects out - one block or  *)
(* many, with or without padding, new as alloc + init or in one piece - is not constrained.                                                          *)
EXTENDS ObjLife, Json, IOUtils, Sequences
VARIABLES l, nwin, acc, rawf, seen
Tr == ndJsonDeserialize(IOEnv.TRACE)
Ev == Tr[l]
tvars == <<ovars, l, nwin, acc, rawf, seen>>
Zero2 == <<0, 0>>
None == <<0, -1>>
Plus(a, b) == <<a[1] + b[1], a[2] + b[2]>>
\* acc[s]: what the process holds on behalf of slot s (blocks, bytes: the sum of the readings of the calls made on it since it was empty);
\* rawf[s]: what it held the first time the slot was raw memory in this occupancy
Account(s, op, d) == LET a == Plus(acc[s], d) IN
    CASE op = "alloc"   -> acc' = [acc EXCEPT ![s] = a] /\ rawf' = [rawf EXCEPT ![s] = a] /\ d[1] >= 1 /\ d[2] >= 1
      [] op = "new"     -> acc' = [acc EXCEPT ![s] = a] /\ rawf' = rawf /\ d[1] >= 1 /\ d[2] >= 1
      [] op = "init"    -> acc' = [acc EXCEPT ![s] = a] /\ rawf' = rawf /\ d[1] >= 0 /\ d[2] >= 0
      \* destroy gives back what init acquired: raw memory holds the same every time (init / destroy cycles do not grow)
      [] op = "destroy" -> acc' = [acc EXCEPT ![s] = a] /\ (IF rawf[s] = None THEN rawf' = [rawf EXCEPT ![s] = a] ELSE a = rawf[s] /\ rawf' = rawf) /\ a[1] >= 1
      \* an empty slot holds nothing: free and delete give back everything that was acquired on the slot's behalf
      [] op \in {"free", "delete"} -> a = Zero2 /\ acc' = [acc EXCEPT ![s] = Zero2] /\ rawf' = [rawf EXCEPT ![s] = None]
TInit == OInit /\ l = 1 /\ nwin = 0 /\ acc = [s \in Slots |-> Zero2] /\ rawf = [s \in Slots |-> None] /\ seen = {}
Consume == l <= Len(Tr) /\ l' = l + 1
TProg == /\ Ev.e = "Prog" /\ st' = [s \in Slots |-> "none"] /\ ty' = [s \in Slots |-> "-"] /\ cnt' = [s \in Slots |-> 0] /\ calls' = 0 /\ last' = [op |-> "Init"]
         /\ acc' = [s \in Slots |-> Zero2] /\ rawf' = [s \in Slots |-> None] /\ UNCHANGED <<nwin, seen>>
TCall == /\ Ev.e = "Call" /\ Ev.damaged = 0 /\ Ev.dfree = 0
         /\ CASE Ev.op = "alloc"   -> Alloc(Ev.s, Ev.t, Ev.n)
              [] Ev.op = "new"     -> New(Ev.s, Ev.t, Ev.n)
              [] Ev.op = "init"    -> Init(Ev.s) /\ ty[Ev.s] = Ev.t /\ cnt[Ev.s] = Ev.n
              [] Ev.op = "destroy" -> Destroy(Ev.s) /\ ty[Ev.s] = Ev.t /\ cnt[Ev.s] = Ev.n
              [] Ev.op = "free"    -> Free(Ev.s) /\ ty[Ev.s] = Ev.t /\ cnt[Ev.s] = Ev.n
              [] Ev.op = "delete"  -> Delete(Ev.s) /\ ty[Ev.s] = Ev.t /\ cnt[Ev.s] = Ev.n
              [] OTHER -> FALSE
         /\ Account(Ev.s, Ev.op, <<Ev.dblocks, Ev.dbytes>>) /\ seen' = seen \cup {<<Ev.op, Ev.t, IF Ev.n = 0 THEN 0 ELSE 1>>} /\ UNCHANGED nwin
TWindow == /\ Ev.e = "Window" /\ (\A s \in Slots : st[s] = "none") /\ Ev.live_blocks = 0 /\ Ev.live_bytes = 0 /\ Ev.damaged = 0 /\ Ev.dfree = 0
           /\ nwin' = nwin + 1 /\ UNCHANGED <<ovars, acc, rawf, seen>>
TNext == Consume /\ (TProg \/ TCall \/ TWindow)            \* a "Crash" event matches no action
TSpec == TInit /\ [][TNext]_tvars
Accepted == TLCGet("stats").diameter - 1 = Len(Tr)
\* every one of the six calls has been seen on every type, in the single and in the array form
Exercised == (l = Len(Tr) + 1) => nwin >= 1 /\ \A t \in Types, op \in {"alloc", "init", "destroy", "free", "new", "delete"}, f \in {0, 1} : <<op, t, f>> \in seen
=============================================================================
