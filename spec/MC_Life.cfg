SPECIFICATION LSpec
CONSTANTS Relax = FALSE
 ParamKind = "custom"
 Budget = 7
VIEW View
INVARIANT TypeOK
INVARIANT NoDangling
INVARIANT DeadIsEmpty
INVARIANT NoStuck
CHECK_DEADLOCK FALSE
