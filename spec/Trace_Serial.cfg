SPECIFICATION TSpec
POSTCONDITION Accepted
CHECK_DEADLOCK FALSE
